"""(T) for C12: read, with `ast`, the parts of pyroll-core that decide which objects `solve` writes to and which
values are shared, and describe them as DATA in lean/PyrollModel/Gen/C12.lean:

* the classifier producers (`Rotator.OutProfile.classifiers`, `BaseRollPass.OutProfile.classifiers`,
  `SymmetricRollPass.classifiers`, `ThreeRollPass.classifiers`, `GenericElongationGroove.classifiers`, the
  `classifiers=` argument of `Profile.from_groove` / `from_polygon`) as programs of the set language of
  `Heap.Stmt`: `a | b`, `set(x)`, `{...}` build NEW objects; `x.add(..)`, `x |= ..`, `x.update(..)` change `x`
  IN PLACE; an attribute chain is a value obtained from another object (`foreign`).  The model executes the
  programs (`Heap.runProg`); `Prog.safe` (decided in lean/PyrollProps/C12.lean) says that every in-place statement
  acts on an object created by the same run.
* the shape of the two shallow copies `Unit.Profile.__init__`, `BaseRollPass.Roll.__init__`
  (public entries only / passed by reference / weak back-link / anything else it assigns),
* every attribute assignment, item assignment, `setattr`, `del`, augmented assignment and mutating method call in the
  functions that make up `solve` (`Unit.solve`, `init_solve`, `_solve_subunits`, `get_root_hook_results`,
  `HookHost.evaluate_and_set_hooks`, `reevaluate_cache`, `Hook.__get__`/`__set__`, the overrides in
  DiskElementUnit / BaseRollPass / SymmetricRollPass / TwoRollPass / ThreeRollPass / Roll) as
  (function, receiver, what) triples,
* what `Unit.solve` returns and what `init_solve` / `SymmetricRollPass.__init__` store,
* the velocity solvers of a pass sequence (`PassSequence.solve_velocities_forward` / `_backward`, solve entry points that
  take the caller's profile): every write with its receiver resolved through the local bindings, every use of
  `in_profile`,
* the two `__deepcopy__` methods (`HookHost`, `Unit._SubUnitsList`) as (path condition, statement) lists and every
  definition of a copy / pickle protocol method in the package,
* the FORM of `Unit.init_solve`'s treatment of an out-profile left by an earlier solve (`Heap.Reuse`): no `else:`
  branch of `if not self.out_profile:` = `.keep`; an `else:` branch that deletes the outdated public non-root-hook
  entries, sets the incoming profile's public non-root-hook entries and fills in missing root-hook entries =
  `.handOver` (compared as an AST, up to the names of local variables); the model's `ensureOut` takes the value.

* the construction of a roll pass: the FORM in which `SymmetricRollPass.__init__` binds `self.roll` (`Heap.RollStore`:
  `self.roll = self.Roll(<the parameter>, self)`, unconditionally = `.copy`; `self.roll = <the parameter>` = `.adopt`;
  anything else - a condition on what is handed in, a second binding - is a Gap), every place of the package that binds
  an attribute `roll`, and every statement of a constructor in roll_pass/ that uses its parameter `roll`.

Only whitelisted shapes are translated; anything else is a `Gap` (broken tie).
"""
import ast
import re
import copy
import os

from .pyexpr import write_if_changed


class Gap(Exception):
    pass


MUTATORS = {"add", "update", "append", "extend", "insert", "remove", "discard", "clear", "pop", "popitem",
            "setdefault", "sort", "reverse", "fill", "resize", "put", "itemset", "difference_update",
            "intersection_update", "symmetric_difference_update", "__setitem__", "__delitem__", "__setattr__",
            "__ior__", "__iand__", "__isub__", "__ixor__"}
INPLACE_SET = {"add": "add", "update": "update"}


def _src(n):
    return ast.unparse(n)


def _parse(repo, rel):
    path = os.path.join(repo, "pyroll", "core", rel)
    with open(path) as f:
        return ast.parse(f.read(), filename=path)


def _find_class(tree, qual):
    node = tree
    for name in qual.split("."):
        for ch in node.body:
            if isinstance(ch, ast.ClassDef) and ch.name == name:
                node = ch
                break
        else:
            raise Gap(f"class {qual} not found")
    return node


def _find_func(node, name):
    """the LAST definition of that name in the class body (typing overloads come first)"""
    res = None
    for ch in node.body:
        if isinstance(ch, (ast.FunctionDef,)) and ch.name == name:
            res = ch
    return res


def _path(node):
    parts = []
    while isinstance(node, ast.Attribute):
        parts.append(node.attr)
        node = node.value
    if isinstance(node, ast.Name):
        parts.append(node.id)
        return ".".join(reversed(parts))
    return None


# -------------------------------------------------------------------------------------------------
# producers -> Heap.Prog
# -------------------------------------------------------------------------------------------------
class ProgBuilder:
    def __init__(self, atoms):
        self.atoms = atoms          # shared table of string literals
        self.paths = []             # foreign attribute chains of this program
        self.vars = {}              # local set-valued variable -> number
        self.alias = {}             # local name bound to an attribute chain (e.g. `r = self.rotator`)
        self.guards = []
        self.stmts = []             # (guard or None, lean text of the Act)

    def atom(self, s):
        if s not in self.atoms:
            self.atoms.append(s)
        return self.atoms.index(s)

    def foreign(self, text):
        if text not in self.paths:
            self.paths.append(text)
        return f".foreign {self.paths.index(text)}"

    def expr(self, n):
        if isinstance(n, ast.Set):
            elems = []
            for e in n.elts:
                if not (isinstance(e, ast.Constant) and isinstance(e.value, str)):
                    raise Gap(f"set literal with a non-string element: {_src(n)}")
                elems.append(self.atom(e.value))
            return f".lit [{', '.join(map(str, elems))}]"
        if isinstance(n, ast.BinOp) and isinstance(n.op, ast.BitOr):
            return f".union ({self.expr(n.left)}) ({self.expr(n.right)})"
        if isinstance(n, ast.Call) and isinstance(n.func, ast.Name) and n.func.id in ("set", "frozenset") \
                and len(n.args) == 1 and not n.keywords:
            return f".newSet ({self.expr(n.args[0])})"
        if isinstance(n, ast.Call) and isinstance(n.func, ast.Attribute) and n.func.attr in ("copy", "union") \
                and not n.keywords:
            base = self.expr(n.func.value)
            if n.func.attr == "copy" and not n.args:
                return f".newSet ({base})"
            if n.func.attr == "union" and len(n.args) == 1:
                return f".union ({base}) ({self.expr(n.args[0])})"
        if isinstance(n, ast.Name):
            if n.id in self.vars:
                return f".var {self.vars[n.id]}"
            if n.id in self.alias:
                return self.foreign(self.alias[n.id])
            return self.foreign(n.id)          # a parameter: a value handed in from outside
        p = _path(n)
        if p is not None:
            root, _, rest = p.partition(".")
            if root in self.vars:
                raise Gap(f"attribute of a local set: {_src(n)}")
            if root in self.alias:
                p = self.alias[root] + ("." + rest if rest else "")
            return self.foreign(p)
        if isinstance(n, ast.Attribute) and isinstance(n.value, ast.Call) and _src(n.value) == "super()":
            return self.foreign("super()." + n.attr)
        raise Gap(f"set expression outside the subset: {_src(n)}")

    def emit(self, guard, act):
        self.stmts.append((guard, act))

    def assign(self, guard, target, value):
        if not isinstance(target, ast.Name):
            raise Gap(f"assignment target outside the subset: {_src(target)}")
        # `r = self.rotator`: an alias of an attribute chain, no set operation involved
        p = _path(value)
        if p is not None and guard is None and isinstance(value, ast.Attribute) and value.attr != "classifiers" \
                and not p.endswith("classifiers"):
            root, _, rest = p.partition(".")
            if root in self.alias:
                p = self.alias[root] + ("." + rest if rest else "")
            self.alias[target.id] = p
            return
        e = self.expr(value)
        if target.id not in self.vars:
            self.vars[target.id] = len(self.vars)
        self.emit(guard, f".assign {self.vars[target.id]} ({e})")

    def body(self, stmts, guard):
        for st in stmts:
            if isinstance(st, ast.Expr) and isinstance(st.value, ast.Constant) and isinstance(st.value.value, str):
                continue                                   # docstring
            if isinstance(st, ast.Assign) and len(st.targets) == 1:
                self.assign(guard, st.targets[0], st.value)
            elif isinstance(st, ast.AnnAssign) and st.value is not None:
                self.assign(guard, st.target, st.value)
            elif isinstance(st, ast.AugAssign) and isinstance(st.op, ast.BitOr) and isinstance(st.target, ast.Name):
                v = self.inplace_var(st.target)
                self.emit(guard, f".ior {v} ({self.expr(st.value)})")
            elif isinstance(st, ast.Expr) and isinstance(st.value, ast.Call) \
                    and isinstance(st.value.func, ast.Attribute) and st.value.func.attr in INPLACE_SET \
                    and len(st.value.args) == 1 and not st.value.keywords:
                v = self.inplace_var(st.value.func.value)
                a = st.value.args[0]
                if st.value.func.attr == "add":
                    if not (isinstance(a, ast.Constant) and isinstance(a.value, str)):
                        raise Gap(f"add of a non-literal: {_src(st)}")
                    self.emit(guard, f".add {v} {self.atom(a.value)}")
                else:
                    self.emit(guard, f".update {v} ({self.expr(a)})")
            elif isinstance(st, ast.Return) and st.value is not None:
                self.emit(guard, f".ret ({self.expr(st.value)})")
            elif isinstance(st, ast.If):
                if guard is not None:
                    raise Gap("nested conditional in a classifier producer")
                cur = st
                while True:
                    g = len(self.guards)
                    self.guards.append(_src(cur.test))
                    self.body(cur.body, g)
                    if len(cur.orelse) == 1 and isinstance(cur.orelse[0], ast.If):
                        cur = cur.orelse[0]
                        continue
                    if cur.orelse:
                        raise Gap("else branch in a classifier producer")
                    break
            else:
                raise Gap(f"statement outside the subset in a classifier producer: {_src(st)}")

    def inplace_var(self, target):
        """the receiver of an in-place operation: a local set variable; a receiver that is an attribute chain or a
        parameter is first bound to a variable (it then denotes a FOREIGN object and the program is not safe)"""
        if isinstance(target, ast.Name) and target.id in self.vars:
            return self.vars[target.id]
        e = self.expr(target)
        name = "%recv" + str(len(self.vars))
        self.vars[name] = len(self.vars)
        self.emit(None, f".assign {self.vars[name]} ({e})")
        return self.vars[name]

    def lean(self):
        items = []
        for g, act in self.stmts:
            if g is None:
                items.append(f"{{ act := {act} }}")
            else:
                items.append(f"{{ guard := some {g}, act := {act} }}")
        return "[" + ",\n   ".join(items) + "]"


def _decorated(tree, deco):
    for ch in tree.body:
        if isinstance(ch, ast.FunctionDef):
            for d in ch.decorator_list:
                if _src(d) == deco:
                    return ch
    raise Gap(f"no function decorated with @{deco}")


def _kwarg_of_return(fn, kw):
    rets = [n for n in ast.walk(fn) if isinstance(n, ast.Return) and isinstance(n.value, ast.Call)]
    for r in rets:
        for k in r.value.keywords:
            if k.arg == kw:
                return k.value
    raise Gap(f"{fn.name}: no returned call with keyword {kw}")


def producers(repo, atoms):
    res = []

    def fn_prog(name, fn):
        b = ProgBuilder(atoms)
        b.body(fn.body, None)
        res.append((name, b))

    def expr_prog(name, e):
        b = ProgBuilder(atoms)
        b.emit(None, f".ret ({b.expr(e)})")
        res.append((name, b))

    fn_prog("rotatorClassifiers", _decorated(_parse(repo, "rotator/hookimpls.py"), "Rotator.OutProfile.classifiers"))
    fn_prog("passOutClassifiers", _decorated(_parse(repo, "roll_pass/hookimpls/profile.py"),
                                             "BaseRollPass.OutProfile.classifiers"))
    for name, rel, cls in (("symmetricClassifiers", "roll_pass/symmetric_roll_pass.py", "SymmetricRollPass"),
                           ("threeRollClassifiers", "roll_pass/three_roll_pass.py", "ThreeRollPass"),
                           ("grooveClassifiers", "grooves/generic_elongation.py", "GenericElongationGroove")):
        fn = _find_func(_find_class(_parse(repo, rel), cls), "classifiers")
        if fn is None:
            raise Gap(f"{cls}.classifiers not found")
        fn_prog(name, fn)
    prof = _find_class(_parse(repo, "profile/profile.py"), "Profile")
    expr_prog("fromGrooveClassifiers", _kwarg_of_return(_find_func(prof, "from_groove"), "classifiers"))
    expr_prog("fromPolygonClassifiers", _kwarg_of_return(_find_func(prof, "from_polygon"), "classifiers"))
    return res


# -------------------------------------------------------------------------------------------------
# the shallow copies
# -------------------------------------------------------------------------------------------------
def copy_shape(fn, what):
    """`__init__(self, <a>, <b>)` of `Unit.Profile` / `BaseRollPass.Roll` -> (publicOnly, byReference, weakBackLink, other)"""
    public_only = by_ref = weak = False
    passes_on = False
    other = []
    kw_name = None
    for st in fn.body:
        if isinstance(st, ast.Expr) and isinstance(st.value, ast.Constant):
            continue
        if isinstance(st, ast.Assign) and len(st.targets) == 1 and isinstance(st.targets[0], ast.Name) \
                and isinstance(st.value, ast.Call) and _src(st.value.func) == "dict" and len(st.value.args) == 1 \
                and isinstance(st.value.args[0], (ast.GeneratorExp, ast.ListComp)):
            comp = st.value.args[0]
            gen = comp.generators[0]
            it = _src(gen.iter)
            if len(comp.generators) == 1 and it.endswith(".__dict__.items()") and isinstance(gen.target, ast.Name) \
                    and isinstance(comp.elt, ast.Name) and comp.elt.id == gen.target.id:
                by_ref = True                      # the (key, value) pairs are passed on as they are
                e = gen.target.id
                public_only = [_src(c) for c in gen.ifs] == [f"not {e}[0].startswith('_')"]
                kw_name = st.targets[0].id
                continue
        if isinstance(st, ast.Assign) and len(st.targets) == 1 and isinstance(st.targets[0], ast.Attribute) \
                and _src(st.targets[0].value) == "self" and isinstance(st.value, ast.Call) \
                and _src(st.value.func) == "weakref.ref" and st.targets[0].attr.startswith("_"):
            weak = True
            continue
        if isinstance(st, ast.Expr) and isinstance(st.value, ast.Call) and _src(st.value.func) == "super().__init__" \
                and not st.value.args and len(st.value.keywords) == 1 and st.value.keywords[0].arg is None \
                and kw_name is not None and _src(st.value.keywords[0].value) == kw_name:
            passes_on = True
            continue
        other.append(_src(st))
    if not passes_on:
        other.append("<the entries are not passed to super().__init__(**kwargs)>")
    return public_only, by_ref, weak, other


# -------------------------------------------------------------------------------------------------
# writes of the solve procedure
# -------------------------------------------------------------------------------------------------
SOLVE_FUNCS = [
    ("unit/unit.py", "Unit", ["solve", "init_solve", "_solve_subunits", "get_root_hook_results"]),
    ("hooks.py", "HookHost", ["evaluate_and_set_hooks", "reevaluate_cache", "root_hook_fallback"]),
    ("hooks.py", "Hook", ["__get__", "__set__", "get_result"]),
    ("hooks.py", "HookFunction", ["__call__"]),
    ("unit/unit.py", "Unit.OutProfile", ["root_hook_fallback"]),
    ("disk_elements/disk_element_unit.py", "DiskElementUnit", ["init_solve"]),
    ("roll_pass/base.py", "BaseRollPass", ["init_solve", "reevaluate_cache"]),
    ("roll_pass/symmetric_roll_pass.py", "SymmetricRollPass", ["get_root_hook_results", "reevaluate_cache"]),
    ("roll_pass/two_roll_pass.py", "TwoRollPass", ["get_root_hook_results"]),
    ("roll_pass/three_roll_pass.py", "ThreeRollPass", ["get_root_hook_results", "reevaluate_cache"]),
    ("roll/roll.py", "Roll", ["reevaluate_cache"]),
    ("roll_pass/base.py", "", ["rotator_factory"]),          # module level: the pre-processor factory of a roll pass
]


def writes_of(fn, qual):
    out = []

    def recv(n):
        p = _path(n)
        return p if p is not None else _src(n)

    def target(t, how):
        if isinstance(t, ast.Attribute):
            out.append((qual, recv(t.value), how + "." + t.attr))
        elif isinstance(t, ast.Subscript):
            out.append((qual, recv(t.value), how + "[]"))
        elif isinstance(t, (ast.Tuple, ast.List)):
            for e in t.elts:
                target(e, how)

    for n in ast.walk(fn):
        if isinstance(n, ast.Assign):
            for t in n.targets:
                target(t, "set")
        elif isinstance(n, ast.AnnAssign) and n.value is not None:
            target(n.target, "set")
        elif isinstance(n, ast.AugAssign):
            if isinstance(n.target, ast.Name):
                out.append((qual, n.target.id, "aug"))
            else:
                target(n.target, "aug")
        elif isinstance(n, ast.Delete):
            for t in n.targets:
                target(t, "del")
        elif isinstance(n, ast.Call):
            f = n.func
            if isinstance(f, ast.Name) and f.id in ("setattr", "delattr") and n.args:
                out.append((qual, recv(n.args[0]), f.id))
            elif isinstance(f, ast.Attribute) and f.attr in MUTATORS:
                out.append((qual, recv(f.value), "call." + f.attr))
    return out


def solve_writes(repo):
    res = []
    missing = []
    for rel, cls, fns in SOLVE_FUNCS:
        try:
            node = _find_class(_parse(repo, rel), cls) if cls else _parse(repo, rel)
        except Gap:
            missing.append(cls)
            continue
        for name in fns:
            fn = _find_func(node, name)
            if fn is None:
                if not cls:
                    missing.append(name)
                continue                  # not overridden in this class
            res.extend(writes_of(fn, f"{cls}.{name}" if cls else name))
    if missing:
        raise Gap("classes not found: " + ", ".join(missing))
    return res


def stores(repo):
    """what `init_solve` / `SymmetricRollPass.__init__` store and what `Unit.solve` returns"""
    unit = _find_class(_parse(repo, "unit/unit.py"), "Unit")
    init = _find_func(unit, "init_solve")
    res = []
    for n in ast.walk(init):
        if isinstance(n, ast.Assign) and len(n.targets) == 1 and isinstance(n.targets[0], ast.Attribute) \
                and _src(n.targets[0].value) == "self" and n.targets[0].attr in ("in_profile", "out_profile"):
            res.append(("Unit.init_solve", n.targets[0].attr, _src(n.value)))
    sym = _find_func(_find_class(_parse(repo, "roll_pass/symmetric_roll_pass.py"), "SymmetricRollPass"), "__init__")
    for n in ast.walk(sym):
        if isinstance(n, ast.Assign) and len(n.targets) == 1 and _src(n.targets[0]) == "self.roll":
            res.append(("SymmetricRollPass.__init__", "roll", _src(n.value)))
    subs = _find_func(unit, "_solve_subunits")
    for n in ast.walk(subs):
        if isinstance(n, ast.Assign) and len(n.targets) == 1 and isinstance(n.targets[0], ast.Name) \
                and n.targets[0].id == "last_profile":
            res.append(("Unit._solve_subunits", "last_profile", _src(n.value)))
    solve = _find_func(unit, "solve")
    rets = [n for n in ast.walk(solve) if isinstance(n, ast.Return)]
    if len(rets) != 1 or not isinstance(rets[0].value, ast.Name):
        ret = "other: " + "; ".join(_src(r) for r in rets)
    else:
        name = rets[0].value.id
        binds = [_src(n.value) for n in ast.walk(solve)
                 if isinstance(n, ast.Assign) and len(n.targets) == 1 and _src(n.targets[0]) == name]
        ret = " <- ".join(binds) if binds else "other: unbound " + name
    res.append(("Unit.solve", "return", ret))
    return res


# -------------------------------------------------------------------------------------------------
# the form of init_solve: what happens to an out-profile that a previous solve left
# -------------------------------------------------------------------------------------------------
_REUSE_THEN = "self.out_profile = self.OutProfile(self, in_profile)"
_REUSE_ELSE = """
roots = {h.name for h in root_hooks if isinstance(self.out_profile, h.owner)}
handed_over = {k: v for k, v in in_profile.__dict__.items() if not k.startswith('_')}
outdated = [k for k in self.out_profile.__dict__ if not k.startswith('_') and k not in roots and k not in handed_over]
for k in outdated:
    delattr(self.out_profile, k)
for k, v in handed_over.items():
    if k not in roots or k not in self.out_profile.__dict__:
        setattr(self.out_profile, k, v)
"""


class _Alpha(ast.NodeTransformer):
    """rename the names BOUND inside the statements (assignment / loop / comprehension targets) to v0, v1, … in order
    of first binding; free names (`self`, `in_profile`, `root_hooks`, builtins) stay"""

    def __init__(self, stmts):
        self.map = {}
        for st in stmts:
            for n in ast.walk(st):
                if isinstance(n, ast.Name) and isinstance(n.ctx, ast.Store) and n.id not in self.map:
                    self.map[n.id] = f"v{len(self.map)}"

    def visit_Name(self, n):
        return ast.copy_location(ast.Name(id=self.map.get(n.id, n.id), ctx=n.ctx), n)


def _canon(stmts):
    stmts = [st for st in stmts
             if not (isinstance(st, ast.Expr) and isinstance(st.value, ast.Constant) and isinstance(st.value.value, str))]
    a = _Alpha(stmts)
    return [ast.dump(a.visit(copy.deepcopy(st)), annotate_fields=True, include_attributes=False) for st in stmts]


def reuse_form(repo):
    """`.keep` / `.handOver` (see the module docstring); any other shape of the statement is a Gap"""
    unit = _find_class(_parse(repo, "unit/unit.py"), "Unit")
    init = _find_func(unit, "init_solve")
    if init is None:
        raise Gap("Unit.init_solve not found")
    ifs = [n for n in ast.walk(init) if isinstance(n, ast.If) and _src(n.test) == "not self.out_profile"]
    if len(ifs) != 1 or ifs[0] not in init.body:
        raise Gap("Unit.init_solve: expected exactly one top-level `if not self.out_profile:`")
    node = ifs[0]
    if init.body.index(node) != len(init.body) - 1:
        raise Gap("Unit.init_solve: statements after `if not self.out_profile:` "
                  + "; ".join(_src(st)[:60] for st in init.body[init.body.index(node) + 1:]))
    if _canon(node.body) != _canon(ast.parse(_REUSE_THEN).body):
        raise Gap("Unit.init_solve: the out-profile is not created by `" + _REUSE_THEN + "`")
    if not node.orelse:
        return ".keep"
    if _canon(node.orelse) == _canon(ast.parse(_REUSE_ELSE).body):
        return ".handOver"
    raise Gap("Unit.init_solve: `else:` branch of `if not self.out_profile:` of an unknown form: "
              + " / ".join(_src(st).replace("\n", " ")[:80] for st in node.orelse))


# -------------------------------------------------------------------------------------------------
# who binds a hook value cache
# -------------------------------------------------------------------------------------------------
def cache_bindings(repo):
    """every place in pyroll/core where the attribute `__cache__` of an object is BOUND (assignment, annotated /
    augmented assignment, `setattr(x, '__cache__', ..)`, `x.__dict__['__cache__'] = ..`, `del`): (file:function,
    receiver, bound expression).  The model gives every hook host a cache of its own, created empty with the object
    and never re-bound; an object adopting another object's cache (`self.__cache__ = template.__cache__`) shows up here"""
    base = os.path.join(repo, "pyroll", "core")
    res = []
    for root, dirs, files in os.walk(base):
        dirs.sort()
        for fn in sorted(files):
            if not fn.endswith(".py"):
                continue
            path = os.path.join(root, fn)
            rel = os.path.relpath(path, base)
            with open(path) as f:
                tree = ast.parse(f.read(), filename=path)

            def is_cache(t):
                if isinstance(t, ast.Attribute) and t.attr == "__cache__":
                    return _src(t.value)
                if isinstance(t, ast.Subscript) and isinstance(t.slice, ast.Constant) and t.slice.value == "__cache__":
                    return _src(t.value)                 # x.__dict__['__cache__'], vars(x)['__cache__'], d['__cache__']
                return None

            def visit(node, qual):
                for ch in ast.iter_child_nodes(node):
                    q = qual
                    if isinstance(ch, (ast.ClassDef, ast.FunctionDef, ast.AsyncFunctionDef)):
                        q = (qual + "." if qual else "") + ch.name
                    targets, value = [], None
                    if isinstance(ch, ast.Assign):
                        targets, value = list(ch.targets), _src(ch.value)
                    elif isinstance(ch, ast.AnnAssign) and ch.value is not None:
                        targets, value = [ch.target], _src(ch.value)
                    elif isinstance(ch, ast.AugAssign):
                        targets, value = [ch.target], "aug " + _src(ch.value)
                    elif isinstance(ch, ast.Delete):
                        targets, value = list(ch.targets), "del"
                    elif isinstance(ch, ast.Call) and isinstance(ch.func, ast.Name) and ch.func.id in ("setattr", "delattr") \
                            and len(ch.args) >= 2 and isinstance(ch.args[1], ast.Constant) and ch.args[1].value == "__cache__":
                        res.append((f"{rel}:{qual}", _src(ch.args[0]), _src(ch.args[2]) if len(ch.args) > 2 else "del"))
                    flat = []
                    for t in targets:
                        flat.extend(t.elts if isinstance(t, (ast.Tuple, ast.List)) else [t])
                    for t in flat:
                        r = is_cache(t)
                        if r is not None:
                            res.append((f"{rel}:{qual}", r, value))
                    visit(ch, q)
            visit(tree, "")
    return res


# -------------------------------------------------------------------------------------------------
# the velocity solvers of a pass sequence (solve entry points that take the caller's profile)
# -------------------------------------------------------------------------------------------------
VEL_FUNCS = ["solve_velocities_forward", "solve_velocities_backward"]
_NEW_ARRAY = "<new array>"
_ARRAY_MAKERS = {"np.asarray", "np.array", "np.zeros_like", "np.zeros", "np.ones_like", "np.empty_like", "numpy.asarray",
                 "numpy.zeros_like"}


def _own_nodes(fn):
    """the nodes of a function body without the bodies of the functions defined inside it"""
    out = []
    work = list(fn.body)
    while work:
        n = work.pop()
        out.append(n)
        for ch in ast.iter_child_nodes(n):
            if isinstance(ch, (ast.FunctionDef, ast.AsyncFunctionDef, ast.Lambda, ast.ClassDef)):
                out.append(ch)
                continue
            work.append(ch)
    return out


def _resolve(n, env):
    """an expression as a receiver text: local names replaced by what they are bound to"""
    p = _path(n)
    if p is None:
        return _src(n)
    root, _, rest = p.partition(".")
    if root in env:
        return env[root] + ("." + rest if rest else "")
    return p


def _local_env(fn, env0):
    """names bound in `fn` (not in nested functions): a local bound to a freshly made array -> `<new array>`; the
    variables of a `for` loop over (a `zip` of) sequences -> `<sequence>[*]`"""
    env = dict(env0)
    nodes = sorted(_own_nodes(fn), key=lambda n: (getattr(n, "lineno", 0), getattr(n, "col_offset", 0)))
    assigned = {}
    for n in nodes:
        if isinstance(n, ast.Assign):
            for t in n.targets:
                if isinstance(t, ast.Name):
                    assigned.setdefault(t.id, []).append(n.value)
    for _ in range(3):
        for name, values in assigned.items():
            def fresh(v):
                if not isinstance(v, ast.Call):
                    return False
                if _src(v.func) in _ARRAY_MAKERS:
                    return True
                return isinstance(v.func, ast.Attribute) and v.func.attr == "copy" and not v.args \
                    and env.get(_src(v.func.value)) == _NEW_ARRAY
            if all(fresh(v) for v in values):        # EVERY binding of the name makes a new array
                env[name] = _NEW_ARRAY
    for n in nodes:
        if isinstance(n, ast.For):
            it = n.iter
            if isinstance(it, ast.Call) and _src(it.func) == "zip" and isinstance(n.target, ast.Tuple) \
                    and len(n.target.elts) == len(it.args):
                for t, a in zip(n.target.elts, it.args):
                    if isinstance(t, ast.Name):
                        r = _resolve(a, env)
                        env[t.id] = r if r == _NEW_ARRAY else r + "[*]"
            elif isinstance(n.target, ast.Name) and not (isinstance(it, ast.Call) and _src(it.func) in ("range", "enumerate")):
                r = _resolve(it, env)
                env[n.target.id] = r if r == _NEW_ARRAY else r + "[*]"
    return env


def _writes_resolved(fn, qual, env):
    out = []
    for q, r, how in writes_of(fn, qual):
        root, _, rest = r.partition(".")
        if root in env:
            r = env[root] + ("." + rest if rest else "")
        out.append((q, r, how))
    return out


def velocity_effects(repo):
    """`PassSequence.solve_velocities_forward` / `solve_velocities_backward`:
      * every write (as for the solve procedure), the receiver resolved through the local bindings: a parameter of a
        nested helper -> the argument of its call sites, a loop variable -> `<sequence>[*]`, a local array made by
        numpy -> `<new array>`;
      * every use of the parameter `in_profile`: `arg:<call>` (handed to a call as it is), `read:<attribute chain>`,
        `other:<statement>`"""
    cls = _find_class(_parse(repo, "sequence/sequence.py"), "PassSequence")
    writes, uses = [], []
    for name in VEL_FUNCS:
        fn = _find_func(cls, name)
        if fn is None:
            raise Gap(f"PassSequence.{name} not found")
        qual = f"PassSequence.{name}"
        env = _local_env(fn, {})
        own = _own_nodes(fn)
        nested = [n for n in own if isinstance(n, ast.FunctionDef)]
        # writes of the function's own statements
        shell = copy.deepcopy(fn)

        class _Strip(ast.NodeTransformer):
            def visit_FunctionDef(self, node):
                if node is shell:
                    self.generic_visit(node)
                    return node
                return None
        _Strip().visit(shell)
        ast.fix_missing_locations(shell)
        writes.extend(_writes_resolved(shell, qual, env))
        # writes of the helpers defined inside, their parameters resolved through the call sites
        for h in nested:
            params = [a.arg for a in h.args.args]
            bound = {p: set() for p in params}
            for n in own:
                if isinstance(n, ast.Call) and isinstance(n.func, ast.Name) and n.func.id == h.name:
                    for p_, a in zip(params, n.args):
                        bound[p_].add(_resolve(a, env))
                    for k in n.keywords:
                        if k.arg in bound:
                            bound[k.arg].add(_resolve(k.value, env))
            henv = dict(env)
            for p_ in params:
                if len(bound[p_]) == 1:
                    henv[p_] = next(iter(bound[p_]))
                elif bound[p_]:
                    henv[p_] = "|".join(sorted(bound[p_]))
                else:
                    henv.pop(p_, None)
            henv = _local_env(h, henv)
            writes.extend(_writes_resolved(h, f"{qual}.{h.name}", henv))
        # uses of the caller's profile
        parent = {}
        for n in ast.walk(fn):
            for ch in ast.iter_child_nodes(n):
                parent[ch] = n
        occ = [n for n in ast.walk(fn) if isinstance(n, ast.Name) and n.id == "in_profile"]
        occ.sort(key=lambda n: (n.lineno, n.col_offset))
        for n in occ:
            par = parent.get(n)
            if isinstance(par, ast.Call) and (n in par.args or any(k.value is n for k in par.keywords)):
                uses.append((qual, "arg:" + _src(par)))
            elif isinstance(par, ast.Attribute) and isinstance(n.ctx, ast.Load):
                top = par
                while isinstance(parent.get(top), ast.Attribute) and parent[top].value is top:
                    top = parent[top]
                kind = "read:" if isinstance(top.ctx, ast.Load) else "write:"
                if isinstance(parent.get(top), ast.Call) and parent[top].func is top:
                    kind = "call:"
                uses.append((qual, kind + _src(top)))
            else:
                st = par
                while st is not None and not isinstance(st, ast.stmt):
                    st = parent.get(st)
                uses.append((qual, "other:" + (_src(st) if st is not None else _src(n)).split("\n")[0][:80]))
    rp = _find_func(cls, "roll_passes")
    rets = [n for n in ast.walk(rp) if isinstance(n, ast.Return)] if rp is not None else []
    targets = _src(rets[0].value) if len(rets) == 1 and rets[0].value is not None else "other"
    return writes, uses, targets


def profile_entry_points(repo):
    """every function / method in pyroll/core that has a parameter named `in_profile` (what a caller's profile can be
    handed to): `file:Class.method`"""
    base = os.path.join(repo, "pyroll", "core")
    res = []
    for root, dirs, files in os.walk(base):
        dirs.sort()
        for fn in sorted(files):
            if not fn.endswith(".py"):
                continue
            path = os.path.join(root, fn)
            with open(path) as f:
                tree = ast.parse(f.read(), filename=path)

            def visit(node, qual):
                for ch in ast.iter_child_nodes(node):
                    if isinstance(ch, ast.ClassDef):
                        visit(ch, (qual + "." if qual else "") + ch.name)
                    elif isinstance(ch, (ast.FunctionDef, ast.AsyncFunctionDef)):
                        a = ch.args
                        names = [x.arg for x in a.posonlyargs + a.args + a.kwonlyargs]
                        if "in_profile" in names:
                            res.append(f"{os.path.relpath(path, base)}:{(qual + '.' if qual else '')}{ch.name}")
                        visit(ch, (qual + "." if qual else "") + ch.name)
                    else:
                        visit(ch, qual)
            visit(tree, "")
    return res


# -------------------------------------------------------------------------------------------------
# the deep copy protocol
# -------------------------------------------------------------------------------------------------
def _guarded(stmts, conds, out):
    for st in stmts:
        if isinstance(st, ast.Expr) and isinstance(st.value, ast.Constant) and isinstance(st.value.value, str):
            continue
        if isinstance(st, ast.If):
            _guarded(st.body, conds + [_src(st.test)], out)
            _guarded(st.orelse, conds + [f"not ({_src(st.test)})"], out)
        elif isinstance(st, ast.For):
            _guarded(st.body, conds + [f"for {_src(st.target)} in {_src(st.iter)}"], out)
            if st.orelse:
                out.append((" & ".join(conds), "for-else: " + "; ".join(_src(x) for x in st.orelse)))
        elif isinstance(st, (ast.While, ast.Try, ast.With, ast.Match)):
            out.append((" & ".join(conds), "<" + type(st).__name__ + "> " + _src(st).split("\n")[0][:80]))
        else:
            out.append((" & ".join(conds), _src(st)))


def deepcopy_forms(repo):
    """the two `__deepcopy__` methods of the package as flat lists of (path condition, statement), and every place in
    pyroll/core that defines a method of the copy / pickle protocol"""
    host = _find_func(_find_class(_parse(repo, "hooks.py"), "HookHost"), "__deepcopy__")
    lst = _find_func(_find_class(_parse(repo, "unit/unit.py"), "Unit._SubUnitsList"), "__deepcopy__")
    if host is None or lst is None:
        raise Gap("HookHost.__deepcopy__ / Unit._SubUnitsList.__deepcopy__ not found")
    a, b = [], []
    _guarded(host.body, [], a)
    _guarded(lst.body, [], b)
    base = os.path.join(repo, "pyroll", "core")
    defs = []
    proto = {"__deepcopy__", "__reduce__", "__reduce_ex__", "__getstate__", "__setstate__", "__getnewargs__",
             "__getnewargs_ex__", "__copy__"}
    for root, dirs, files in os.walk(base):
        dirs.sort()
        for fn in sorted(files):
            if not fn.endswith(".py"):
                continue
            path = os.path.join(root, fn)
            with open(path) as f:
                tree = ast.parse(f.read(), filename=path)

            def visit(node, qual):
                for ch in ast.iter_child_nodes(node):
                    if isinstance(ch, ast.ClassDef):
                        visit(ch, (qual + "." if qual else "") + ch.name)
                    elif isinstance(ch, (ast.FunctionDef, ast.AsyncFunctionDef)):
                        if ch.name in proto:
                            defs.append(f"{os.path.relpath(path, base)}:{qual}.{ch.name}")
                        visit(ch, (qual + "." if qual else "") + ch.name)
                    elif isinstance(ch, ast.Assign) and any(isinstance(t, ast.Name) and t.id in proto for t in ch.targets):
                        defs.append(f"{os.path.relpath(path, base)}:{qual}.{_src(ch)[:60]}")
                    else:
                        visit(ch, qual)
            visit(tree, "")
    return a, b, defs


# -------------------------------------------------------------------------------------------------
# the construction of a roll pass: what becomes of the roll object handed in
# -------------------------------------------------------------------------------------------------
def _binds_attr(node, attr):
    """(receiver text, bound expression text) when `node` binds the attribute `attr` of some object: assignment
    (plain / annotated / augmented, also as part of a tuple target), `setattr(x, 'attr', v)`, `x.__dict__['attr'] = v`,
    `del x.attr`, `delattr(x, 'attr')`; else None"""
    def hit(t):
        if isinstance(t, ast.Attribute) and t.attr == attr:
            return _src(t.value)
        if isinstance(t, ast.Subscript) and isinstance(t.slice, ast.Constant) and t.slice.value == attr \
                and _src(t.value).endswith("__dict__"):
            return _src(t.value)
        return None
    targets, value = [], None
    if isinstance(node, ast.Assign):
        targets, value = list(node.targets), _src(node.value)
    elif isinstance(node, ast.AnnAssign) and node.value is not None:
        targets, value = [node.target], _src(node.value)
    elif isinstance(node, ast.AugAssign):
        targets, value = [node.target], "aug " + _src(node.value)
    elif isinstance(node, ast.Delete):
        targets, value = list(node.targets), "del"
    elif isinstance(node, ast.Call) and isinstance(node.func, ast.Name) and node.func.id in ("setattr", "delattr") \
            and len(node.args) >= 2 and isinstance(node.args[1], ast.Constant) and node.args[1].value == attr:
        return [(_src(node.args[0]), _src(node.args[2]) if len(node.args) > 2 else "del")]
    flat = []
    for t in targets:
        flat.extend(t.elts if isinstance(t, (ast.Tuple, ast.List)) else [t])
    return [(hit(t), value) for t in flat if hit(t) is not None]


def roll_store_form(repo):
    """`.copy` / `.adopt` (see the module docstring); any other shape of `SymmetricRollPass.__init__` is a Gap"""
    cls = _find_class(_parse(repo, "roll_pass/symmetric_roll_pass.py"), "SymmetricRollPass")
    init = _find_func(cls, "__init__")
    if init is None:
        raise Gap("SymmetricRollPass.__init__ not found")
    params = [a.arg for a in init.args.posonlyargs + init.args.args + init.args.kwonlyargs]
    if len(params) < 2:
        raise Gap("SymmetricRollPass.__init__: no parameter for the roll")
    me, roll = params[0], params[1]
    binds = [(n, b) for n in ast.walk(init) for b in (_binds_attr(n, "roll") or []) if b[0] == me]
    if len(binds) != 1:
        raise Gap(f"SymmetricRollPass.__init__: expected exactly one binding of `{me}.roll`, found "
                  + (" / ".join(f"{r}.roll <- {v}" for _, (r, v) in binds) or "none"))
    node, _ = binds[0]
    if node not in init.body or not isinstance(node, (ast.Assign, ast.AnnAssign)):
        raise Gap(f"SymmetricRollPass.__init__: `{me}.roll` is not bound by one unconditional assignment: "
                  + _src(node).split("\n")[0][:100])
    if any(isinstance(n, ast.Name) and n.id == roll and isinstance(n.ctx, (ast.Store, ast.Del)) for n in ast.walk(init)):
        raise Gap(f"SymmetricRollPass.__init__: the parameter `{roll}` is re-bound")
    for st in init.body[:init.body.index(node)]:
        # what runs before: the docstring and `super().__init__(label, **kwargs)` (the roll is not handed on)
        if isinstance(st, ast.Expr) and isinstance(st.value, ast.Constant):
            continue
        if isinstance(st, ast.Expr) and isinstance(st.value, ast.Call) and _src(st.value.func) == "super().__init__" \
                and not any(isinstance(n, ast.Name) and n.id == roll for n in ast.walk(st)):
            continue
        raise Gap(f"SymmetricRollPass.__init__: statement before the binding of `{me}.roll`: " + _src(st)[:80])
    v = node.value
    if isinstance(v, ast.Call) and _src(v.func) == f"{me}.Roll" and not v.keywords and len(v.args) == 2 \
            and all(isinstance(a, ast.Name) for a in v.args) and [a.id for a in v.args] == [roll, me]:
        return ".copy"
    if isinstance(v, ast.Name) and v.id == roll:
        return ".adopt"
    raise Gap(f"SymmetricRollPass.__init__: `{me}.roll` is bound to an expression of an unknown form: " + _src(v)[:120])


def roll_bindings(repo):
    """every place in pyroll/core where an attribute `roll` of an object is bound: (file:function, receiver, expression)"""
    base = os.path.join(repo, "pyroll", "core")
    res = []
    for root, dirs, files in os.walk(base):
        dirs.sort()
        for fn in sorted(files):
            if not fn.endswith(".py"):
                continue
            path = os.path.join(root, fn)
            rel = os.path.relpath(path, base)
            with open(path) as f:
                tree = ast.parse(f.read(), filename=path)

            def visit(node, qual):
                for ch in ast.iter_child_nodes(node):
                    q = qual
                    if isinstance(ch, (ast.ClassDef, ast.FunctionDef, ast.AsyncFunctionDef)):
                        q = (qual + "." if qual else "") + ch.name
                    for r, v in (_binds_attr(ch, "roll") or []):
                        res.append((f"{rel}:{qual}", r, v))
                    visit(ch, q)
            visit(tree, "")
    return res


def roll_param_uses(repo):
    """every statement of a constructor (`__init__` / `__new__`) in pyroll/core/roll_pass/ that uses a parameter named
    `roll` (where the object handed in goes), and every constructor of a class `…Roll` there: (file:Class.method, statement
    or `<defined>`)"""
    base = os.path.join(repo, "pyroll", "core", "roll_pass")
    res = []
    for fn in sorted(os.listdir(base)):
        if not fn.endswith(".py"):
            continue
        path = os.path.join(base, fn)
        with open(path) as f:
            tree = ast.parse(f.read(), filename=path)

        def visit(node, qual):
            for ch in ast.iter_child_nodes(node):
                if isinstance(ch, ast.ClassDef):
                    visit(ch, (qual + "." if qual else "") + ch.name)
                elif isinstance(ch, (ast.FunctionDef, ast.AsyncFunctionDef)) and ch.name in ("__init__", "__new__"):
                    a = ch.args
                    names = [x.arg for x in a.posonlyargs + a.args + a.kwonlyargs]
                    where = f"{fn}:{qual}.{ch.name}"
                    if qual.split(".")[-1].endswith("Roll"):
                        res.append((where, "<defined>"))
                    if "roll" in names:
                        for st in ch.body:
                            if any(isinstance(n, ast.Name) and n.id == "roll" for n in ast.walk(st)):
                                res.append((where, _src(st).replace("\n", " ")[:160]))
        visit(tree, "")
    return res


# -------------------------------------------------------------------------------------------------
# in-place operations in hook functions (values are handed along the line by reference; numbers can be mutable: ndarray)
# -------------------------------------------------------------------------------------------------
_HOOK_DECO = re.compile(r"^[A-Z]\w*(\.\w+)+(\(.*\))?$", re.S)
_FRESH_CALLS = {"set", "list", "dict", "frozenset", "tuple", "sorted", "bytearray", "float", "int", "complex",
                "np.array", "np.zeros", "np.ones", "np.empty", "np.full", "np.zeros_like", "np.ones_like", "np.empty_like",
                "np.full_like", "np.copy", "np.linspace", "np.arange", "np.concatenate", "np.stack", "np.hstack", "np.vstack",
                "numpy.array", "numpy.zeros", "numpy.ones", "numpy.copy", "copy.copy", "copy.deepcopy"}
_INPLACE_CALLS = MUTATORS | {"sort", "reverse", "fill", "resize", "put", "itemset", "setdefault", "partition", "setfield",
                             "__setitem__", "__iadd__", "__isub__", "__imul__", "__itruediv__", "__ior__", "__iand__"}


def _fresh(e):
    """does the expression build a NEW object (or an immutable constant) on every evaluation?  Arithmetic (`a + b`,
    `-a`, `a | b`), comparisons, literals, comprehensions, f-strings, calls of the whitelisted makers and `.copy()`; NOT a
    name, an attribute chain, a subscript, `a or b`, `a if c else b` of non-fresh parts, `np.asarray(x)` (returns `x`
    itself when it already is an array)"""
    if isinstance(e, (ast.Constant, ast.List, ast.Set, ast.Dict, ast.ListComp, ast.SetComp, ast.DictComp, ast.JoinedStr,
                      ast.BinOp, ast.UnaryOp, ast.Compare)):
        return True
    if isinstance(e, ast.Tuple):
        return all(_fresh(x) for x in e.elts)
    if isinstance(e, ast.IfExp):
        return _fresh(e.body) and _fresh(e.orelse)
    if isinstance(e, ast.BoolOp):
        return all(_fresh(x) for x in e.values)
    if isinstance(e, ast.Call):
        if _src(e.func) in _FRESH_CALLS:
            return True
        if isinstance(e.func, ast.Attribute) and e.func.attr == "copy" and not e.args:
            return True
    return False


def _is_hook_function(fn):
    for d in fn.decorator_list:
        t = _src(d)
        if _HOOK_DECO.match(t) and not t.endswith((".setter", ".getter", ".deleter")):
            return t
    return None


def hook_inplace(repo):
    """every IN-PLACE operation in a hook function of pyroll/core (a module level function decorated with
    `@<Class>.<…>.<hook>`): augmented assignment of any operator, a mutating method call, an assignment to a subscript /
    attribute of something, `out=` of a call.  Returns (number of hook functions, foreign, own): `own` = (file:function,
    statement) whose receiver is a LOCAL name bound in that function only to objects the function builds itself (`_fresh`:
    `length = 0; length += x`, `acc = []; acc.append(x)`, `t = a | b; t.add(x)`); `foreign` = (file:function, receiver
    [= what it is bound to], statement) for every other one: the receiver is a parameter, an attribute chain, or a local
    that is (on some path) bound to a value the function merely received (`strain = self.roll_pass.in_profile.strain;
    strain += …` changes the in-profile's value - which is the caller's - when it is a mutable number).  The model has hook
    results as new values or handed-on references and numbers as atoms; that rests on `foreign = []`"""
    base = os.path.join(repo, "pyroll", "core")
    n_funcs, foreign, own = 0, [], []
    for root, dirs, files in os.walk(base):
        dirs.sort()
        for f in sorted(files):
            if not f.endswith(".py"):
                continue
            path = os.path.join(root, f)
            rel = os.path.relpath(path, base)
            with open(path) as fh:
                tree = ast.parse(fh.read(), filename=path)
            for fn in tree.body:
                if not isinstance(fn, ast.FunctionDef) or _is_hook_function(fn) is None:
                    continue
                n_funcs += 1
                params = {a.arg for a in fn.args.args + fn.args.kwonlyargs + fn.args.posonlyargs}
                if fn.args.vararg:
                    params.add(fn.args.vararg.arg)
                if fn.args.kwarg:
                    params.add(fn.args.kwarg.arg)
                binds = {}                       # local name -> [bound expression or None (loop / with / unpacking target)]

                def bind(t, v):
                    if isinstance(t, ast.Name):
                        binds.setdefault(t.id, []).append(v)
                    elif isinstance(t, (ast.Tuple, ast.List)):
                        for x in t.elts:
                            bind(x, None)
                    elif isinstance(t, ast.Starred):
                        bind(t.value, None)
                for n in ast.walk(fn):
                    if isinstance(n, ast.Assign):
                        for t in n.targets:
                            bind(t, n.value)
                    elif isinstance(n, ast.AnnAssign) and n.value is not None:
                        bind(n.target, n.value)
                    elif isinstance(n, ast.NamedExpr):
                        bind(n.target, n.value)
                    elif isinstance(n, (ast.For, ast.AsyncFor)):
                        bind(n.target, None)
                    elif isinstance(n, ast.comprehension):
                        bind(n.target, None)
                    elif isinstance(n, (ast.With, ast.AsyncWith)):
                        for it in n.items:
                            if it.optional_vars is not None:
                                bind(it.optional_vars, None)
                    elif isinstance(n, ast.ExceptHandler) and n.name:
                        binds.setdefault(n.name, []).append(None)

                def base_name(t):
                    while isinstance(t, (ast.Attribute, ast.Subscript, ast.Starred)):
                        t = t.value
                    return t

                def record(recv, st):
                    b = base_name(recv)
                    where = f"{rel}:{fn.name}"
                    if isinstance(recv, ast.Name) and recv.id not in params and recv.id in binds \
                            and all(v is not None and _fresh(v) for v in binds[recv.id]):
                        own.append((where, _src(st)[:120]))
                    elif isinstance(recv, (ast.Subscript,)) and isinstance(b, ast.Name) and b.id not in params \
                            and b.id in binds and isinstance(recv.value, ast.Name) \
                            and all(v is not None and _fresh(v) for v in binds[b.id]):
                        own.append((where, _src(st)[:120]))          # `acc[i] = …` / `acc[i] += …` on an own container
                    else:
                        what = _src(recv)
                        if isinstance(recv, ast.Name) and recv.id in binds:
                            what += " = " + " | ".join(sorted({_src(v) if v is not None else "<unpacked>"
                                                               for v in binds[recv.id]}))[:160]
                        foreign.append((where, what, _src(st)[:120]))
                for n in ast.walk(fn):
                    if isinstance(n, ast.AugAssign):
                        record(n.target, n)
                    elif isinstance(n, (ast.Assign, ast.AnnAssign)):
                        ts = n.targets if isinstance(n, ast.Assign) else [n.target]
                        flat = []
                        for t in ts:
                            flat.extend(t.elts if isinstance(t, (ast.Tuple, ast.List)) else [t])
                        for t in flat:
                            if isinstance(t, (ast.Subscript, ast.Attribute)):
                                record(t, n)
                    elif isinstance(n, ast.Delete):
                        for t in n.targets:
                            if isinstance(t, (ast.Subscript, ast.Attribute)):
                                record(t, n)
                    elif isinstance(n, ast.Call):
                        if isinstance(n.func, ast.Attribute) and n.func.attr in _INPLACE_CALLS:
                            record(n.func.value, n)
                        elif isinstance(n.func, ast.Name) and n.func.id in ("setattr", "delattr") and n.args:
                            record(n.args[0], n)
                        for k in n.keywords:
                            if k.arg == "out":
                                record(k.value, n)
    return n_funcs, foreign, own


# -------------------------------------------------------------------------------------------------
def _s(x):
    return '"' + x.replace("\\", "\\\\").replace('"', '\\"') + '"'


def generate(repo):
    atoms = []
    progs = producers(repo, atoms)
    unit = _parse(repo, "unit/unit.py")
    prof_init = _find_func(_find_class(unit, "Unit.Profile"), "__init__")
    roll_init = _find_func(_find_class(_parse(repo, "roll_pass/base.py"), "BaseRollPass.Roll"), "__init__")
    if prof_init is None or roll_init is None:
        raise Gap("Unit.Profile.__init__ / BaseRollPass.Roll.__init__ not found")
    shapes = [("profileInit", copy_shape(prof_init, "profile")), ("rollInit", copy_shape(roll_init, "roll"))]
    writes = solve_writes(repo)
    st = stores(repo)
    cb = cache_bindings(repo)
    reuse = reuse_form(repo)
    vel_writes, vel_uses, vel_targets = velocity_effects(repo)
    dc_host, dc_list, dc_defs = deepcopy_forms(repo)
    entry = profile_entry_points(repo)
    roll_store = roll_store_form(repo)
    roll_binds = roll_bindings(repo)
    roll_uses = roll_param_uses(repo)
    n_hook_fns, inplace_foreign, inplace_own = hook_inplace(repo)

    L = []
    L.append("/- GENERATED by driver/translate/c12_effects.py from pyroll/core (unit/unit.py, hooks.py, roll_pass/*.py,")
    L.append("   rotator/hookimpls.py, profile/profile.py, grooves/generic_elongation.py). Do not edit. -/")
    L.append("import PyrollModel.Heap")
    L.append("")
    L.append("namespace Gen.C12")
    L.append("open Heap")
    L.append("")
    L.append("/-- string literals occurring in the classifier producers (codes used by `.lit` / `.add`) -/")
    L.append("def atomNames : List String := [" + ", ".join(_s(a) for a in atoms) + "]")
    L.append("")
    for name, b in progs:
        L.append(f"/-- foreign values: {', '.join(f'{i} = {p}' for i, p in enumerate(b.paths)) or 'none'}"
                 + (f"; tests: {', '.join(f'{i}: {g}' for i, g in enumerate(b.guards))}" if b.guards else "") + " -/")
        L.append(f"def {name} : Prog :=\n  {b.lean()}")
        L.append("")
    L.append("def producers : List (String × Prog) :=\n  [" + ",\n   ".join(f"({_s(n)}, {n})" for n, _ in progs) + "]")
    L.append("")
    L.append("/-- shape of a shallow copy constructor: only public entries / entries passed by reference / weak back-link /")
    L.append("    every other statement of the constructor -/")
    L.append("structure CopyShape where\n  publicOnly : Bool\n  byReference : Bool\n  weakBackLink : Bool\n"
             "  other : List String\n  deriving DecidableEq, Repr")
    L.append("")
    for name, (po, br, wk, other) in shapes:
        L.append(f"def {name} : CopyShape :=\n  {{ publicOnly := {str(po).lower()}, byReference := {str(br).lower()}, "
                 f"weakBackLink := {str(wk).lower()},\n    other := [" + ", ".join(_s(o) for o in other) + "] }")
        L.append("")
    L.append("/-- every write in the functions that make up `solve`: (function, receiver, kind of write) -/")
    L.append("def solveWrites : List (String × String × String) :=\n  ["
             + ",\n   ".join(f"({_s(a)}, {_s(b)}, {_s(c)})" for a, b, c in writes) + "]")
    L.append("")
    L.append("/-- what is stored / returned: (function, slot, expression) -/")
    L.append("def stores : List (String × String × String) :=\n  ["
             + ",\n   ".join(f"({_s(a)}, {_s(b)}, {_s(c)})" for a, b, c in st) + "]")
    L.append("")
    L.append("/-- every binding of a hook value cache (`x.__cache__ = …`, `setattr`, `__dict__['__cache__']`, `del`) in")
    L.append("    pyroll/core: (file:function, receiver, bound expression) -/")
    L.append("def cacheBindings : List (String × String × String) :=\n  ["
             + ",\n   ".join(f"({_s(a)}, {_s(b)}, {_s(c)})" for a, b, c in cb) + "]")
    L.append("")
    L.append("/-- `Unit.init_solve`, `if not self.out_profile: … [else: …]`: what is done with the out-profile of a previous")
    L.append("    solve (`.keep` = no else branch; `.handOver` = outdated entries deleted, the incoming profile's public")
    L.append("    non-root-hook entries set, missing root-hook entries filled in) -/")
    L.append(f"def outReuse : Reuse := {reuse}")
    L.append("")
    L.append("/-- every write in `PassSequence.solve_velocities_forward` / `solve_velocities_backward` and the helpers defined")
    L.append("    inside them: (function, receiver, kind of write); the receiver is resolved through the local bindings")
    L.append("    (helper parameter -> argument of its call sites, loop variable -> `<sequence>[*]`, numpy-made local -> `<new array>`) -/")
    L.append("def velocityWrites : List (String × String × String) :=\n  ["
             + ",\n   ".join(f"({_s(a)}, {_s(b)}, {_s(c)})" for a, b, c in vel_writes) + "]")
    L.append("")
    L.append("/-- every use of the caller's profile (`in_profile`) in the velocity solvers: `arg:` handed to a call as it is,")
    L.append("    `read:` / `call:` / `write:` an attribute chain, `other:` anything else -/")
    L.append("def velocityUses : List (String × String) :=\n  ["
             + ",\n   ".join(f"({_s(a)}, {_s(b)})" for a, b in vel_uses) + "]")
    L.append("")
    L.append("/-- what `PassSequence.roll_passes` returns (the units whose `velocity` the velocity solvers set) -/")
    L.append(f"def rollPassesProperty : String := {_s(vel_targets)}")
    L.append("")
    L.append("/-- every function of pyroll/core with a parameter `in_profile`: where a caller's profile can be handed in -/")
    L.append("def profileEntryPoints : List String :=\n  [" + ",\n   ".join(_s(d) for d in entry) + "]")
    L.append("")
    L.append("/-- `HookHost.__deepcopy__` as (path condition, statement) -/")
    L.append("def hostDeepcopy : List (String × String) :=\n  ["
             + ",\n   ".join(f"({_s(a)}, {_s(b)})" for a, b in dc_host) + "]")
    L.append("")
    L.append("/-- `Unit._SubUnitsList.__deepcopy__` as (path condition, statement) -/")
    L.append("def listDeepcopy : List (String × String) :=\n  ["
             + ",\n   ".join(f"({_s(a)}, {_s(b)})" for a, b in dc_list) + "]")
    L.append("")
    L.append("/-- every definition of a method of the copy / pickle protocol in pyroll/core -/")
    L.append("def copyProtocolDefs : List String :=\n  [" + ",\n   ".join(_s(d) for d in dc_defs) + "]")
    L.append("")
    L.append("/-- `SymmetricRollPass.__init__`: the form in which `self.roll` is bound (`.copy` = `self.roll = self.Roll(roll, self)`,")
    L.append("    unconditionally, whatever roll object is handed in; `.adopt` = `self.roll = roll`) -/")
    L.append(f"def rollStore : RollStore := {roll_store}")
    L.append("")
    L.append("/-- every binding of an attribute `roll` in pyroll/core: (file:function, receiver, bound expression) -/")
    L.append("def rollBindings : List (String × String × String) :=\n  ["
             + ",\n   ".join(f"({_s(a)}, {_s(b)}, {_s(c)})" for a, b, c in roll_binds) + "]")
    L.append("")
    L.append("/-- every statement of a constructor in pyroll/core/roll_pass/ that uses its parameter `roll`, and every")
    L.append("    constructor defined by a class `…Roll` there: (file:Class.method, statement) -/")
    L.append("def rollParamUses : List (String × String) :=\n  ["
             + ",\n   ".join(f"({_s(a)}, {_s(b)})" for a, b in roll_uses) + "]")
    L.append("")
    L.append("/-- number of hook functions of pyroll/core (module level functions decorated with `@<Class>.….<hook>`) -/")
    L.append(f"def hookFunctions : Nat := {n_hook_fns}")
    L.append("")
    L.append("/-- in-place operations (augmented assignment, mutating call, subscript / attribute assignment, `out=`) in hook")
    L.append("    functions whose receiver is NOT a local bound only to objects the function builds itself: (file:function,")
    L.append("    receiver [= what it is bound to], statement).  Such an operation changes a value the function received -")
    L.append("    values (sets, arrays used as numbers) are handed along the line by reference -/")
    L.append("def hookInplaceForeign : List (String × String × String) :=\n  ["
             + ",\n   ".join(f"({_s(a)}, {_s(b)}, {_s(c)})" for a, b, c in inplace_foreign) + "]")
    L.append("")
    L.append("/-- in-place operations in hook functions on locals the function built itself: (file:function, statement) -/")
    L.append("def hookInplaceOwn : List (String × String) :=\n  ["
             + ",\n   ".join(f"({_s(a)}, {_s(b)})" for a, b in inplace_own) + "]")
    L.append("")
    L.append("end Gen.C12")
    return "\n".join(L) + "\n"


def emit(ctx, repo, lean_dir):
    text = generate(repo)
    write_if_changed(os.path.join(lean_dir, "PyrollModel", "Gen", "C12.lean"), text)
    return text
