"""(T) for C08: the construction of the outgoing cross-section as TERMS over an uninterpreted shapely signature.

A small symbolic executor for the straight-line geometry code of

  * `TwoRollPass.contour_lines`, `ThreeRollPass.contour_lines`            (roll_pass/two_roll_pass.py, three_roll_pass.py)
  * `out_cross_section`, `out_cross_section3`                               (roll_pass/hookimpls/helpers.py)
  * the hook implementations `cross_section`, `cross_section3`              (roll_pass/hookimpls/profile.py)
    and `usable_cross_section`, `usable_cross_section3`, `tip_cross_section*` (…/two_roll_pass.py, three_roll_pass.py)
  * `BaseRollPass.init_solve` (the usable cross-section seed)               (roll_pass/base.py)
  * `Profile.from_groove`, `refine_cross_section`                           (profile/profile.py)

Geometry values become terms (python tuples, emitted as `OutCS.GT`):

    ("src", "rollContour"|"grooveContour")            self.roll.contour_line / groove.contour_line
    ("translate", g, ex, ey)                          shapely.affinity.translate(g, xoff=, yoff=)
    ("rotate", g, e)                                  shapely.affinity.rotate(g, angle=e, origin=(0, 0))
    ("scale", g, ex, ey)                              shapely.affinity.scale(g, xfact=ex, yfact=ey, origin=(0, 0))  (a reflection for -1)
    ("reverse", g)                                    LineString(g.coords[::-1])
    ("concat", a, b)                                  np.concatenate([a.coords, b.coords]) / MultiLineString([a, b]) flattened
    ("polygon", g)                                    Polygon(<coords of g>)
    ("clip", g, b0, b1, b2, b3)                       clip_by_rect(g, xmin, ymin, xmax, ymax); b = ("ninf",)|("pinf",)|("fin", e)
    ("refine", g)                                     refine_cross_section(g)
    ("dedupe", g, e)                                  remove_repeated_points(g, tolerance=e * g.length)  (e: a literal <= 1e-9)
    ("ref", name)                                     a parameter of a generated Lean function (`lines`)
    ("call", helper, lines, e)                        a call of a translated helper (kept as a call in the Lean text)

scalars are `pyexpr` expression tuples; conditions are ("lt", a, b) ("le", a, b) ("not", c) ("and", a, b) ("or", a, b)
("invalid", g).  AST node types are whitelisted; anything else raises `Untranslatable` (recorded by the caller as a tie
break).  Nothing here looks at source TEXT except string constants of `raise` statements.
"""
import ast
import os

from . import pyexpr
from .pyexpr import Untranslatable, ExprTranslator

NINF, PINF = ("ninf",), ("pinf",)


# ---------------------------------------------------------------------------------------------------------------
# helpers on the AST
# ---------------------------------------------------------------------------------------------------------------
def _parse(path):
    return ast.parse(open(path).read())


def _shapely_names(tree):
    """local name -> shapely name, for `from shapely[...] import a [as b]`"""
    names = {}
    for node in tree.body:
        if isinstance(node, ast.ImportFrom) and node.module and node.module.split(".")[0] == "shapely":
            for a in node.names:
                names[a.asname or a.name] = a.name
    return names


def _imported_from(tree, suffix):
    """names imported from a module whose dotted path ends with `suffix` (relative imports included)"""
    out = {}
    for node in tree.body:
        if isinstance(node, ast.ImportFrom) and node.module and node.module.split(".")[-len(suffix.split(".")):] == suffix.split("."):
            for a in node.names:
                out[a.asname or a.name] = a.name
    return out


def _is_inf(n, sign):
    if sign < 0:
        return isinstance(n, ast.UnaryOp) and isinstance(n.op, ast.USub) and _is_inf(n.operand, 1)
    return pyexpr.attr_path(n) in (["math", "inf"], ["np", "inf"], ["numpy", "inf"])


def _is_origin(o):
    return isinstance(o, ast.Tuple) and len(o.elts) == 2 and \
        all(isinstance(e, ast.Constant) and e.value == 0 and not isinstance(e.value, bool) for e in o.elts)


def _find_class(tree, name):
    """top-level class `name`; `Outer.Inner` = class `Inner` in the body of the top-level class `Outer`"""
    body, cls = tree.body, None
    for part in name.split("."):
        cls = next((n for n in body if isinstance(n, ast.ClassDef) and n.name == part), None)
        if cls is None:
            return None
        body = cls.body
    return cls


def _find_func(body, name):
    return next((n for n in body if isinstance(n, ast.FunctionDef) and n.name == name), None)


def _docstring(st):
    return isinstance(st, ast.Expr) and isinstance(st.value, ast.Constant) and isinstance(st.value.value, str)


# ---------------------------------------------------------------------------------------------------------------
# the executor
# ---------------------------------------------------------------------------------------------------------------
class Raised(Exception):
    """the executed path ends in an unconditional `raise`"""
    def __init__(self, exc, msg):
        super().__init__(exc)
        self.exc, self.msg = exc, msg


class Result:
    def __init__(self):
        self.geom = None         # the returned geometry term
        self.meas = []           # [(variable name, term, kind)]  kind = "width"|"height"|("bound", k)|"centroid.x"|"centroid.y"
        self.checks = []         # [(cond, exception name, message)] in source order
        self.scalars = {}        # final scalar environment (locals)
        self.warns = []          # conditions guarding a pure logging call
        self.extra = {}          # e.g. classifiers source
        self.lineno = 0


class Exec:
    """executes one function body; `roots` maps python root names to what attribute paths on them mean:
         roots[name] = ("obj", prefix)    attribute paths become variables prefix + path
                       ("pass",)          the roll pass whose `contour_lines` are the parameter `lines`
       `src_paths` maps full dotted paths to source geometries."""

    def __init__(self, shp, roots, src_paths, helpers=None, refine_names=(), static_none=(), static_given=()):
        self.shp = shp
        self.roots = dict(roots)
        self.src_paths = dict(src_paths)
        self.helpers = helpers or {}          # python name of a helper module attr -> translated helper name
        self.refine_names = set(refine_names)
        self.scal = {}
        self.geo = {}
        self.lists = {}
        self.none = set(static_none)
        self.given = set(static_given)
        self.res = Result()

    # ---- scalars ----------------------------------------------------------------------------------------------
    def _locals(self):
        loc = dict(self.scal)
        for g in self.geo:
            loc[g] = ("var", g)
        for name, r in self.roots.items():
            if r[0] == "obj":
                loc[name] = ("var", r[1][:-1]) if r[1] else None
        return {k: v for k, v in loc.items() if v is not None}

    def scalar(self, n):
        for sub in ast.walk(n):
            if isinstance(sub, ast.Name) and sub.id in self.none:
                raise Untranslatable(f"arithmetic on `{sub.id}`, which is None on this path")
        self_name = next((k for k, r in self.roots.items() if r[0] == "obj" and r[1] == ""), "\0self")
        e = ExprTranslator(self_name, self._locals(), free_names=self.given).tr(n)
        for v in pyexpr.expr_vars(e):
            head = v.split(".")[0]
            if head in self.geo:
                self._measure(v, head)
        return e

    def _measure(self, var, head):
        attr = var[len(head) + 1:]
        if attr in ("width", "height", "centroid.x", "centroid.y"):
            kind = attr
        elif attr.startswith("bounds[") and attr.endswith("]") and attr[7:-1].isdigit() and int(attr[7:-1]) < 4:
            kind = ("bound", int(attr[7:-1]))
        else:
            raise Untranslatable(f"measurement `{var}` of a geometry")
        item = (var, self.geo[head], kind)
        for (v, g, k) in self.res.meas:
            if v == var and (g, k) != (item[1], item[2]):
                raise Untranslatable(f"`{var}` measured on two different geometries")
        if item not in self.res.meas:
            self.res.meas.append(item)

    # ---- conditions -------------------------------------------------------------------------------------------
    def static(self, n):
        """True/False when the test is decided by the None-ness of parameters, else None"""
        if isinstance(n, ast.BoolOp):
            vals = [self.static(v) for v in n.values]
            if any(v is None for v in vals):
                return None
            return all(vals) if isinstance(n.op, ast.And) else any(vals)
        if isinstance(n, ast.UnaryOp) and isinstance(n.op, ast.Not):
            v = self.static(n.operand)
            return None if v is None else not v
        if isinstance(n, ast.Compare) and len(n.ops) == 1 and isinstance(n.ops[0], (ast.Is, ast.IsNot)) \
                and isinstance(n.comparators[0], ast.Constant) and n.comparators[0].value is None \
                and isinstance(n.left, ast.Name):
            if n.left.id in self.none:
                return isinstance(n.ops[0], ast.Is)
            if n.left.id in self.given:
                return isinstance(n.ops[0], ast.IsNot)
        return None

    def cond(self, n):
        if isinstance(n, ast.BoolOp):
            parts = [self.cond(v) for v in n.values]
            op = "and" if isinstance(n.op, ast.And) else "or"
            c = parts[0]
            for p in parts[1:]:
                c = (op, c, p)
            return c
        if isinstance(n, ast.UnaryOp) and isinstance(n.op, ast.Not):
            p = pyexpr.attr_path(n.operand)
            if p is not None and len(p) == 2 and p[0] in self.geo and p[1] == "is_valid":
                return ("invalid", self.geo[p[0]])
            return ("not", self.cond(n.operand))
        if isinstance(n, ast.Compare) and len(n.ops) == 1:
            a, b = self.scalar(n.left), self.scalar(n.comparators[0])
            op = n.ops[0]
            if isinstance(op, ast.Lt):
                return ("lt", a, b)
            if isinstance(op, ast.Gt):
                return ("lt", b, a)
            if isinstance(op, ast.LtE):
                return ("le", a, b)
            if isinstance(op, ast.GtE):
                return ("le", b, a)
        raise Untranslatable("condition " + ast.unparse(n)[:80])

    # ---- geometry ---------------------------------------------------------------------------------------------
    def geom(self, n):
        if isinstance(n, ast.Name):
            if n.id in self.geo:
                return self.geo[n.id]
            raise Untranslatable(f"geometry name {n.id}")
        p = pyexpr.attr_path(n)
        if p is not None and ".".join(p) in self.src_paths:
            return ("src", self.src_paths[".".join(p)])
        if isinstance(n, ast.Call):
            return self.geom_call(n)
        raise Untranslatable("geometry " + ast.unparse(n)[:80])

    def coords(self, n):
        """`g.coords` -> g ; `g.coords[::-1]` -> reverse g"""
        if isinstance(n, ast.Attribute) and n.attr == "coords":
            return self.geom(n.value)
        if isinstance(n, ast.Subscript) and isinstance(n.value, ast.Attribute) and n.value.attr == "coords":
            sl = n.slice
            if isinstance(sl, ast.Slice) and sl.lower is None and sl.upper is None and isinstance(sl.step, ast.UnaryOp) \
                    and isinstance(sl.step.op, ast.USub) and isinstance(sl.step.operand, ast.Constant) \
                    and sl.step.operand.value == 1:
                return ("reverse", self.geom(n.value.value))
        raise Untranslatable("coordinates " + ast.unparse(n)[:80])

    def coord_seq(self, n):
        """np.concatenate([...coords...]) -> term"""
        if isinstance(n, ast.Call) and pyexpr.attr_path(n.func) in (["np", "concatenate"], ["numpy", "concatenate"]) \
                and len(n.args) == 1 and not n.keywords:
            a = n.args[0]
            if isinstance(a, ast.List) and a.elts:
                parts = [self.coords(e) for e in a.elts]
                return _concat(parts)
            if isinstance(a, ast.ListComp) and len(a.generators) == 1 and not a.generators[0].ifs \
                    and isinstance(a.generators[0].target, ast.Name):
                g = a.generators[0]
                elt = a.elt
                if isinstance(elt, ast.Attribute) and elt.attr == "coords" and isinstance(elt.value, ast.Name) \
                        and elt.value.id == g.target.id:
                    return self.line_collection(g.iter)
        return self.coords(n)

    def line_collection(self, n):
        """`<pass>.contour_lines.geoms` -> the parameter `lines`"""
        p = pyexpr.attr_path(n)
        if p is not None and len(p) == 3 and p[1:] == ["contour_lines", "geoms"] and self.roots.get(p[0], (None,))[0] == "pass":
            return ("ref", "lines")
        raise Untranslatable("line collection " + ast.unparse(n)[:80])

    def bound(self, n):
        if _is_inf(n, -1):
            return NINF
        if _is_inf(n, 1):
            return PINF
        return ("fin", self.scalar(n))

    def geom_call(self, call):
        f = call.func
        kw = {k.arg: k.value for k in call.keywords}
        if None in kw:
            raise Untranslatable("** in a geometry call")
        real = self.shp.get(f.id) if isinstance(f, ast.Name) else None
        if real == "translate":
            if len(call.args) != 1 or set(kw) - {"xoff", "yoff"}:
                raise Untranslatable("translate arguments")
            ex = self.scalar(kw["xoff"]) if "xoff" in kw else ("nat", 0)
            ey = self.scalar(kw["yoff"]) if "yoff" in kw else ("nat", 0)
            return ("translate", self.geom(call.args[0]), ex, ey)
        if real == "rotate":
            args = list(call.args)
            if len(args) == 2:
                kw["angle"] = args[1]
            elif len(args) != 1:
                raise Untranslatable("rotate arguments")
            if set(kw) != {"angle", "origin"} or not _is_origin(kw["origin"]):
                raise Untranslatable("rotate needs angle= and origin=(0, 0)")
            return ("rotate", self.geom(args[0]), self.scalar(kw["angle"]))
        if real == "scale":
            # a scaling / reflection about the origin (shapely's default origin is the centre of the bounding box)
            if len(call.args) != 1 or set(kw) - {"xfact", "yfact", "origin"} or "origin" not in kw or not _is_origin(kw["origin"]):
                raise Untranslatable("scale needs xfact= / yfact= and origin=(0, 0)")
            fx = self.scalar(kw["xfact"]) if "xfact" in kw else ("nat", 1)
            fy = self.scalar(kw["yfact"]) if "yfact" in kw else ("nat", 1)
            return ("scale", self.geom(call.args[0]), fx, fy)
        if real == "LineString":
            if len(call.args) == 1 and not kw:
                c = self.coords(call.args[0])
                if c[0] == "reverse":
                    return c
            raise Untranslatable("LineString(...) other than coords[::-1]")
        if real == "Polygon":
            if len(call.args) == 1 and not kw:
                return ("polygon", self.coord_seq(call.args[0]))
            raise Untranslatable("Polygon arguments")
        if real == "clip_by_rect":
            if len(call.args) != 5 or kw:
                raise Untranslatable("clip_by_rect arguments")
            return ("clip", self.geom(call.args[0])) + tuple(self.bound(a) for a in call.args[1:])
        if real == "remove_repeated_points":
            # only the rounding clean-up form: tolerance = <literal <= 1e-9> * <the same geometry>.length
            if len(call.args) != 1 or set(kw) != {"tolerance"} or not isinstance(call.args[0], ast.Name):
                raise Untranslatable("remove_repeated_points arguments")
            tol = kw["tolerance"]
            if not (isinstance(tol, ast.BinOp) and isinstance(tol.op, ast.Mult)):
                raise Untranslatable("remove_repeated_points tolerance is not <literal> * <geometry>.length")
            lit, ln = (tol.left, tol.right) if isinstance(tol.left, ast.Constant) else (tol.right, tol.left)
            if not (isinstance(lit, ast.Constant) and isinstance(lit.value, float) and 0 < lit.value <= 1e-9
                    and pyexpr.attr_path(ln) == [call.args[0].id, "length"]):
                raise Untranslatable("remove_repeated_points tolerance is not <literal <= 1e-9> * <geometry>.length")
            return ("dedupe", self.geom(call.args[0]), ExprTranslator("\0self", {}).tr(lit))
        if isinstance(f, ast.Name) and f.id in self.refine_names:
            if len(call.args) != 1 or kw:
                raise Untranslatable("refine_cross_section arguments")
            return ("refine", self.geom(call.args[0]))
        # helpers.out_cross_section(<pass>, <width>)
        p = pyexpr.attr_path(f)
        if p is not None and len(p) == 2 and p[0] == "helpers" and p[1] in self.helpers:
            if len(call.args) != 2 or kw:
                raise Untranslatable(f"{p[1]} arguments")
            self._pass_ref(call.args[0])
            return ("call", p[1], ("ref", "lines"), self.scalar(call.args[1]))
        raise Untranslatable("geometry call " + ast.unparse(f)[:60])

    def _pass_ref(self, n):
        p = pyexpr.attr_path(n)
        if p is None:
            raise Untranslatable("pass argument " + ast.unparse(n)[:40])
        r = self.roots.get(p[0])
        if r is not None and ((r[0] == "pass" and len(p) == 1) or (r[0] == "obj" and r[1] == "" and len(p) == 1 and r[-1] == "is-pass")
                              or (r[0] == "obj" and p[1:] == ["roll_pass"])):
            return
        raise Untranslatable("pass argument " + ast.unparse(n)[:40])

    def is_geom_expr(self, n):
        if isinstance(n, ast.Name):
            return n.id in self.geo
        if isinstance(n, ast.Call):
            f = n.func
            if isinstance(f, ast.Name) and (self.shp.get(f.id) in ("translate", "rotate", "scale", "LineString", "Polygon", "clip_by_rect",
                                                                    "remove_repeated_points")
                                            or f.id in self.refine_names):
                return True
            p = pyexpr.attr_path(f)
            return p is not None and len(p) == 2 and p[0] == "helpers"
        p = pyexpr.attr_path(n)
        return p is not None and ".".join(p) in self.src_paths

    # ---- statements -------------------------------------------------------------------------------------------
    def run(self, stmts, on_return):
        """returns True when the block certainly ended (return / raise)"""
        for st in stmts:
            if _docstring(st):
                continue
            if isinstance(st, ast.Assign) and len(st.targets) == 1 and isinstance(st.targets[0], ast.Name):
                name = st.targets[0].id
                if self.is_geom_expr(st.value):
                    self.geo[name] = self.geom(st.value)
                    self.scal.pop(name, None)
                else:
                    self.scal[name] = self.scalar(st.value)
                    self.geo.pop(name, None)
                    self.none.discard(name)
                    self.given.discard(name)
                continue
            if isinstance(st, ast.For):
                if not (isinstance(st.target, ast.Name) and not st.orelse and isinstance(st.iter, ast.Call)
                        and isinstance(st.iter.func, ast.Name) and st.iter.func.id == "range" and len(st.iter.args) == 1
                        and isinstance(st.iter.args[0], ast.Constant) and isinstance(st.iter.args[0].value, int)
                        and 0 <= st.iter.args[0].value <= 12):
                    raise Untranslatable("loop other than `for _ in range(<literal>)`")
                if any(isinstance(x, ast.Name) and x.id == st.target.id for b in st.body for x in ast.walk(b)):
                    raise Untranslatable("loop variable used in the body")
                for _ in range(st.iter.args[0].value):
                    if self.run(st.body, on_return):
                        raise Untranslatable("return inside a loop")
                continue
            if isinstance(st, ast.If):
                s = self.static(st.test)
                if s is not None:
                    if self.run(st.body if s else st.orelse, on_return):
                        return True
                    continue
                body = [b for b in st.body if not _docstring(b)]
                if len(body) == 1 and isinstance(body[0], ast.Raise) and not st.orelse:
                    exc, msg = _raise_info(body[0])
                    self.res.checks.append((self.cond(st.test), exc, msg))
                    continue
                if body and all(_is_logging(b) for b in body) and not st.orelse:
                    self.res.warns.append(self.cond(st.test))
                    continue
                raise Untranslatable("if " + ast.unparse(st.test)[:60])
            if isinstance(st, ast.Raise):
                exc, msg = _raise_info(st)
                raise Raised(exc, msg)
            if isinstance(st, ast.Return):
                on_return(self, st.value)
                return True
            raise Untranslatable(f"statement {type(st).__name__}: {ast.unparse(st)[:60]}")
        return False


def _concat(parts):
    t = parts[-1]
    for p in reversed(parts[:-1]):
        t = ("concat", p, t)
    return t


def _raise_info(st):
    e = st.exc
    if isinstance(e, ast.Call) and isinstance(e.func, ast.Name) and len(e.args) <= 1 and not e.keywords:
        msg = ""
        if e.args:
            if not (isinstance(e.args[0], ast.Constant) and isinstance(e.args[0].value, str)):
                raise Untranslatable("raise with a computed message")
            msg = e.args[0].value
        return e.func.id, msg
    raise Untranslatable("raise " + ast.unparse(st)[:60])


def _is_logging(st):
    if isinstance(st, ast.Expr) and isinstance(st.value, ast.Call):
        p = pyexpr.attr_path(st.value.func)
        return p is not None and len(p) >= 3 and p[-2] == "logger" and p[-1] in ("debug", "info", "warning")
    return False


# ---------------------------------------------------------------------------------------------------------------
# the individual artefacts
# ---------------------------------------------------------------------------------------------------------------
def extract_contour_lines(path, class_name):
    """-> ([(python name, term)], lineno): the lines of `MultiLineString([...])` assigned to `self._contour_lines`"""
    tree = _parse(path)
    cls = _find_class(tree, class_name)
    fn = _find_func(cls.body, "contour_lines") if cls is not None else None
    if fn is None:
        raise Untranslatable(f"{class_name}.contour_lines not found")
    if not any(isinstance(d, ast.Name) and d.id == "property" for d in fn.decorator_list):
        raise Untranslatable("contour_lines is not a property")
    shp = _shapely_names(tree)
    self_name = fn.args.args[0].arg
    ex = Exec(shp, {self_name: ("obj", "")}, {f"{self_name}.roll.contour_line": "rollContour"})
    result = []
    body = []
    for st in fn.body:
        # memoisation: `if self._contour_lines: return self._contour_lines`
        if isinstance(st, ast.If) and pyexpr.attr_path(st.test) == [self_name, "_contour_lines"] and not st.orelse \
                and len(st.body) == 1 and isinstance(st.body[0], ast.Return) \
                and pyexpr.attr_path(st.body[0].value) == [self_name, "_contour_lines"]:
            continue
        if isinstance(st, ast.Assign) and len(st.targets) == 1 and pyexpr.attr_path(st.targets[0]) == [self_name, "_contour_lines"]:
            ex.run(body, None)
            body = []
            v = st.value
            if not (isinstance(v, ast.Call) and isinstance(v.func, ast.Name) and shp.get(v.func.id) == "MultiLineString"
                    and len(v.args) == 1 and isinstance(v.args[0], ast.List) and not v.keywords):
                raise Untranslatable("self._contour_lines = " + ast.unparse(v)[:80])
            for e in v.args[0].elts:
                if not (isinstance(e, ast.Name) and e.id in ex.geo):
                    raise Untranslatable("MultiLineString element " + ast.unparse(e))
                result.append((e.id, ex.geo[e.id]))
            continue
        if isinstance(st, ast.Return) and pyexpr.attr_path(st.value) == [self_name, "_contour_lines"] and result:
            return result, fn.lineno
        body.append(st)
    raise Untranslatable("contour_lines does not end in `return self._contour_lines`")


def extract_helper(path, name):
    """helpers.out_cross_section*(rp, width) -> (term over ("ref","lines") and ("ref","width"), lineno, pass class annotation)"""
    tree = _parse(path)
    fn = _find_func(tree.body, name)
    if fn is None:
        raise Untranslatable(f"{name} not found")
    if len(fn.args.args) != 2 or fn.args.defaults or fn.args.kwonlyargs or fn.args.vararg or fn.args.kwarg:
        raise Untranslatable(f"{name}: signature")
    rp, w = fn.args.args[0].arg, fn.args.args[1].arg
    ann = fn.args.args[0].annotation
    ex = Exec(_shapely_names(tree), {rp: ("pass",)}, {}, refine_names=_imported_from(tree, "profile.profile"))
    ex.scal[w] = ("ref", "width")
    out = {}

    def on_return(e, v):
        out["geom"] = e.geom(v)
    if not ex.run(fn.body, on_return):
        raise Untranslatable(f"{name} does not return")
    return out["geom"], fn.lineno, (ann.id if isinstance(ann, ast.Name) else None)


def extract_hook_geom(path, fn_name, helper_names):
    """a hook implementation returning a geometry (cross_section, cross_section3, usable_cross_section, ...):
       -> (HookImpl-like info dict, Result).  Variables: attribute paths of `self`."""
    tree = _parse(path)
    fn = _find_func(tree.body, fn_name)
    if fn is None:
        raise Untranslatable(f"{fn_name} not found")
    info = None
    for dec in fn.decorator_list:
        info = pyexpr._decorator_info(dec)
        if info is not None:
            break
    if info is None:
        raise Untranslatable(f"{fn_name} is not a hook implementation")
    if len(fn.args.args) != 1:
        raise Untranslatable(f"{fn_name}: extra parameters")
    self_name = fn.args.args[0].arg
    host = info[0]
    on_profile = host.endswith(".OutProfile") or host.endswith(".InProfile") or host.endswith(".Profile")
    roots = {self_name: ("obj", "", "is-profile" if on_profile else "is-pass")}
    ex = Exec(_shapely_names(tree), roots, {}, helpers={h: h for h in helper_names})
    out = {}

    def on_return(e, v):
        out["geom"] = e.geom(v)
    if not ex.run(fn.body, on_return):
        raise Untranslatable(f"{fn_name} does not return")
    ex.res.geom = out["geom"]
    ex.res.lineno = fn.lineno
    return {"host": host, "hook": info[1], "tier": info[2], "wrapper": info[3], "fn": fn_name}, ex.res


def _created_flag(st, self_name):
    """`<name> = not self.out_profile` -> name (the out profile does not exist yet: it will be created by `super().init_solve`)"""
    if isinstance(st, ast.Assign) and len(st.targets) == 1 and isinstance(st.targets[0], ast.Name) \
            and isinstance(st.value, ast.UnaryOp) and isinstance(st.value.op, ast.Not) \
            and _is_self_attr(st.value.operand, self_name, "out_profile"):
        return st.targets[0].id
    return None


def _guarded_body(st, flags):
    """`if <flag>: <one statement>` (no else) with <flag> a name assigned by `_created_flag` -> the statement"""
    if isinstance(st, ast.If) and isinstance(st.test, ast.Name) and st.test.id in flags and not st.orelse:
        body = [b for b in st.body if not _docstring(b)]
        if len(body) == 1:
            return body[0]
    return None


def extract_init_solve_seed(path, class_name):
    """`self.out_profile.cross_section = self.usable_cross_section` in `init_solve` -> ([(target path, source path, after
    super call)], lineno, on creation only); on creation only = every seed sits in `if created:` where
    `created = not self.out_profile` was taken BEFORE the super call (the out profile is created by that call)"""
    tree = _parse(path)
    cls = _find_class(tree, class_name)
    fn = _find_func(cls.body, "init_solve") if cls is not None else None
    if fn is None:
        raise Untranslatable(f"{class_name}.init_solve not found")
    self_name = fn.args.args[0].arg
    seeds = []
    guarded = []
    flags = {}
    super_called = False
    for st in fn.body:
        if _docstring(st):
            continue
        flag = _created_flag(st, self_name)
        if flag is not None:
            flags[flag] = super_called             # taken after the super call it is never true
            continue
        inner = _guarded_body(st, flags)
        if inner is not None and isinstance(inner, ast.Assign) and len(inner.targets) == 1:
            t, v = pyexpr.attr_path(inner.targets[0]), pyexpr.attr_path(inner.value)
            if t and v and t[0] == self_name and v[0] == self_name:
                seeds.append((".".join(t[1:]), ".".join(v[1:]), super_called))
                guarded.append(not flags[st.test.id])
                continue
        if isinstance(st, ast.Expr) and isinstance(st.value, ast.Call):
            f = st.value.func
            if isinstance(f, ast.Attribute) and f.attr == "init_solve" and isinstance(f.value, ast.Call) \
                    and isinstance(f.value.func, ast.Name) and f.value.func.id == "super":
                super_called = True
                continue
        if isinstance(st, ast.Assign) and len(st.targets) == 1:
            t, v = pyexpr.attr_path(st.targets[0]), pyexpr.attr_path(st.value)
            if t and v and t[0] == self_name and v[0] == self_name:
                seeds.append((".".join(t[1:]), ".".join(v[1:]), super_called))
                guarded.append(False)
                continue
        raise Untranslatable("statement in init_solve: " + ast.unparse(st)[:80])
    if len(set(guarded)) > 1:
        raise Untranslatable("init_solve: some seeds are guarded by `created`, others are not")
    return seeds, fn.lineno, bool(guarded and guarded[0])


# ---- the memo of the contour lines and its invalidation (-> OutCS.Cache, Gen/C08Cache.lean) ----------------------------
def _is_self_attr(n, self_name, *path):
    return pyexpr.attr_path(n) == [self_name, *path]


def extract_contour_memo(path, class_name, prop="contour_lines", attr="_contour_lines"):
    """shape of the memoising property `prop` (memo attribute `attr`; default: the pass's `contour_lines`; the roll's is
    `contour_line` / `_contour_line`) -> ({"guarded": bool, "stored": bool}, [attribute paths of self it reads], lineno).
    guarded: the FIRST statement is `if self.<attr> [is not None]: return self.<attr>`;
    stored: `self.<attr> = <not None>` occurs and the function ends in `return self.<attr>`"""
    tree = _parse(path)
    cls = _find_class(tree, class_name)
    fn = _find_func(cls.body, prop) if cls is not None else None
    if fn is None:
        raise Untranslatable(f"{class_name}.{prop} not found")
    self_name = fn.args.args[0].arg
    body = [st for st in fn.body if not _docstring(st)]
    guarded = stored = False
    for i, st in enumerate(body):
        if isinstance(st, ast.If):
            t = st.test
            plain = _is_self_attr(t, self_name, attr)
            notnone = isinstance(t, ast.Compare) and len(t.ops) == 1 and isinstance(t.ops[0], ast.IsNot) \
                and _is_self_attr(t.left, self_name, attr) and isinstance(t.comparators[0], ast.Constant) \
                and t.comparators[0].value is None
            if (plain or notnone) and not st.orelse and len(st.body) == 1 and isinstance(st.body[0], ast.Return) \
                    and _is_self_attr(st.body[0].value, self_name, attr):
                if i != 0:
                    raise Untranslatable(f"memo guard of {prop} is not the first statement")
                guarded = True
                continue
            raise Untranslatable(f"if in {prop}: " + ast.unparse(t)[:60])
        if isinstance(st, ast.Assign) and len(st.targets) == 1 and _is_self_attr(st.targets[0], self_name, attr):
            if isinstance(st.value, ast.Constant) and st.value.value is None:
                raise Untranslatable(f"{prop} drops its own memo")
            stored = True
    last = body[-1] if body else None
    if stored and not (isinstance(last, ast.Return) and _is_self_attr(last.value, self_name, attr)):
        raise Untranslatable(f"{prop} does not end in `return self.{attr}`")
    reads = []
    for node in ast.walk(fn):
        pth = pyexpr.attr_path(node) if isinstance(node, ast.Attribute) else None
        if pth and pth[0] == self_name and pth[1] != attr and isinstance(getattr(node, "ctx", None), ast.Load):
            dotted = ".".join(pth[1:])
            if not any(r.startswith(dotted + ".") or r == dotted for r in reads):
                reads = [r for r in reads if not dotted.startswith(r + ".")] + [dotted]
    return {"guarded": guarded, "stored": stored}, sorted(reads), fn.lineno


def defines(path, class_name, member):
    """does the body of (possibly nested) class `class_name` define a function / property `member`"""
    cls = _find_class(_parse(path), class_name)
    if cls is None:
        raise Untranslatable(f"class {class_name} not found in {os.path.basename(path)}")
    return _find_func(cls.body, member) is not None


def extract_hook_reads(path, hook_owner, hook_name):
    """the implementations registered on `<hook_owner>.<hook_name>` in the hookimpls module `path`, each a single
    `return <attribute path of self>` -> [(function name, dotted path, lineno)] in source order (the LAST one of equal
    tier is tried first); anything else is outside the subset"""
    tree = _parse(path)
    out = []
    for node in tree.body:
        if not isinstance(node, ast.FunctionDef):
            continue
        for dec in node.decorator_list:
            info = pyexpr._decorator_info(dec)
            if info is not None and info[0] == hook_owner and info[1] == hook_name:
                body = [st for st in node.body if not _docstring(st)]
                self_name = node.args.args[0].arg if node.args.args else None
                pth = pyexpr.attr_path(body[0].value) if len(body) == 1 and isinstance(body[0], ast.Return) and body[0].value is not None else None
                if info[3] or info[2] != 1 or self_name is None or not pth or pth[0] != self_name or len(pth) < 2:
                    raise Untranslatable(f"{node.name} on {hook_owner}.{hook_name}: not a plain `return self.<path>`")
                out.append((node.name, ".".join(pth[1:]), node.lineno))
    if not out:
        raise Untranslatable(f"no implementation of {hook_owner}.{hook_name} in {os.path.basename(path)}")
    return out


def extract_reevaluate(path, class_name, attr="_contour_lines"):
    """the body of `<class>.reevaluate_cache` as a list of ops, or None when the class does not define the method:
       "super"  super().reevaluate_cache()          "roll"  self.roll.reevaluate_cache()
       "reset"  self.<attr> = None                   "recompute"  HookHost's loop `for n in list(self.__cache__.keys()): ...
                                                                  self.__cache__[n] = hook.get_result(self)`
    (`attr` = the memo attribute of the object: `_contour_lines` on a pass, `_contour_line` on a roll)"""
    tree = _parse(path)
    cls = _find_class(tree, class_name)
    if cls is None:
        raise Untranslatable(f"class {class_name} not found in {os.path.basename(path)}")
    fn = _find_func(cls.body, "reevaluate_cache")
    if fn is None:
        return None
    self_name = fn.args.args[0].arg
    ops = []
    for st in fn.body:
        if _docstring(st):
            continue
        if isinstance(st, ast.Expr) and isinstance(st.value, ast.Call) and not st.value.args and not st.value.keywords:
            f = st.value.func
            if isinstance(f, ast.Attribute) and f.attr == "reevaluate_cache" and isinstance(f.value, ast.Call) \
                    and isinstance(f.value.func, ast.Name) and f.value.func.id == "super" and not f.value.args:
                ops.append("super")
                continue
            if _is_self_attr(f, self_name, "roll", "reevaluate_cache"):
                ops.append("roll")
                continue
        if isinstance(st, ast.Assign) and len(st.targets) == 1 and _is_self_attr(st.targets[0], self_name, attr) \
                and isinstance(st.value, ast.Constant) and st.value.value is None:
            ops.append("reset")
            continue
        if isinstance(st, ast.For) and not st.orelse and isinstance(st.target, ast.Name) and _is_cache_keys(st.iter, self_name) \
                and _recomputes(st.body, self_name, st.target.id):
            ops.append("recompute")
            continue
        raise Untranslatable(f"statement in {class_name}.reevaluate_cache: " + ast.unparse(st)[:70])
    return ops, fn.lineno


def _is_cache_keys(n, self_name):
    """`list(self.__cache__.keys())` / `self.__cache__.keys()` / `self.__cache__`"""
    if isinstance(n, ast.Call) and isinstance(n.func, ast.Name) and n.func.id == "list" and len(n.args) == 1 and not n.keywords:
        n = n.args[0]
    if isinstance(n, ast.Call) and isinstance(n.func, ast.Attribute) and n.func.attr == "keys" and not n.args:
        n = n.func.value
    return _is_self_attr(n, self_name, "__cache__")


def _recomputes(body, self_name, var):
    """`hook = getattr(type(self), n)` then `self.__cache__[n] = hook.get_result(self)`, nothing else"""
    if len(body) != 2:
        return False
    a, b = body
    if not (isinstance(a, ast.Assign) and len(a.targets) == 1 and isinstance(a.targets[0], ast.Name) and isinstance(a.value, ast.Call)
            and isinstance(a.value.func, ast.Name) and a.value.func.id == "getattr" and len(a.value.args) == 2
            and isinstance(a.value.args[1], ast.Name) and a.value.args[1].id == var):
        return False
    hook = a.targets[0].id
    return (isinstance(b, ast.Assign) and len(b.targets) == 1 and isinstance(b.targets[0], ast.Subscript)
            and _is_self_attr(b.targets[0].value, self_name, "__cache__") and isinstance(b.targets[0].slice, ast.Name)
            and b.targets[0].slice.id == var and isinstance(b.value, ast.Call) and isinstance(b.value.func, ast.Attribute)
            and b.value.func.attr == "get_result" and isinstance(b.value.func.value, ast.Name) and b.value.func.value.id == hook
            and len(b.value.args) == 1 and isinstance(b.value.args[0], ast.Name) and b.value.args[0].id == self_name)


LOOP_CALLS = {("in_profile", "reevaluate_cache"): "inReeval", ("_solve_subunits",): "subunits", ("reevaluate_cache",): "selfReeval",
              ("out_profile", "reevaluate_cache"): "outReeval", ("get_root_hook_results",): "rootHooks"}


def extract_solve_loop(path, class_name="Unit"):
    """`Unit.solve`: -> (calls of the loop body in source order, `self.init_solve(in_profile)` comes before the loop, lineno).
    The loop is `for i in range(1, self.max_iteration_count)`; its convergence bookkeeping (`if np.all(...): ... break`,
    `self._old_results = current_results`, logging) carries no op."""
    tree = _parse(path)
    cls = _find_class(tree, class_name)
    fn = _find_func(cls.body, "solve") if cls is not None else None
    if fn is None:
        raise Untranslatable(f"{class_name}.solve not found")
    self_name = fn.args.args[0].arg
    loops = [st for st in fn.body if isinstance(st, ast.For)]
    main = [st for st in loops if isinstance(st.iter, ast.Call) and isinstance(st.iter.func, ast.Name) and st.iter.func.id == "range"
            and any(_is_self_attr(a, self_name, "max_iteration_count") for a in st.iter.args)]
    if len(main) != 1:
        raise Untranslatable("solution loop `for i in range(1, self.max_iteration_count)` not found")
    loop = main[0]
    init_first = False
    for st in fn.body:
        if st is loop:
            break
        if isinstance(st, ast.Expr) and isinstance(st.value, ast.Call) and _is_self_attr(st.value.func, self_name, "init_solve"):
            init_first = True
    steps = []
    for st in loop.body:
        call = None
        if isinstance(st, ast.Expr) and isinstance(st.value, ast.Call):
            call = st.value
        elif isinstance(st, ast.Assign) and len(st.targets) == 1 and isinstance(st.targets[0], ast.Name) and isinstance(st.value, ast.Call):
            call = st.value
        if call is not None:
            pth = pyexpr.attr_path(call.func)
            if pth and pth[0] == self_name and tuple(pth[1:]) in LOOP_CALLS and not call.args and not call.keywords:
                steps.append(LOOP_CALLS[tuple(pth[1:])])
                continue
            if _is_logging(st):
                continue
        if isinstance(st, ast.If) and not st.orelse and st.body and isinstance(st.body[-1], ast.Break) \
                and all(_is_logging(b) for b in st.body[:-1]):
            continue                      # convergence test
        if isinstance(st, ast.Assign) and len(st.targets) == 1 and _is_self_attr(st.targets[0], self_name, "_old_results") \
                and isinstance(st.value, ast.Name):
            continue
        raise Untranslatable("statement in the solution loop: " + ast.unparse(st)[:70])
    return steps, init_first, fn.lineno


def extract_init_solve_ops(path, class_name):
    """`BaseRollPass.init_solve` statement by statement: "super" | "reset" (`self._contour_lines = None`) |
    "seed" (`self.out_profile.cross_section = self.usable_cross_section`) | "created" (`created = not self.out_profile`) |
    "seedIfCreated" (`if created: <seed>`)"""
    tree = _parse(path)
    cls = _find_class(tree, class_name)
    fn = _find_func(cls.body, "init_solve") if cls is not None else None
    if fn is None:
        raise Untranslatable(f"{class_name}.init_solve not found")
    self_name = fn.args.args[0].arg
    ops = []
    flags = set()
    for st in fn.body:
        if _docstring(st):
            continue
        flag = _created_flag(st, self_name)
        if flag is not None:
            if flags:
                raise Untranslatable("init_solve: more than one `... = not self.out_profile`")
            flags.add(flag)
            ops.append("created")
            continue
        inner = _guarded_body(st, flags)
        if inner is not None and isinstance(inner, ast.Assign) and len(inner.targets) == 1 \
                and _is_self_attr(inner.targets[0], self_name, "out_profile", "cross_section") \
                and _is_self_attr(inner.value, self_name, "usable_cross_section"):
            ops.append("seedIfCreated")
            continue
        if isinstance(st, ast.Expr) and isinstance(st.value, ast.Call):
            f = st.value.func
            if isinstance(f, ast.Attribute) and f.attr == "init_solve" and isinstance(f.value, ast.Call) \
                    and isinstance(f.value.func, ast.Name) and f.value.func.id == "super":
                ops.append("super")
                continue
        if isinstance(st, ast.Assign) and len(st.targets) == 1:
            if _is_self_attr(st.targets[0], self_name, "_contour_lines") and isinstance(st.value, ast.Constant) and st.value.value is None:
                ops.append("reset")
                continue
            if _is_self_attr(st.targets[0], self_name, "out_profile", "cross_section") and _is_self_attr(st.value, self_name, "usable_cross_section"):
                ops.append("seed")
                continue
        raise Untranslatable("statement in init_solve: " + ast.unparse(st)[:80])
    return ops, fn.lineno


def class_files(core_dir):
    """top-level class name -> path, for every module of pyroll/core"""
    out = {}
    for root, _, files in os.walk(core_dir):
        for f in sorted(files):
            if f.endswith(".py"):
                pth = os.path.join(root, f)
                try:
                    tree = _parse(pth)
                except (SyntaxError, OSError):
                    continue
                for n in tree.body:
                    if isinstance(n, ast.ClassDef):
                        out.setdefault(n.name, pth)
    return out


def extract_refine(path):
    """`refine_cross_section`: must return its argument unchanged or `arg.segmentize(...)` -> list of the return kinds"""
    tree = _parse(path)
    fn = _find_func(tree.body, "refine_cross_section")
    if fn is None or len(fn.args.args) != 1:
        raise Untranslatable("refine_cross_section not found")
    arg = fn.args.args[0].arg
    kinds = []
    for node in ast.walk(fn):
        if isinstance(node, ast.Return):
            v = node.value
            if isinstance(v, ast.Name) and v.id == arg:
                kinds.append("identity")
            elif isinstance(v, ast.Call) and isinstance(v.func, ast.Attribute) and v.func.attr == "segmentize" \
                    and isinstance(v.func.value, ast.Name) and v.func.value.id == arg:
                kinds.append("segmentize")
            else:
                raise Untranslatable("refine_cross_section returns " + ast.unparse(v)[:60])
        elif isinstance(node, ast.Assign):
            raise Untranslatable("refine_cross_section assigns")
    if not kinds:
        raise Untranslatable("refine_cross_section does not return")
    return kinds, fn.lineno


FG_PARAMS = ("width", "filling", "height", "gap")


def extract_from_groove(path, given):
    """`Profile.from_groove` executed with exactly the parameters `given` (subset of width/filling/height/gap) not None.
       -> Result (geom None and `raised` set when the path ends in an unconditional raise)"""
    tree = _parse(path)
    cls = _find_class(tree, "Profile")
    fn = _find_func(cls.body, "from_groove") if cls is not None else None
    if fn is None:
        raise Untranslatable("Profile.from_groove not found")
    names = [a.arg for a in fn.args.args]
    if len(names) < 2 or set(names[2:]) != set(FG_PARAMS):
        raise Untranslatable("from_groove parameters " + ",".join(names))
    groove = names[1]
    shp = _shapely_names(tree)
    refine = {"refine_cross_section"} if _find_func(tree.body, "refine_cross_section") is not None else set()
    ex = Exec(shp, {groove: ("obj", "groove.")}, {f"{groove}.contour_line": "grooveContour"}, refine_names=refine,
              static_none=[p for p in FG_PARAMS if p not in given], static_given=list(given))
    out = {}

    def on_return(e, v):
        # return cls(cross_section=<geometry>, classifiers=set(groove.classifiers), **kwargs)
        if not (isinstance(v, ast.Call) and isinstance(v.func, ast.Name) and v.func.id == names[0] and not v.args):
            raise Untranslatable("from_groove returns " + ast.unparse(v)[:60])
        kw = {k.arg: k.value for k in v.keywords}
        if "cross_section" not in kw:
            raise Untranslatable("from_groove does not pass cross_section=")
        out["geom"] = e.geom(kw["cross_section"])
        c = kw.get("classifiers")
        if isinstance(c, ast.Call) and isinstance(c.func, ast.Name) and c.func.id == "set" and len(c.args) == 1:
            p = pyexpr.attr_path(c.args[0])
            e.res.extra["classifiers"] = ".".join(p) if p else "?"
    ex.res.lineno = fn.lineno
    try:
        if not ex.run(fn.body, on_return):
            raise Untranslatable("from_groove does not return")
    except Raised as r:
        ex.res.extra["raised"] = (r.exc, r.msg)
        return ex.res
    ex.res.geom = out["geom"]
    ex.res.scalars = dict(ex.scal)
    return ex.res


# ---------------------------------------------------------------------------------------------------------------
# term utilities (python side) and Lean emission
# ---------------------------------------------------------------------------------------------------------------
def subst(t, lines=None, width=None, helpers=None):
    """replace ("ref","lines") / ("ref","width") and expand ("call", h, lines, e) with the translated helpers"""
    if not isinstance(t, tuple):
        return t
    if t == ("ref", "lines") and lines is not None:
        return lines
    if t == ("ref", "width") and width is not None:
        return width
    if t and t[0] == "call" and helpers is not None:
        return subst(helpers[t[1]], lines=subst(t[2], lines, width, helpers), width=subst(t[3], lines, width, helpers),
                     helpers=helpers)
    return tuple(subst(x, lines, width, helpers) for x in t)


def lean_bound(b):
    return ".ninf" if b == NINF else ".pinf" if b == PINF else f"(.fin {pyexpr.lean_expr(b[1])})"


def lean_term(t):
    k = t[0]
    if k == "src":
        return f"(.src .{t[1]})"
    if k == "ref":
        return t[1]
    if k == "translate":
        return f"(.translate {lean_term(t[1])} {pyexpr.lean_expr(t[2])} {pyexpr.lean_expr(t[3])})"
    if k == "rotate":
        return f"(.rotate {lean_term(t[1])} {pyexpr.lean_expr(t[2])})"
    if k == "scale":
        return f"(.scale {lean_term(t[1])} {pyexpr.lean_expr(t[2])} {pyexpr.lean_expr(t[3])})"
    if k in ("reverse", "polygon", "refine"):
        return f"(.{k} {lean_term(t[1])})"
    if k == "concat":
        return f"(.concat {lean_term(t[1])} {lean_term(t[2])})"
    if k == "dedupe":
        return f"(.dedupe {lean_term(t[1])} {pyexpr.lean_expr(t[2])})"
    if k == "clip":
        return f"(.clipRect {lean_term(t[1])} " + " ".join(lean_bound(b) for b in t[2:]) + ")"
    if k == "call":
        return f"({t[1]} {lean_term(t[2])} {pyexpr.lean_expr(t[3])})"
    raise ValueError(t)


def lean_cond(c):
    k = c[0]
    if k in ("lt", "le"):
        return f"(.{k} {pyexpr.lean_expr(c[1])} {pyexpr.lean_expr(c[2])})"
    if k == "not":
        return f"(.not {lean_cond(c[1])})"
    if k in ("and", "or"):
        return f"(.{k} {lean_cond(c[1])} {lean_cond(c[2])})"
    if k == "invalid":
        return f"(.invalid {lean_term(c[1])})"
    raise ValueError(c)


def lean_meas_kind(k):
    if isinstance(k, tuple):
        return f"(.bound {k[1]})"
    return {"width": ".width", "height": ".height", "centroid.x": ".centroidX", "centroid.y": ".centroidY"}[k]


def lean_prog(res, indent="    "):
    meas = (",\n" + indent + "         ").join(
        f"({pyexpr.lean_str(v)}, {lean_term(g)}, {lean_meas_kind(k)})" for (v, g, k) in res.meas)
    checks = (",\n" + indent + "           ").join(
        f"{{ cond := {lean_cond(c)}, exc := {pyexpr.lean_str(e)} }}" for (c, e, m) in res.checks)
    return ("{ meas := [" + meas + "],\n" + indent + "  checks := [" + checks + "],\n" + indent + "  result := "
            + lean_term(res.geom) + " }")
