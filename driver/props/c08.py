"""C08 - a pass's outgoing profile is confined by the rolls and has the prescribed width.

Tie: T - on every run `driver/translate/c08_outcs.py` re-reads `TwoRollPass.contour_lines` / `ThreeRollPass.contour_lines`,
`helpers.out_cross_section` / `out_cross_section3`, the hook implementations `cross_section` / `cross_section3` (with their
over-width checks), `usable_cross_section*`, `BaseRollPass.init_solve` (usable cross-section seed), `Profile.from_groove`
(every way of giving width|filling x gap|height) and `refine_cross_section` from the source as TERMS over an uninterpreted
shapely signature (lean/PyrollModel/Gen/C08Geom.lean), and the closed formulas `OutProfile.width` (default), `filling_ratio`,
`usable_width`, `Profile.width` through pyexpr/gen (Gen/C08.lean).  The theorems of lean/PyrollProps/C08.lean are about these
generated terms.  K - (a) every generated term is evaluated by a python interpreter over REAL shapely and compared
coordinate by coordinate with what the real pass / `from_groove` returned; (b) the Lean Float run of the generated programs
under the vertex-list interpretation (lean/PyrollModel/OutCS.lean) is compared with the real result (same exception or
same polygon up to the inserted collinear vertices, same measured widths); (c) resolution order of the real
`OutProfile.cross_section` / `width` hooks; (d) closed formulas vs their python functions.
The independent oracle checks the property text on really solved passes.
"""
import math
import os

from ..translate import gen, pyexpr
from ..translate import c08_outcs as oc
from .. import stub
from ..core import LEAN_DIR

ID = "C08"
LEAN_MODULES = ["PyrollProps.C08"]
MODEL = "c08"
MODEL_MODULES = ["PyrollModel.Gen.C08", "PyrollModel.Gen.C08Geom", "PyrollModel.OutCSDriver"]

HP = "roll_pass/hookimpls/profile.py"
H2 = "roll_pass/hookimpls/two_roll_pass.py"
H3 = "roll_pass/hookimpls/three_roll_pass.py"
HELPERS = "roll_pass/hookimpls/helpers.py"
PP = "profile/profile.py"
PH = "profile/hookimpls.py"
SELECTION = [
    ("out_width_default", HP, "width"),
    ("out_filling_ratio", HP, "filling_ratio"),
    ("two_usable_width", H2, "usable_width"),
    ("three_usable_width", H3, "usable_width3"),
    ("profile_width", PH, "width"),
    ("profile_width_3fold", PH, "width_3fold"),
]
CONTOURS = {"two": ("roll_pass/two_roll_pass.py", "TwoRollPass", 2), "three": ("roll_pass/three_roll_pass.py", "ThreeRollPass", 3)}
HELPER_NAMES = ["out_cross_section", "out_cross_section3"]
# hosts in the order `Hook.functions` visits them (most derived first); checked against the real MRO in run()
PASS_MRO = {
    "two": ["TwoRollPass", "SymmetricRollPass", "BaseRollPass", "DiskElementUnit", "DeformationUnit", "Unit"],
    "three": ["ThreeRollPass", "SymmetricRollPass", "BaseRollPass", "DiskElementUnit", "DeformationUnit", "Unit"],
}
FG_SCENARIOS = [("wg", ("width", "gap")), ("fg", ("filling", "gap")), ("wh", ("width", "height")), ("fh", ("filling", "height"))]
FG_BAD = [(), ("width",), ("gap",), ("width", "filling", "gap"), ("width", "gap", "height"), ("filling", "height", "gap", "width")]


# --------------------------------------------------------------------------------------------------------------
# (T)
# --------------------------------------------------------------------------------------------------------------
def _core(rel):
    return os.path.join(gen.REPO, "pyroll", "core", rel)


def _scan_geom_hooks(rel, hook_names, tie):
    """all hook implementations of `rel` registered on one of `hook_names` -> [(info, Result)] in source order"""
    import ast
    out = []
    try:
        tree = ast.parse(open(_core(rel)).read())
    except OSError as ex:
        tie(f"translator: pyroll/core/{rel}: {ex}")
        return out
    for node in tree.body:
        if not isinstance(node, ast.FunctionDef):
            continue
        for dec in node.decorator_list:
            info = pyexpr._decorator_info(dec)
            if info is not None and info[1] in hook_names:
                try:
                    out.append(oc.extract_hook_geom(_core(rel), node.name, HELPER_NAMES))
                except pyexpr.Untranslatable as ex:
                    tie(f"translator: {node.name} (pyroll/core/{rel}) is outside the translatable subset: {ex}")
                    out.append(({"host": info[0], "hook": info[1], "tier": info[2], "wrapper": info[3], "fn": node.name}, None))
                break
    return out


def _first_impl(impls, hook, which, suffix):
    """the implementation `Hook.functions` yields first for `hook` on <pass class>.<suffix>: tier, then MRO, then latest"""
    for tier in (0, 1, 2):
        for k in PASS_MRO[which]:
            host = k + suffix
            cands = [i for (i, _) in impls if i["hook"] == hook and i["host"] == host and i["tier"] == tier and not i["wrapper"]]
            if cands:
                return cands[-1]["fn"]
    return None


def scan(tie=lambda s: None):
    """everything the generated module is made of, as python data (also used by run() for the python-side evaluation)"""
    T = {"lines": {}, "helpers": {}, "helper_info": {}, "hooks": [], "fg": {}, "fg_bad": {}, "seed": None, "refine": None}
    for which, (rel, cls, n) in CONTOURS.items():
        try:
            lines, lineno = oc.extract_contour_lines(_core(rel), cls)
            if len(lines) != n:
                raise pyexpr.Untranslatable(f"{len(lines)} contour lines instead of {n}")
            T["lines"][which] = (lines, lineno, rel, cls)
        except (pyexpr.Untranslatable, OSError, AttributeError) as ex:
            tie(f"translator: {cls}.contour_lines (pyroll/core/{rel}) is outside the translatable subset: {ex}")
    for h in HELPER_NAMES:
        try:
            term, lineno, ann = oc.extract_helper(_core(HELPERS), h)
            T["helpers"][h] = term
            T["helper_info"][h] = (lineno, ann)
        except (pyexpr.Untranslatable, OSError) as ex:
            tie(f"translator: {h} (pyroll/core/{HELPERS}) is outside the translatable subset: {ex}")
    T["hooks"] = (_scan_geom_hooks(HP, {"cross_section"}, tie) +
                  _scan_geom_hooks(H2, {"usable_cross_section", "tip_cross_section"}, tie) +
                  _scan_geom_hooks(H3, {"usable_cross_section", "tip_cross_section"}, tie))
    try:
        T["seed"] = oc.extract_init_solve_seed(_core("roll_pass/base.py"), "BaseRollPass")
    except (pyexpr.Untranslatable, OSError, AttributeError) as ex:
        tie(f"translator: BaseRollPass.init_solve is outside the translatable subset: {ex}")
    try:
        T["refine"] = oc.extract_refine(_core(PP))
    except (pyexpr.Untranslatable, OSError) as ex:
        tie(f"translator: refine_cross_section is outside the translatable subset: {ex}")
    for tag, given in FG_SCENARIOS:
        try:
            r = oc.extract_from_groove(_core(PP), given)
            if r.geom is None:
                raise pyexpr.Untranslatable(f"raises {r.extra.get('raised')} although {given} are given")
            T["fg"][tag] = r
        except (pyexpr.Untranslatable, OSError, AttributeError) as ex:
            tie(f"translator: Profile.from_groove given {given} is outside the translatable subset: {ex}")
    for given in FG_BAD:
        try:
            r = oc.extract_from_groove(_core(PP), given)
            T["fg_bad"][given] = r.extra.get("raised", ("<returns>", ""))[0]
        except (pyexpr.Untranslatable, OSError, AttributeError) as ex:
            T["fg_bad"][given] = "<untranslatable>"
    return T


def _missing_term():
    return ("src", "rollContour")


def translate(ctx):
    ctx.found = gen.emit_impl_module(ctx, ID, SELECTION)
    T = scan(ctx.tie_breaks.append)
    ctx.c08 = T
    L = ["import PyrollModel.OutCS",
         "/- GENERATED by driver/translate/c08_outcs.py from /repo's working tree on every run - do not edit. -/",
         "namespace Gen.C08", "open OutCS", ""]
    bad = '(.translate (.src .rollContour) (.var "<untranslatable>") (.var "<untranslatable>"))'
    for which, (rel, cls, n) in CONTOURS.items():
        if which in T["lines"]:
            lines, lineno, _, _ = T["lines"][which]
            for i, (pyname, term) in enumerate(lines):
                L.append(f"/-- pyroll/core/{rel}:{lineno} `{cls}.contour_lines`, geoms[{i}] (python variable `{pyname}`) -/")
                L.append(f"def {which}_line{i} : GT :=\n    {oc.lean_term(term)}")
            L.append(f"/-- the coordinates of `{cls}.contour_lines` in order: `np.concatenate([cl.coords for cl in rp.contour_lines.geoms])` -/")
            L.append(f"def {which}_lines : GT := " + oc.lean_term(oc._concat([("ref", f"{which}_line{i}") for i in range(len(lines))])))
        else:
            L.append(f"def {which}_lines : GT := {bad}")
        L.append("")
    for h in HELPER_NAMES:
        if h in T["helpers"]:
            lineno, ann = T["helper_info"][h]
            L.append(f"/-- pyroll/core/{HELPERS}:{lineno} `{h}(rp: {ann}, width)`; `lines` = the coordinates of `rp.contour_lines` -/")
            L.append(f"def {h} (lines : GT) (width : Expr) : GT :=\n    {oc.lean_term(T['helpers'][h])}")
        else:
            L.append(f"def {h} (lines : GT) (width : Expr) : GT := {bad}")
        L.append("")
    progs = {}
    for (info, res) in T["hooks"]:
        name = info["fn"]
        L.append(f"/-- `{info['fn']}` on `{info['host']}.{info['hook']}`" + (f" (line {res.lineno})" if res else "") + " -/")
        if res is None:
            L.append(f"def {name} (lines : GT) : Prog := {{ meas := [], checks := [], result := {bad} }}")
        else:
            L.append(f"def {name} (lines : GT) : Prog :=\n    {oc.lean_prog(res)}")
        progs[name] = res
        L.append("")
    # which implementation answers on which pass class (resolution order of Hook.functions)
    T["resolved"] = {}
    for which in ("two", "three"):
        for hook, suffix, lean in (("cross_section", ".OutProfile", "cross_section"), ("usable_cross_section", "", "usable_cs"),
                                   ("tip_cross_section", "", "tip_cs")):
            fn = _first_impl(T["hooks"], hook, which, suffix)
            T["resolved"][(which, hook)] = fn
            if fn is None:
                ctx.tie_breaks.append(f"translator: no implementation of {hook} found for the {which}-roll pass")
                L.append(f"def {which}_{lean} : Prog := {{ meas := [], checks := [], result := {bad} }}")
            else:
                L.append(f"/-- `{PASS_MRO[which][0]}{suffix}.{hook}` is answered by `{fn}` -/")
                L.append(f"def {which}_{lean} : Prog := {fn} {which}_lines")
        L.append("")
    if T["seed"] is not None:
        seeds, lineno = T["seed"]
        L.append(f"/-- pyroll/core/roll_pass/base.py:{lineno} `BaseRollPass.init_solve`: (target, value, after `super().init_solve`) -/")
        L.append("def init_solve_seed : List (String × String × Bool) := [" + ", ".join(
            f"({pyexpr.lean_str(t)}, {pyexpr.lean_str(v)}, {'true' if s else 'false'})" for (t, v, s) in seeds) + "]")
    else:
        L.append("def init_solve_seed : List (String × String × Bool) := []")
    if T["refine"] is not None:
        L.append(f"/-- pyroll/core/{PP}:{T['refine'][1]} `refine_cross_section` returns its argument or `argument.segmentize(...)` -/")
        L.append("def refine_returns : List String := [" + ", ".join(pyexpr.lean_str(k) for k in T["refine"][0]) + "]")
    else:
        L.append("def refine_returns : List String := [\"<untranslatable>\"]")
    L.append("")
    for tag, given in FG_SCENARIOS:
        r = T["fg"].get(tag)
        L.append(f"/-- `Profile.from_groove(groove, {', '.join(g + '=' + g for g in given)})`" + (f" (pyroll/core/{PP}:{r.lineno})" if r else "") + " -/")
        if r is None:
            L.append(f"def from_groove_{tag} : Prog := {{ meas := [], checks := [], result := {bad} }}")
        else:
            L.append(f"def from_groove_{tag} : Prog :=\n    {oc.lean_prog(r)}")
            for loc in ("width", "gap"):
                if loc in r.scalars:
                    L.append(f"/-- the local `{loc}` on that path -/")
                    L.append(f"def from_groove_{tag}_{loc} : Expr := {pyexpr.lean_expr(r.scalars[loc])}")
        L.append("")
    L.append("/-- what `from_groove` does for other combinations of given arguments -/")
    L.append("def from_groove_rejects : List (List String × String) := [" + ", ".join(
        "([" + ", ".join(pyexpr.lean_str(g) for g in given) + "], " + pyexpr.lean_str(T["fg_bad"][given]) + ")"
        for given in FG_BAD) + "]")
    L.append("")
    L.append("end Gen.C08")
    changed = pyexpr.write_if_changed(os.path.join(LEAN_DIR, "PyrollModel", "Gen", "C08Geom.lean"), "\n".join(L) + "\n")
    ctx.notes.setdefault("generated", {})["Gen/C08Geom.lean"] = {
        "hooks": [i["fn"] for (i, _) in T["hooks"]], "helpers": sorted(T["helpers"]), "from_groove": sorted(T["fg"]),
        "rewritten": changed}
