"""C08 - a pass's outgoing profile is confined by the rolls and has the prescribed width.

Tie: T - on every run `driver/translate/c08_outcs.py` re-reads `TwoRollPass.contour_lines` / `ThreeRollPass.contour_lines`,
`helpers.out_cross_section` / `out_cross_section3`, the hook implementations `cross_section` / `cross_section3` (with their
over-width checks), `usable_cross_section*`, `BaseRollPass.init_solve` (usable cross-section seed), `Profile.from_groove`
(every way of giving width|filling x gap|height) and `refine_cross_section` from the source as TERMS over an uninterpreted
shapely signature (lean/PyrollModel/Gen/C08Geom.lean), and the closed formulas `OutProfile.width` (default), `filling_ratio`,
`usable_width`, `Profile.width` through pyexpr/gen (Gen/C08.lean).  The theorems of lean/PyrollProps/C08.lean are about these
generated terms.  K - (a) every generated term is evaluated by a python interpreter over REAL shapely and compared
coordinate by coordinate with what the real pass / `from_groove` returned; (b) the Lean Float run of the generated programs
under the vertex-list interpretation (lean/PyrollModel/OutCS.lean) is compared with the real result (same exception or
same polygon up to the inserted collinear vertices, same measured widths); (c) resolution order of the real
`OutProfile.cross_section` / `width` hooks; (d) closed formulas vs their python functions.
WHEN the contour lines are built is part of the model as well: the memo of `contour_lines`, the bodies of
`reevaluate_cache` along the MRO of the pass classes, the loop body of `Unit.solve` and `BaseRollPass.init_solve` are
translated statement by statement into Gen/C08Cache.lean and instantiate the executable model lean/PyrollModel/OutCSCache.lean
(theorems of part E: every iteration rebuilds the lines at the current gap; after the solve the out cross-section, the
memo and the reported gap belong to the same gap); K (e): that model run on the gap values a spring hook really answered
vs the state of the real pass after the solve.
FROM WHICH ROLLS the lines are built is part of that model too: the roll's memo `Roll.contour_line` over its hook
`contour_points` (which hands out the contour points of the groove mounted at that moment), `reevaluate_cache` along the MRO
of the pass's roll class, and histories of ONE pass object (solve / another groove mounted / new roll object / solve ...):
`history_last_solve` - whatever was done with the pass object before, a solve ends on the groove that is mounted and the
last gap; K (e) runs the model on whole histories (which groove per solve, gap values answered).  The remembered usable
cross-section is current too (`cached_usable_cs_is_current`) - a theorem about the order of `reevaluate_cache` as repaired by
20fe8da (memos dropped before the remembered hook values are recomputed); the old order's lag is kept as a witness theorem.
The independent oracle checks the property text on really solved passes - plain ones and SCENARIOS (steps on one pass
instance: rarely given hook values, gap given as height / inscribed circle / by a hook that settles during the solution,
attributes read before solve, gap changed between two solves, ANOTHER GROOVE MOUNTED on the rolls between two solves with the
gap left alone), judged at the gap the pass reports afterwards and with the groove that is mounted then.
"""
import json
import math
import os

from ..translate import gen, pyexpr
from ..translate import c08_outcs as oc
from .. import stub
from ..core import LEAN_DIR

ID = "C08"
LEAN_MODULES = ["PyrollProps.C08"]
MODEL = "c08"
MODEL_MODULES = ["PyrollModel.Gen.C08", "PyrollModel.Gen.C08Geom", "PyrollModel.Gen.C08Cache", "PyrollModel.OutCSDriver"]

HP = "roll_pass/hookimpls/profile.py"
H2 = "roll_pass/hookimpls/two_roll_pass.py"
H3 = "roll_pass/hookimpls/three_roll_pass.py"
HELPERS = "roll_pass/hookimpls/helpers.py"
PP = "profile/profile.py"
PH = "profile/hookimpls.py"
SELECTION = [
    ("out_width_default", HP, "width"),
    ("out_filling_ratio", HP, "filling_ratio"),
    ("two_usable_width", H2, "usable_width"),
    ("three_usable_width", H3, "usable_width3"),
    ("profile_width", PH, "width"),
    ("profile_width_3fold", PH, "width_3fold"),
]
CONTOURS = {"two": ("roll_pass/two_roll_pass.py", "TwoRollPass", 2), "three": ("roll_pass/three_roll_pass.py", "ThreeRollPass", 3)}
HELPER_NAMES = ["out_cross_section", "out_cross_section3"]
# hosts in the order `Hook.functions` visits them (most derived first); checked against the real MRO in run()
PASS_MRO = {
    "two": ["TwoRollPass", "SymmetricRollPass", "BaseRollPass", "DiskElementUnit", "DeformationUnit", "Unit"],
    "three": ["ThreeRollPass", "SymmetricRollPass", "BaseRollPass", "DiskElementUnit", "DeformationUnit", "Unit"],
}
FG_SCENARIOS = [("wg", ("width", "gap")), ("fg", ("filling", "gap")), ("wh", ("width", "height")), ("fh", ("filling", "height"))]
LEAN_LINE_CAP = 12000          # lines per run through the (interpreted) Lean model driver
FG_BAD = [(), ("width",), ("gap",), ("width", "filling", "gap"), ("width", "gap", "height"), ("filling", "height", "gap", "width")]


# --------------------------------------------------------------------------------------------------------------
# (T)
# --------------------------------------------------------------------------------------------------------------
def _core(rel):
    return os.path.join(gen.REPO, "pyroll", "core", rel)


def _scan_geom_hooks(rel, hook_names, tie):
    """all hook implementations of `rel` registered on one of `hook_names` -> [(info, Result)] in source order"""
    import ast
    out = []
    try:
        tree = ast.parse(open(_core(rel)).read())
    except OSError as ex:
        tie(f"translator: pyroll/core/{rel}: {ex}")
        return out
    for node in tree.body:
        if not isinstance(node, ast.FunctionDef):
            continue
        for dec in node.decorator_list:
            info = pyexpr._decorator_info(dec)
            if info is not None and info[1] in hook_names:
                try:
                    out.append(oc.extract_hook_geom(_core(rel), node.name, HELPER_NAMES))
                except pyexpr.Untranslatable as ex:
                    tie(f"translator: {node.name} (pyroll/core/{rel}) is outside the translatable subset: {ex}")
                    out.append(({"host": info[0], "hook": info[1], "tier": info[2], "wrapper": info[3], "fn": node.name}, None))
                break
    return out


def _first_impl(impls, hook, which, suffix):
    """the implementation `Hook.functions` yields first for `hook` on <pass class>.<suffix>: tier, then MRO, then latest"""
    for tier in (0, 1, 2):
        for k in PASS_MRO[which]:
            host = k + suffix
            cands = [i for (i, _) in impls if i["hook"] == hook and i["host"] == host and i["tier"] == tier and not i["wrapper"]]
            if cands:
                return cands[-1]["fn"]
    return None


def scan(tie=lambda s: None):
    """everything the generated module is made of, as python data (also used by run() for the python-side evaluation)"""
    T = {"lines": {}, "helpers": {}, "helper_info": {}, "hooks": [], "fg": {}, "fg_bad": {}, "seed": None, "refine": None}
    for which, (rel, cls, n) in CONTOURS.items():
        try:
            lines, lineno = oc.extract_contour_lines(_core(rel), cls)
            if len(lines) != n:
                raise pyexpr.Untranslatable(f"{len(lines)} contour lines instead of {n}")
            T["lines"][which] = (lines, lineno, rel, cls)
        except (pyexpr.Untranslatable, OSError, AttributeError) as ex:
            tie(f"translator: {cls}.contour_lines (pyroll/core/{rel}) is outside the translatable subset: {ex}")
    for h in HELPER_NAMES:
        try:
            term, lineno, ann = oc.extract_helper(_core(HELPERS), h)
            T["helpers"][h] = term
            T["helper_info"][h] = (lineno, ann)
        except (pyexpr.Untranslatable, OSError) as ex:
            tie(f"translator: {h} (pyroll/core/{HELPERS}) is outside the translatable subset: {ex}")
    T["hooks"] = (_scan_geom_hooks(HP, {"cross_section"}, tie) +
                  _scan_geom_hooks(H2, {"usable_cross_section", "tip_cross_section"}, tie) +
                  _scan_geom_hooks(H3, {"usable_cross_section", "tip_cross_section"}, tie))
    try:
        T["seed"] = oc.extract_init_solve_seed(_core("roll_pass/base.py"), "BaseRollPass")
    except (pyexpr.Untranslatable, OSError, AttributeError) as ex:
        tie(f"translator: BaseRollPass.init_solve is outside the translatable subset: {ex}")
    try:
        T["refine"] = oc.extract_refine(_core(PP))
    except (pyexpr.Untranslatable, OSError) as ex:
        tie(f"translator: refine_cross_section is outside the translatable subset: {ex}")
    T["cache"] = scan_cache(tie)
    for tag, given in FG_SCENARIOS:
        try:
            r = oc.extract_from_groove(_core(PP), given)
            if r.geom is None:
                raise pyexpr.Untranslatable(f"raises {r.extra.get('raised')} although {given} are given")
            T["fg"][tag] = r
        except (pyexpr.Untranslatable, OSError, AttributeError) as ex:
            tie(f"translator: Profile.from_groove given {given} is outside the translatable subset: {ex}")
    for given in FG_BAD:
        try:
            r = oc.extract_from_groove(_core(PP), given)
            T["fg_bad"][given] = r.extra.get("raised", ("<returns>", ""))[0]
        except (pyexpr.Untranslatable, OSError, AttributeError) as ex:
            T["fg_bad"][given] = "<untranslatable>"
    return T


CHAIN_TAIL = ["HookHost"]               # after the unit classes of PASS_MRO; checked against the real MRO in run()
# the classes of the pass's roll object (`rp.roll`), most derived first (nested classes `<pass class>.Roll`, then the roll
# class of pyroll/core/roll); checked against the real MRO in run()
ROLL_MRO = {"two": ["TwoRollPass.Roll", "SymmetricRollPass.Roll", "BaseRollPass.Roll", "Roll"],
            "three": ["ThreeRollPass.Roll", "SymmetricRollPass.Roll", "BaseRollPass.Roll", "Roll"]}
ROLL_HOOKIMPLS = "roll/hookimpls.py"


def scan_cache(tie=lambda s: None):
    """the memo of the contour lines and the protocol that invalidates it (-> Gen/C08Cache.lean, model OutCS.Cache):
    {"memo": {which: (flags, reads, lineno)}, "chain": {which: [(class, ops, lineno)]}, "loop": (steps, init first, lineno),
     "init": (ops, lineno), "roll_memo": {which: (flags, reads, lineno, class)}, "roll_chain": {which: [(class, ops, lineno)]},
     "roll_points": [(fn, path read, lineno)]}; missing pieces are left out (and recorded as translator gaps)"""
    C = {"memo": {}, "chain": {}, "loop": None, "init": None, "roll_memo": {}, "roll_chain": {}, "roll_points": None}
    try:
        files = oc.class_files(os.path.join(gen.REPO, "pyroll", "core"))
    except OSError as ex:
        tie(f"translator: pyroll/core: {ex}")
        return C
    for which, (rel, cls, n) in CONTOURS.items():
        try:
            C["memo"][which] = oc.extract_contour_memo(_core(rel), cls)
        except (pyexpr.Untranslatable, OSError, AttributeError) as ex:
            tie(f"translator: the memo of {cls}.contour_lines (pyroll/core/{rel}) is outside the translatable subset: {ex}")
        chain = []
        try:
            for k in PASS_MRO[which] + CHAIN_TAIL:
                if k not in files:
                    raise pyexpr.Untranslatable(f"class {k} not found in pyroll/core")
                r = oc.extract_reevaluate(files[k], k)
                if r is not None:
                    chain.append((k, r[0], r[1]))
            C["chain"][which] = chain
        except (pyexpr.Untranslatable, OSError) as ex:
            tie(f"translator: reevaluate_cache along the MRO of {cls} is outside the translatable subset: {ex}")
    # the roll side: the memo `Roll.contour_line` over the hook `contour_points`, `reevaluate_cache` along the MRO of the
    # pass's roll class, and what the implementation of `contour_points` reads
    for which in CONTOURS:
        rchain = []
        try:
            for k in ROLL_MRO[which] + CHAIN_TAIL:
                top = k.split(".")[0]
                if top not in files:
                    raise pyexpr.Untranslatable(f"class {top} not found in pyroll/core")
                r = oc.extract_reevaluate(files[top], k, attr="_contour_line")
                if r is not None:
                    rchain.append((k, r[0], r[1]))
                if which not in C["roll_memo"] and oc.defines(files[top], k, "contour_line"):
                    # the first class along the MRO that defines the property answers
                    C["roll_memo"][which] = oc.extract_contour_memo(files[top], k, prop="contour_line", attr="_contour_line") + (k,)
            C["roll_chain"][which] = rchain
            if which not in C["roll_memo"]:
                raise pyexpr.Untranslatable("no class defines contour_line")
        except (pyexpr.Untranslatable, OSError) as ex:
            tie(f"translator: reevaluate_cache / contour_line along the MRO of {ROLL_MRO[which][0]} is outside the translatable subset: {ex}")
    try:
        C["roll_points"] = oc.extract_hook_reads(_core(ROLL_HOOKIMPLS), "Roll", "contour_points")
    except (pyexpr.Untranslatable, OSError) as ex:
        tie(f"translator: the implementation of Roll.contour_points (pyroll/core/{ROLL_HOOKIMPLS}) is outside the translatable subset: {ex}")
    try:
        C["loop"] = oc.extract_solve_loop(files.get("Unit", _core("unit/unit.py")))
    except (pyexpr.Untranslatable, OSError, AttributeError) as ex:
        tie(f"translator: the solution loop of Unit.solve is outside the translatable subset: {ex}")
    try:
        C["init"] = oc.extract_init_solve_ops(_core("roll_pass/base.py"), "BaseRollPass")
    except (pyexpr.Untranslatable, OSError, AttributeError) as ex:
        tie(f"translator: BaseRollPass.init_solve (statement list) is outside the translatable subset: {ex}")
    return C


def emit_cache(ctx, C):
    """Gen/C08Cache.lean; an untranslatable piece becomes a value under which the theorems of part E cannot hold"""
    L = ["import PyrollModel.OutCSCache",
         "/- GENERATED by driver/translate/c08_outcs.py from /repo's working tree on every run - do not edit. -/",
         "namespace Gen.C08", "open OutCS.Cache", ""]

    def memo(m):
        direct = any(r == "roll.groove" or r.startswith("roll.groove.") for r in m[1])
        return (f"{{ guarded := {'true' if m[0]['guarded'] else 'false'}, stored := {'true' if m[0]['stored'] else 'false'}, "
                f"direct := {'true' if direct else 'false'} }}")

    def chain(ch):
        return "[" + ", ".join(f"({pyexpr.lean_str(k)}, [" + ", ".join("." + o for o in ops) + "])" for (k, ops, _) in ch) + "]"
    for which, (rel, cls, n) in CONTOURS.items():
        m = C["memo"].get(which)
        if m is not None:
            L.append(f"/-- pyroll/core/{rel}:{m[2]} `{cls}.contour_lines`: memo guard first / built value stored / reads `roll.groove.…` "
                     f"directly; what it reads of the pass -/")
            L.append(f"def {which}_memo : Memo := {memo(m)}")
            L.append(f"def {which}_memo_reads : List String := [" + ", ".join(pyexpr.lean_str(r) for r in m[1]) + "]")
        else:
            L.append(f"def {which}_memo : Memo := {{ guarded := true, stored := true }}")
            L.append(f"def {which}_memo_reads : List String := [\"<untranslatable>\"]")
        ch = C["chain"].get(which)
        L.append(f"/-- `reevaluate_cache` along the MRO of `{cls}` (classes that define it, most derived first) -/")
        L.append(f"def {which}_reevaluate : List (String × List ROp) := " + (chain(ch) if ch is not None else "[]"))
        rm = C["roll_memo"].get(which)
        if rm is not None:
            L.append(f"/-- `{rm[3]}.contour_line` (line {rm[2]}), the property that answers `rp.roll.contour_line` on a `{cls}`: memo guard "
                     f"first / built value stored; what it reads of the roll -/")
            L.append(f"def {which}_roll_memo : Memo := {memo(rm)}")
            L.append(f"def {which}_roll_memo_reads : List String := [" + ", ".join(pyexpr.lean_str(r) for r in rm[1]) + "]")
        else:
            L.append(f"def {which}_roll_memo : Memo := {{ guarded := true, stored := true }}")
            L.append(f"def {which}_roll_memo_reads : List String := [\"<untranslatable>\"]")
        rch = C["roll_chain"].get(which)
        L.append(f"/-- `reevaluate_cache` along the MRO of `{cls}.Roll` (classes that define it, most derived first) -/")
        L.append(f"def {which}_roll_reevaluate : List (String × List ROp) := " + (chain(rch) if rch is not None else "[]"))
        L.append(f"/-- the classes of the {which}-roll pass as the model `OutCS.Cache` takes them -/")
        L.append(f"def {which}_pass : Pass := {{ memo := {which}_memo, rollMemo := {which}_roll_memo, chain := {which}_reevaluate.map Prod.snd, "
                 f"rollChain := {which}_roll_reevaluate.map Prod.snd }}")
        L.append("")
    rp = C["roll_points"]
    L.append(f"/-- pyroll/core/{ROLL_HOOKIMPLS}: the implementations of the roll's hook `contour_points` (source order; function, what it "
             f"returns of the roll) -/")
    if rp is not None:
        L.append("def roll_contour_points : List (String × String) := [" + ", ".join(
            f"({pyexpr.lean_str(f)}, {pyexpr.lean_str(r)})" for (f, r, _) in rp) + "]")
    else:
        L.append("def roll_contour_points : List (String × String) := [(\"<untranslatable>\", \"<untranslatable>\")]")
    L.append("")
    if C["loop"] is not None:
        L.append(f"/-- pyroll/core/unit/unit.py:{C['loop'][2]} `Unit.solve`: the calls of the solution loop's body in source order -/")
        L.append("def solve_loop : List LStep := [" + ", ".join("." + o for o in C["loop"][0]) + "]")
        L.append(f"def solve_init_first : Bool := {'true' if C['loop'][1] else 'false'}")
    else:
        L.append("def solve_loop : List LStep := []")
        L.append("def solve_init_first : Bool := false")
    if C["init"] is not None:
        L.append(f"/-- pyroll/core/roll_pass/base.py:{C['init'][1]} `BaseRollPass.init_solve` statement by statement -/")
        L.append("def init_solve_ops : List IOp := [" + ", ".join("." + o for o in C["init"][0]) + "]")
    else:
        L.append("def init_solve_ops : List IOp := []")
    L += ["", "end Gen.C08"]
    changed = pyexpr.write_if_changed(os.path.join(LEAN_DIR, "PyrollModel", "Gen", "C08Cache.lean"), "\n".join(L) + "\n")
    ctx.notes.setdefault("generated", {})["Gen/C08Cache.lean"] = {
        "memo": {w: m[0] for w, m in C["memo"].items()}, "chain": {w: [(k, o) for (k, o, _) in c] for w, c in C["chain"].items()},
        "roll_memo": {w: (m[3], m[0], m[1]) for w, m in C["roll_memo"].items()},
        "roll_chain": {w: [(k, o) for (k, o, _) in c] for w, c in C["roll_chain"].items()},
        "roll_contour_points": [(f, r) for (f, r, _) in rp] if rp else None,
        "loop": C["loop"][0] if C["loop"] else None, "init": C["init"][0] if C["init"] else None, "rewritten": changed}


def _missing_term():
    return ("src", "rollContour")


def translate(ctx):
    ctx.found = gen.emit_impl_module(ctx, ID, SELECTION)
    T = scan(ctx.tie_breaks.append)
    ctx.c08 = T
    emit_cache(ctx, T["cache"])
    L = ["import PyrollModel.OutCS",
         "/- GENERATED by driver/translate/c08_outcs.py from /repo's working tree on every run - do not edit. -/",
         "namespace Gen.C08", "open OutCS", ""]
    bad = '(.translate (.src .rollContour) (.var "<untranslatable>") (.var "<untranslatable>"))'
    for which, (rel, cls, n) in CONTOURS.items():
        if which in T["lines"]:
            lines, lineno, _, _ = T["lines"][which]
            for i, (pyname, term) in enumerate(lines):
                L.append(f"/-- pyroll/core/{rel}:{lineno} `{cls}.contour_lines`, geoms[{i}] (python variable `{pyname}`) -/")
                L.append(f"def {which}_line{i} : GT :=\n    {oc.lean_term(term)}")
            L.append(f"/-- the coordinates of `{cls}.contour_lines` in order: `np.concatenate([cl.coords for cl in rp.contour_lines.geoms])` -/")
            L.append(f"def {which}_lines : GT := " + oc.lean_term(oc._concat([("ref", f"{which}_line{i}") for i in range(len(lines))])))
        else:
            L.append(f"def {which}_lines : GT := {bad}")
        L.append("")
    for h in HELPER_NAMES:
        if h in T["helpers"]:
            lineno, ann = T["helper_info"][h]
            L.append(f"/-- pyroll/core/{HELPERS}:{lineno} `{h}(rp: {ann}, width)`; `lines` = the coordinates of `rp.contour_lines` -/")
            L.append(f"def {h} (lines : GT) (width : Expr) : GT :=\n    {oc.lean_term(T['helpers'][h])}")
        else:
            L.append(f"def {h} (lines : GT) (width : Expr) : GT := {bad}")
        L.append("")
    progs = {}
    for (info, res) in T["hooks"]:
        name = info["fn"]
        L.append(f"/-- `{info['fn']}` on `{info['host']}.{info['hook']}`" + (f" (line {res.lineno})" if res else "") + " -/")
        if res is None:
            L.append(f"def {name} (lines : GT) : Prog := {{ meas := [], checks := [], result := {bad} }}")
        else:
            L.append(f"def {name} (lines : GT) : Prog :=\n    {oc.lean_prog(res)}")
        progs[name] = res
        L.append("")
    # which implementation answers on which pass class (resolution order of Hook.functions)
    T["resolved"] = {}
    for which in ("two", "three"):
        for hook, suffix, lean in (("cross_section", ".OutProfile", "cross_section"), ("usable_cross_section", "", "usable_cs"),
                                   ("tip_cross_section", "", "tip_cs")):
            fn = _first_impl(T["hooks"], hook, which, suffix)
            T["resolved"][(which, hook)] = fn
            if fn is None:
                ctx.tie_breaks.append(f"translator: no implementation of {hook} found for the {which}-roll pass")
                L.append(f"def {which}_{lean} : Prog := {{ meas := [], checks := [], result := {bad} }}")
            else:
                L.append(f"/-- `{PASS_MRO[which][0]}{suffix}.{hook}` is answered by `{fn}` -/")
                L.append(f"def {which}_{lean} : Prog := {fn} {which}_lines")
        L.append("")
    if T["seed"] is not None:
        seeds, lineno, on_creation = T["seed"]
        L.append(f"/-- pyroll/core/roll_pass/base.py:{lineno} `BaseRollPass.init_solve`: (target, value, after `super().init_solve`) -/")
        L.append("def init_solve_seed : List (String × String × Bool) := [" + ", ".join(
            f"({pyexpr.lean_str(t)}, {pyexpr.lean_str(v)}, {'true' if s else 'false'})" for (t, v, s) in seeds) + "]")
        L.append("/-- the seed is assigned only when the out profile is CREATED by this `init_solve` (`created = not self.out_profile` "
                 "before the super call, `if created:` around the assignment); `false`: on every solve -/")
        L.append(f"def init_solve_seed_on_creation : Bool := {'true' if on_creation else 'false'}")
    else:
        L.append("def init_solve_seed : List (String × String × Bool) := []")
        L.append("def init_solve_seed_on_creation : Bool := false")
    if T["refine"] is not None:
        L.append(f"/-- pyroll/core/{PP}:{T['refine'][1]} `refine_cross_section` returns its argument or `argument.segmentize(...)` -/")
        L.append("def refine_returns : List String := [" + ", ".join(pyexpr.lean_str(k) for k in T["refine"][0]) + "]")
    else:
        L.append("def refine_returns : List String := [\"<untranslatable>\"]")
    L.append("")
    for tag, given in FG_SCENARIOS:
        r = T["fg"].get(tag)
        L.append(f"/-- `Profile.from_groove(groove, {', '.join(g + '=' + g for g in given)})`" + (f" (pyroll/core/{PP}:{r.lineno})" if r else "") + " -/")
        if r is None:
            L.append(f"def from_groove_{tag} : Prog := {{ meas := [], checks := [], result := {bad} }}")
        else:
            L.append(f"def from_groove_{tag} : Prog :=\n    {oc.lean_prog(r)}")
            for loc in ("width", "gap"):
                if loc in r.scalars:
                    L.append(f"/-- the local `{loc}` on that path -/")
                    L.append(f"def from_groove_{tag}_{loc} : Expr := {pyexpr.lean_expr(r.scalars[loc])}")
        L.append("")
    L.append("/-- what `from_groove` does for other combinations of given arguments -/")
    L.append("def from_groove_rejects : List (List String × String) := [" + ", ".join(
        "([" + ", ".join(pyexpr.lean_str(g) for g in given) + "], " + pyexpr.lean_str(T["fg_bad"][given]) + ")"
        for given in FG_BAD) + "]")
    L.append("")
    L.append("end Gen.C08")
    changed = pyexpr.write_if_changed(os.path.join(LEAN_DIR, "PyrollModel", "Gen", "C08Geom.lean"), "\n".join(L) + "\n")
    ctx.notes.setdefault("generated", {})["Gen/C08Geom.lean"] = {
        "hooks": [i["fn"] for (i, _) in T["hooks"]], "helpers": sorted(T["helpers"]), "from_groove": sorted(T["fg"]),
        "rewritten": changed}


# --------------------------------------------------------------------------------------------------------------
# generators
# --------------------------------------------------------------------------------------------------------------
RULE = ("every groove class (20 parametric classes from a catalogue of feasible parameter sets, lengths scaled log-uniformly, one "
        "parameter jittered; two rolls: SplineGroove with random mirror symmetric polylines (12 %) and SKEW SplineGrooves "
        "(12 %, 25 % of the grooves mounted in a remount history: the deepest point off the middle, a steep and a shallow "
        "flank - random polylines of 3..9 vertices, a quarter of them undercut on one side, or the contour of a catalogue "
        "groove warped by t -> t + a (1 - t^2), |a| = 0.12..0.45; usable width = the extent or 60..97 % of it) x pad angle matching the roll count "
        "(0 deg two rolls, 30 deg three) x gap log-uniform 1e-3..0.5 of the groove width (two rolls: also exactly 0) x incoming "
        "profile (round / box / diamond / square, taller than the pass) x prescribed width of the out profile given by a width "
        "hook on a throw-away pass subclass: default (no width model), under-filled, exactly the usable width, into the face "
        "padding, exactly the contour extent, within 1 % over (incl. just below 1.01), just above 1.01, well beyond; plus a "
        "malformed stream (0, negative, nan, inf); a hair (rel. 1e-7..6e-3) below/above the usable width and below the extent. "
        "Every case is a REAL `solve` of the pass. On top of ~20 % of the cases (45 % of the default-width ones) a SCENARIO = "
        "steps on one pass instance: `config` (explicit informational targets target_filling_ratio / target_width / "
        "target_cross_section_filling_ratio, iteration_precision 1e-6..3e-2, max_iteration_count, orientation; gap given as "
        "height or inscribed circle diameter; contour_lines / usable_cross_section / height / gap / usable_width read before "
        "solve), `sprung` (the gap is a hook: unloaded gap + compliance x roll force of the previous iteration, opening or "
        "closing by 0.1..50 %), `regap` (instance created at another gap, looked at and/or solved there, gap or height set, "
        "solved again), `remount` (solved or only looked at, then ANOTHER groove - any class of comparable size, or the same "
        "one re-turned with one dimension altered - is mounted by `rp.roll.groove = ...` (70 %) or on a new roll object, the gap "
        "left alone (75 %; given explicitly, as height, or by a logging gap hook of a rigid stand) or set as well, a width "
        "prescribed anew, solved again; 25 %: the first groove mounted back and solved a third time); judged at the gap the "
        "pass reports and with the groove mounted at the end. non-trivial = a width is prescribed or gap > 0; distinct by "
        "(class, rounded parameters, gap, width/capacity, in-profile kind[, steps]).")
ASSUMPTIONS = [
    "shapely/GEOS: Polygon / clip_by_rect / segmentize / is_valid are parameters of the term language (the term-level theorem "
    "holds for every interpretation); the vertex-list interpretation (half-plane clips walking along the ring) is validated "
    "against GEOS on every case whose intermediate results are single polygons and is exact only when the clipped region is "
    "connected (z-monotone contours); containment is a theorem for the vertices / edges of the clipped z-monotone chain only",
    "GEOS validity (`is_valid`) is an uninterpreted predicate of the model; its value is observed, not derived",
    "roll.contour_line and groove.contour_line have the same coordinates (C10 territory; checked on every case)",
    "IEEE rounding: theorems are over the reals; geometric comparisons use 1e-9 of the opening's size",
    "three rolls with gap exactly 0 are not generated: the usable cross-section raises there (known finding of C09)",
    "memo/solution-loop model (part E): the pass's memo (`_contour_lines`) and two of its cached hooks (gap, "
    "usable_cross_section), the roll's memo (`_contour_line`) and its cached hook contour_points; that the gap enters the hook "
    "cache before the usable cross-section is an assumption of `recompute`, validated by K (e) on every sprung / rigid-spring "
    "scenario; WHAT the gap hook answers is an input of the model (an implementation that derives the gap from a stale memo "
    "gives a wrong input, see notes/C08.md finding 2); the other cached hooks and convergence of the loop are not modelled",
    "clause `symmetry`: 'the symmetry of the pass' is read as: two rolls - the half turn about the rolling axis (both rolls "
    "are the same roll, the lower one is the upper one turned by 180 degrees; for a skew groove this is the only symmetry), "
    "three rolls - the turn by 120 degrees; a groove that is mirror symmetric about its centre line adds the mirror image at "
    "the vertical axis (`*-mirror-symmetry`)",
    "clause `two-not-contained-in-roll-contours`: 'the opening formed by the roll contours at the set gap' of a two-roll pass is "
    "also built from the groove alone (contour lifted by gap / 2, the same contour turned by 180 degrees), independently of "
    "what `contour_lines` of any pass returns",
    "scenario clause `used-pass-raises`: 'for a given groove, gap and width it is the same shape' is also read as: a pass object "
    "that was used before does not raise from the cross-section code where a pass given the identical final set-up at "
    "construction solves",
    "scenario clause `differs-from-fresh-pass`: 'for a given groove, gap and width it is the same shape' is read as: the shape "
    "does not depend on how the pass instance was configured or used before (compared with a first solve of a fresh pass "
    "that is given the reported gap and the same width directly)",
]

CATALOGUE = {
    "BoxGroove": dict(depth=52, r1=15, r2=18, usable_width=185.29, ground_width=157.62),
    "CircularOvalGroove": dict(depth=5.05, r1=7, r2=33),
    "ConstrictedBoxGroove": dict(depth=52, r1=15, r2=18, r4=10, usable_width=185.29, ground_width=157.62, indent=10),
    "ConstrictedCircularOvalGroove": dict(depth=17, r1=3, r2=30, r3=5, r4=20, indent=3, usable_width=56.70672071),
    "ConstrictedSwedishOvalGroove": dict(depth=18, r1=5, r2=10, r4=5, usable_width=78, ground_width=60, indent=3),
    "ConstrictedUpsetBoxGroove": dict(depth=30, r1=5, r2=3, usable_width=20, ground_width=9.42038116, indent=0.5, r4=1),
    "DiamondGroove": dict(r1=5, r2=8, usable_width=40, tip_depth=11.54700538),
    "EquivalentRibbedGroove": dict(r1=0.2, r3=3.45, rib_distance=8.4, rib_width=1.6, rib_angle=45, base_body_height=11.78,
                                   nominal_outer_diameter=14, usable_width=13.6788, depth=5.5091),
    "FalseRoundGroove": dict(depth=31.8646, r1=5, r2=38, flank_angle=65),
    "FlatGroove": dict(usable_width=100, r1=20),
    "FlatOvalGroove": dict(depth=20, r1=5, r2=20, usable_width=60),
    "GothicGroove": dict(depth=20, r1=3, r2=40, r3=2, usable_width=40),
    "HexagonalGroove": dict(depth=7.66025404, r1=3, r2=1, usable_width=18.84529946, ground_width=10),
    "Oval3RadiiFlankedGroove": dict(depth=41.1, r1=6, r2=23.5, r3=183, usable_width=74.2506498 * 2, flank_angle=90 - 16.697244),
    "Oval3RadiiGroove": dict(depth=28.5, r1=10, r2=30, r3=170, usable_width=62.30907983 * 2),
    "RoundGroove": dict(depth=15.55, r1=2, r2=15.8),
    "SquareGroove": dict(r1=5, r2=3, usable_width=30, tip_depth=14.74045895),
    "SwedishOvalGroove": dict(depth=20, r1=8, r2=10, usable_width=100, ground_width=40),
    "UpsetBoxGroove": dict(depth=30, r1=5, r2=3, usable_width=20, ground_width=9.42038116),
    "UpsetOvalGroove": dict(depth=23.3303, r1=3, r2=30, r3=5, usable_width=26.2495),
}
ANGLES = {"flank_angle", "tip_angle", "rib_angle", "pad_angle"}
JITTER = {"depth", "r2", "usable_width", "tip_depth", "r1"}
PAD = {"two": 0, "three": 30}
TURN = {"two": 180, "three": 120}
WIDTH_KINDS = ["default", "under", "usable", "pad", "extent", "over-lt-1pc", "over-just-below", "over-just-above", "beyond",
               # a hair off the two widths at which the construction changes character (the usable width: groove edge / face;
               # the extent: end of the face): relative distance log-uniform 1e-7..6e-3, i.e. from just above the comparison
               # tolerance to beyond every iteration precision / snapping distance a pass can reasonably carry
               "near-usable-below", "near-usable-above", "near-extent-below"]
# kinds whose classification does not depend on the gap of a two-roll pass and stays clear of the 1 % band: usable when the
# gap of the pass is not known beforehand (gap given by a hook that settles during the solution)
SAFE_KINDS = ["default", "under", "usable", "near-usable-below", "near-usable-above"]

# SKEW grooves (not mirror symmetric about their centre line: a steep and a shallow flank, the deepest point off the
# middle), as a SplineGroove read from a drawing gives them.  A two-roll pass on such a groove is point symmetric and nothing
# else; every mirror symmetric groove hides the difference between "the lower roll is the upper roll turned by 180 degrees"
# and "the lower contour is the upper one mirrored at the pass line".  (desc, gap / usable width, width kinds)
SKEW_A = {"cls": "SplineGroove", "shape": "skew-polyline", "usable_width": 30.0,
          "points": [[-20.0, 0.0], [-16.0, 9.0], [-9.0, 12.0], [4.0, 8.0], [13.0, 3.0], [20.0, 0.0]]}
SKEW_B = {"cls": "SplineGroove", "shape": "skew-smooth",
          "points": [[0.03 * (t + 0.3 * (1 - t * t)), 0.012 * (1 - t * t)] for t in [-1 + i / 20 for i in range(41)]]}
SKEW_CORPUS = [
    (SKEW_A, 0.05, ["under", "usable", "pad", "extent", "default"]),
    (SKEW_B, 0.1, ["default", "under", "near-usable-below"]),
    (SKEW_A, 0.0, ["under", "default"]),
]
SKEW_SCENARIO_CORPUS = [
    (SKEW_A, 0.06, "default", "config"),
    (SKEW_B, 0.05, "under", "sprung"),
    (SKEW_A, 0.04, "usable", "regap"),
    (SKEW_B, 0.06, "default", "remount"),
]


# past failures first (see notes/C08.md): (which, class, kwargs, gap / usable width, width kind)
CORPUS = [
    ("two", "CircularOvalGroove", dict(depth=5.05, r1=7, r2=33), 0.0, "pad"),          # closed gap, over-filled: finding 1
    ("two", "CircularOvalGroove", dict(depth=5.05, r1=7, r2=33), 0.0, "over-lt-1pc"),
    ("two", "FlatGroove", dict(usable_width=100, r1=20), 0.02, "pad"),
    ("two", "CircularOvalGroove", dict(depth=5.05, r1=7, r2=33), 0.0567, "over-just-above"),
    ("three", "RoundGroove", dict(depth=15.55, r1=2, r2=15.8), 0.02, "over-just-above"),
    ("three", "UpsetBoxGroove", dict(depth=30, r1=5, r2=3, usable_width=20, ground_width=9.42038116), 0.05, "pad"),
    ("two", "ConstrictedBoxGroove", dict(depth=52, r1=15, r2=18, r4=10, usable_width=185.29, ground_width=157.62, indent=10), 0.01, "under"),
    ("two", "BoxGroove", dict(depth=52, r1=15, r2=18, usable_width=185.29, ground_width=157.62), 0.05, "near-usable-below"),
    ("two", "RoundGroove", dict(depth=15.55, r1=2, r2=15.8), 0.1, "near-usable-above"),
]


# kinds of USE under which the statement failed for a changed library although every plain case passed (notes/C08.md,
# "Seeded changes"): (which, class, kwargs, gap / usable width, width kind, scenario)
SCENARIO_CORPUS = [
    ("two", "CircularOvalGroove", dict(depth=5.05, r1=7, r2=33), 0.06, "default", "remount"),
    ("three", "RoundGroove", dict(depth=15.55, r1=2, r2=15.8), 0.04, "usable", "remount"),
    ("two", "CircularOvalGroove", dict(depth=5.05, r1=7, r2=33), 0.05, "default", "config"),
    ("three", "RoundGroove", dict(depth=15.55, r1=2, r2=15.8), 0.05, "default", "config"),
    ("two", "RoundGroove", dict(depth=15.55, r1=2, r2=15.8), 0.06, "default", "sprung"),
    ("three", "CircularOvalGroove", dict(depth=5.05, r1=7, r2=33), 0.04, "under", "sprung"),
    ("two", "BoxGroove", dict(depth=52, r1=15, r2=18, usable_width=185.29, ground_width=157.62), 0.05, "near-usable-above", "regap"),
]


# whole histories of one pass object on which the statement failed (notes/C08.md, finding 2): replayed as they are
HISTORY_CORPUS = [
    {'pass': 'three',
     'groove': {'cls': 'GothicGroove',
                'kwargs': {'depth': 0.09261004521279438,
                           'r1': 0.013891506781919156,
                           'r2': 0.18522009042558876,
                           'r3': 0.009261004521279438,
                           'usable_width': 0.18522009042558876,
                           'pad_angle': 30}},
     'scenario': 'remount',
     'steps': [{'op': 'new',
                'given': {'height': 0.2956073683589967},
                'width': 0.3184009447394561,
                'kwargs': {'target_filling_ratio': 0.8295267903113822, 'target_width': 0.1791223345734096, 'orientation': 90}},
               {'op': 'solve'},
               {'op': 'mount',
                'groove': {'cls': 'Oval3RadiiFlankedGroove',
                           'kwargs': {'depth': 0.07169016834912299,
                                      'r1': 0.01046571800717124,
                                      'r2': 0.04099072886142069,
                                      'r3': 0.3192043992187228,
                                      'usable_width': 0.25902878755200853,
                                      'flank_angle': 73.302756,
                                      'pad_angle': 30}},
                'how': 'groove'},
               {'op': 'set', 'attr': 'c08_width', 'value': 0.2994474856795818, 'width_kind': 'near-usable-below'},
               {'op': 'solve'}],
     'width_kind': 'extent',
     'in_profile': 'diamond',
     'in_height': 0.3221087485108658},
    {'pass': 'three',
     'groove': {'cls': 'ConstrictedUpsetBoxGroove',
                'kwargs': {'depth': 0.06322881477040855,
                           'r1': 0.010538135795068092,
                           'r2': 0.0063228814770408545,
                           'usable_width': 0.041825075247167456,
                           'ground_width': 0.019854651181076214,
                           'indent': 0.001053813579506809,
                           'r4': 0.002107627159013618,
                           'pad_angle': 30}},
     'scenario': 'remount',
     'steps': [{'op': 'new', 'given': {'height': 0.1551875511725329}, 'width': None, 'kwargs': {}},
               {'op': 'solve'},
               {'op': 'mount',
                'groove': {'cls': 'FlatGroove',
                           'kwargs': {'usable_width': 0.04990499930684187, 'r1': 0.009980999861368375, 'pad_angle': 30}},
                'how': 'groove'},
               {'op': 'solve'}],
     'width_kind': 'default',
     'in_profile': 'round',
     'in_height': 0.18622506140703948},
    # a skew groove mounted on a two-roll pass that was solved with a mirror symmetric one, the gap left alone, and back
    {'pass': 'two',
     'groove': {'cls': 'CircularOvalGroove', 'kwargs': {'depth': 5.05, 'r1': 7, 'r2': 33, 'pad_angle': 0}},
     'scenario': 'remount',
     'steps': [{'op': 'new', 'gap': 2.0, 'width': None, 'kwargs': {}},
               {'op': 'solve'},
               {'op': 'mount', 'groove': SKEW_A, 'how': 'groove'},
               {'op': 'set', 'attr': 'c08_width', 'value': 27.0, 'width_kind': 'under'},
               {'op': 'solve'}],
     'width_kind': 'default',
     'in_profile': 'round',
     'in_height': 32.0},
    {'pass': 'two',
     'groove': SKEW_A,
     'scenario': 'remount',
     'steps': [{'op': 'new', 'gap': 1.5, 'width': 33.0, 'kwargs': {}},
               {'op': 'read', 'attr': 'contour_lines'},
               {'op': 'mount', 'groove': {'cls': 'SplineGroove', 'shape': 'skew-polyline', 'usable_width': 30.0,
                                          'points': [[20.0, 0.0], [16.0, 9.0], [9.0, 12.0], [-4.0, 8.0], [-13.0, 3.0], [-20.0, 0.0]][::-1]},
                'how': 'roll'},
               {'op': 'solve'}],
     'width_kind': 'pad',
     'in_profile': 'square',
     'in_height': 33.0},
]


def _build_groove(desc):
    import pyroll.core as pc
    if desc["cls"] == "SplineGroove":
        return pc.SplineGroove(desc["points"], classifiers=("spline",), usable_width=desc.get("usable_width"))
    return getattr(pc, desc["cls"])(**desc["kwargs"])


def _label(desc):
    """class name, for spline grooves with the way the polyline was made (`shape`)"""
    return desc["cls"] + (":" + desc["shape"] if desc.get("shape") else "")


def _skew_polyline(rng, s):
    """a SKEW contour: faces at y = 0, the deepest point off the middle (one flank steep, the other shallow), 0..3 further
    vertices on either flank (rising towards the deepest point, or at arbitrary heights), abscissae strictly increasing;
    25 %: one flank undercut (the contour bulges beyond its end on ONE side: not z-monotone); 30 %: with pieces of the
    faces at both ends (SplineGroove strips them) -> list of points"""
    w, d = s * rng.uniform(10, 80), s * rng.uniform(2, 40)
    hw = w / 2
    xd = hw * rng.uniform(0.15, 0.8) * rng.choice([-1, 1])

    def flank(x0, n):
        """n vertices between the end of the face (x0, 0) and the deepest point (xd, d), in this order"""
        rising = rng.random() < 0.6
        p = rng.uniform(0.4, 1.0)
        return [(x0 + (xd - x0) * t, d * (t ** p if rising else rng.uniform(0.05, 1.0)))
                for t in sorted(rng.uniform(0.05, 0.95) for _ in range(n))]
    left, right = flank(-hw, rng.randrange(0, 4)), flank(hw, rng.randrange(0, 4))[::-1]
    pts = [(-hw, 0.0)] + left + [(xd, d)] + right + [(hw, 0.0)]
    if rng.random() < 0.25:
        bulge = (hw * rng.uniform(1.02, 1.3), d * rng.uniform(0.1, 0.5))
        if rng.random() < 0.5:
            pts.insert(-1, bulge)
        else:
            pts.insert(1, (-bulge[0], bulge[1]))
    if rng.random() < 0.3:
        pad = w * rng.uniform(0.05, 0.4)
        pts = [(min(x for x, _ in pts) - pad, 0.0)] + pts + [(max(x for x, _ in pts) + pad, 0.0)]
    return pts


def _skew_warped(rng, s):
    """the contour of a catalogue groove (two rolls: horizontal faces) between its edges, its abscissae warped by the
    monotone map t -> t + a (1 - t^2) on [-1, 1] (a = +-0.12..0.45): the ends stay, the middle moves by a x half width -
    a smooth contour of many vertices with a steep and a shallow flank, as a drawing gives it -> (points, usable width) | None"""
    import numpy as np
    import warnings
    cls = rng.choice(sorted(CATALOGUE))
    kw = {k: (v if k in ANGLES else v * s) for k, v in CATALOGUE[cls].items()}
    kw["pad_angle"] = 0
    try:
        with warnings.catch_warnings():
            warnings.simplefilter("ignore")
            g = _build_groove({"cls": cls, "kwargs": kw})
    except Exception:
        return None
    c = np.array(g.contour_line.coords)
    inner = np.flatnonzero(c[:, 1] > 1e-9 * float(np.ptp(c, axis=0).max()))
    if inner.size == 0 or inner[0] == 0 or inner[-1] == len(c) - 1:
        return None                                  # no groove between the faces (FlatGroove)
    c = c[inner[0] - 1: inner[-1] + 2]
    hw, mid = (c[-1, 0] - c[0, 0]) / 2, (c[-1, 0] + c[0, 0]) / 2
    t = (c[:, 0] - mid) / hw
    a = rng.uniform(0.12, 0.45) * rng.choice([-1, 1])
    x = mid + hw * (t + a * (1 - t * t))
    pts = [(float(xx), float(yy)) for xx, yy in zip(x, c[:, 1])]
    pts[0], pts[-1] = (pts[0][0], 0.0), (pts[-1][0], 0.0)
    return cls, pts, min(float(g.usable_width), 2 * float(hw))


def _random_groove(rng, which, ctx, scale=None, skew_p=0.12):
    """-> (desc, groove) ; desc is JSON-able and sufficient to rebuild the groove; `scale` = factor applied to the lengths
    of the catalogue's parameter set (default: log-uniform 1e-3..1); `skew_p` = share of SKEW spline grooves (two rolls)"""
    import warnings
    s = 10 ** rng.uniform(-3, 0) if scale is None else scale
    u = rng.random()
    desc = None
    if which == "two" and u < skew_p:
        # a groove that is NOT mirror symmetric about its centre line (a SplineGroove as read from a drawing): the pass is
        # still point symmetric (both rolls are the same roll, the lower one turned by 180 degrees), the out profile must be
        # the half-turn symmetric shape `Profile.from_groove` builds, not a mirror symmetric one
        r = _skew_warped(rng, s) if rng.random() < 0.4 else None
        shape, pts, uw0 = ("skew-" + r[0], r[1], r[2]) if r is not None else ("skew-polyline", _skew_polyline(rng, s), math.inf)
        desc = {"cls": "SplineGroove", "points": [list(p) for p in pts], "shape": shape}
        if rng.random() < 0.6:
            # the usable part ends on the flanks (the rest of the contour acts as the face padding); without it the usable
            # width is the extent SplineGroove finds
            try:
                with warnings.catch_warnings():
                    warnings.simplefilter("ignore")
                    desc["usable_width"] = min(float(_build_groove(desc).usable_width), uw0) * rng.uniform(0.6, 0.97)
            except Exception:
                pass
    elif which == "two" and u < skew_p + 0.12:
        # arbitrary mirror-symmetric polyline with horizontal faces (z-monotone, y not monotone)
        n = rng.randrange(2, 9)
        w, d = s * rng.uniform(10, 80), s * rng.uniform(2, 40)
        xs = sorted(rng.uniform(0, w / 2) for _ in range(n))
        ys = [d * rng.uniform(0.05, 1) for _ in range(n)]
        ys[0] = d if rng.random() < 0.7 else ys[0]
        half = [(x, y) for x, y in zip(xs, ys) if 0 < x < w / 2 * 0.999]
        pad = w * rng.uniform(0.05, 0.4)
        if rng.random() < 0.4:
            # undercut flank: the contour bulges beyond the face end and comes back (NOT z-monotone: outside the fragment
            # of the vertex-list theorems; term-level theorem, python-side correspondence and oracle still apply)
            half = half + [(w / 2 * rng.uniform(1.01, 1.0 + 1.6 * pad / w), d * rng.uniform(0.1, 0.5))]
        pts = [(-w / 2 - pad, 0.0), (-w / 2, 0.0)] + [(-x, y) for x, y in reversed(half)] + [(0.0, ys[0])] + half + \
              [(w / 2, 0.0), (w / 2 + pad, 0.0)]
        desc = {"cls": "SplineGroove", "points": [list(p) for p in pts]}
    else:
        cls = rng.choice(sorted(CATALOGUE))
        kw = dict(CATALOGUE[cls])
        if rng.random() < 0.6:
            k = rng.choice(sorted(set(kw) & JITTER))
            kw[k] = kw[k] * rng.uniform(0.97, 1.03)
        if cls == "FlatGroove" and rng.random() < 0.5:
            kw["r1"] = 0 if rng.random() < 0.5 else kw["r1"] * rng.uniform(0.1, 1)
        kw = {k: (v if k in ANGLES else v * s) for k, v in kw.items()}
        kw["pad_angle"] = PAD[which]
        desc = {"cls": cls, "kwargs": kw}
    try:
        with warnings.catch_warnings():
            warnings.simplefilter("ignore")
            return desc, _build_groove(desc)
    except Exception as ex:          # an infeasible parameter set: not a case
        ctx.count("groove-rejected:" + type(ex).__name__)
        return None


_PASS_CLASSES = {}


def _pass_class(which):
    """a throw-away subclass of the real pass class with two more hook implementations, both silent (None) unless the pass
    instance carries the attribute they look at: `OutProfile.width` = the prescribed width stored on the pass (None = no
    width model: the default answers); `gap` = a mill spring, unloaded gap + compliance x roll force of the PREVIOUS
    iteration (the roll force is a root hook: set on the pass at the end of every iteration), i.e. a gap that is not an input
    but settles during the solution.  Nothing is registered on pyroll's own classes."""
    if which not in _PASS_CLASSES:
        import pyroll.core as pc
        base = pc.TwoRollPass if which == "two" else pc.ThreeRollPass
        out = type("OutProfile", (base.OutProfile,), {})
        cls = type("C08" + base.__name__, (base,), {"OutProfile": out})

        def prescribed_width(self):
            return getattr(self.roll_pass, "c08_width", None)
        cls.OutProfile.width(prescribed_width)

        def sprung_gap(self):
            spring = self.__dict__.get("c08_spring")
            if spring is None:
                return None
            g = spring[0] + spring[1] * self.roll_force if self.has_set("roll_force") else spring[0]
            log = self.__dict__.get("c08_gap_log")
            if log is not None:
                log.append(float(g))
            return g
        cls.gap(sprung_gap)
        _PASS_CLASSES[which] = cls
    return _PASS_CLASSES[which]


def _make_roll(which, groove):
    import pyroll.core as pc
    uw = float(groove.usable_width)
    extra = {}
    if which == "three":
        # the three-roll contact area goes through the contact-line machinery, which fails for under-filled passes
        # (EmptyPartError); it is no part of this property, so the value is supplied
        extra["contact_area"] = uw * uw
    return pc.Roll(groove=groove, nominal_radius=10 * uw, rotational_frequency=1.0, neutral_point=0.0, **extra)


def _make_pass(which, groove, gap, width, kwargs=None, given=None):
    """`given` = how the roll gap is given: None -> `gap=gap`; {"height": h}; {"inscribed_circle_diameter": d} (three rolls);
    {"spring": [unloaded gap, compliance]} (the `sprung_gap` hook of the throw-away class); `kwargs` = further explicit
    hook values of the pass"""
    how = {"gap": gap} if given is None else {k: v for k, v in given.items() if k != "spring"}
    rp = _pass_class(which)(roll=_make_roll(which, groove), velocity=1.0, **how, **(kwargs or {}))
    if given is not None and "spring" in given:
        rp.c08_spring = tuple(given["spring"])
        rp.c08_gap_log = []
    if width is not None:
        rp.c08_width = width
    return rp


def _in_profile(kind, h, uw):
    """an incoming profile that is taller than `h` in every orientation the pass's automatic rotator may turn it to"""
    import pyroll.core as pc
    base = dict(temperature=1200 + 273.15, strain=0, material=["C45", "steel"], flow_stress=100e6, length=1.0)
    if kind == "round":
        return pc.Profile.round(diameter=h, **base)
    if kind == "box":
        return pc.Profile.box(height=h, width=1.1 * h, corner_radius=0.05 * h, **base)
    if kind == "diamond":
        return pc.Profile.diamond(height=h, width=1.2 * h, corner_radius=0.05 * h, **base)
    return pc.Profile.square(side=h, corner_radius=0.02 * h, **base)


class _ImplRaised(Exception):
    pass


def _in_pyroll(ex):
    import traceback
    return any("/pyroll/" in f.filename for f in traceback.extract_tb(ex.__traceback__))


def _solve(rp, in_profile):
    """('ok', out profile) | ('raised', exception name, message) for exceptions raised from inside pyroll/shapely below
    pyroll; exceptions of the harness itself propagate"""
    import traceback
    try:
        return ("ok", rp.solve(in_profile))
    except Exception as ex:
        if _in_pyroll(ex):
            frames = traceback.extract_tb(ex.__traceback__)
            here = any(f.filename.endswith("roll_pass/hookimpls/helpers.py") or
                       (f.filename.endswith("roll_pass/hookimpls/profile.py") and f.name.startswith("cross_section"))
                       for f in frames)
            return ("raised", type(ex).__name__, str(ex)[:160], "cross_section" if here else "elsewhere")
        raise


# --------------------------------------------------------------------------------------------------------------
# python-side evaluation of the generated terms over REAL shapely (K, a)
# --------------------------------------------------------------------------------------------------------------
def _coords(v):
    import numpy as np
    return v if isinstance(v, np.ndarray) else np.array(v.coords)


def eval_term(t, srcs, env):
    """the meaning of a term when the signature is shapely itself, called exactly as the source calls it"""
    import numpy as np
    from shapely import Polygon, LineString, clip_by_rect
    from shapely.affinity import translate, rotate
    from shapely.affinity import scale as scale_
    from pyroll.core.profile.profile import refine_cross_section
    k = t[0]
    if k == "src":
        return srcs[t[1]]
    if k == "translate":
        return translate(eval_term(t[1], srcs, env), xoff=pyexpr.py_eval(t[2], env), yoff=pyexpr.py_eval(t[3], env))
    if k == "rotate":
        return rotate(eval_term(t[1], srcs, env), angle=pyexpr.py_eval(t[2], env), origin=(0, 0))
    if k == "scale":
        return scale_(eval_term(t[1], srcs, env), xfact=pyexpr.py_eval(t[2], env), yfact=pyexpr.py_eval(t[3], env), origin=(0, 0))
    if k == "reverse":
        return LineString(_coords(eval_term(t[1], srcs, env))[::-1])
    if k == "concat":
        return np.concatenate([_coords(eval_term(t[1], srcs, env)), _coords(eval_term(t[2], srcs, env))])
    if k == "polygon":
        return Polygon(_coords(eval_term(t[1], srcs, env)))
    if k == "clip":
        b = [(-math.inf if x == oc.NINF else math.inf if x == oc.PINF else pyexpr.py_eval(x[1], env)) for x in t[2:]]
        return clip_by_rect(eval_term(t[1], srcs, env), *b)
    if k == "refine":
        return refine_cross_section(eval_term(t[1], srcs, env))
    if k == "dedupe":
        from shapely import remove_repeated_points
        g = eval_term(t[1], srcs, env)
        return remove_repeated_points(g, tolerance=pyexpr.py_eval(t[2], env) * g.length)
    raise ValueError(t)


def _measure(g, kind):
    if kind == "width":
        return g.bounds[2] - g.bounds[0]
    if kind == "height":
        return g.bounds[3] - g.bounds[1]
    if kind == "centroid.x":
        return g.centroid.x
    if kind == "centroid.y":
        return g.centroid.y
    return g.bounds[kind[1]]


def eval_cond(c, srcs, env, menv):
    k = c[0]
    if k == "lt":
        return pyexpr.py_eval(c[1], menv) < pyexpr.py_eval(c[2], menv)
    if k == "le":
        return pyexpr.py_eval(c[1], menv) <= pyexpr.py_eval(c[2], menv)
    if k == "not":
        return not eval_cond(c[1], srcs, env, menv)
    if k == "and":
        return eval_cond(c[1], srcs, env, menv) and eval_cond(c[2], srcs, env, menv)
    if k == "or":
        return eval_cond(c[1], srcs, env, menv) or eval_cond(c[2], srcs, env, menv)
    if k == "invalid":
        return not eval_term(c[1], srcs, env).is_valid
    raise ValueError(c)


def eval_prog(T, res, lines_term, srcs, env):
    """-> ('ok', geometry, measurements) | ('raised', exc name, measurements)"""
    def full(t):
        return oc.subst(t, lines=lines_term, helpers=T["helpers"])
    menv = dict(env)
    for (v, g, kind) in res.meas:
        menv[v] = _measure(eval_term(full(g), srcs, env), kind)
    meas = {v: menv[v] for (v, _, _) in res.meas}
    for (c, exc, msg) in res.checks:
        if eval_cond(full(c), srcs, env, menv):
            return ("raised", exc, meas)
    return ("ok", eval_term(full(res.geom), srcs, env), meas)


def _observed_validity(T, res, lines_term, srcs, env):
    """GEOS's `is_valid` is a parameter of the vertex-list model: its value on the geometry the program tests (1.0 / 0.0)"""
    for (c, exc, msg) in res.checks:
        if c[0] == "invalid":
            try:
                g = eval_term(oc.subst(c[1], lines=lines_term, helpers=T["helpers"]), srcs, env)
                return 1.0 if g.is_valid else 0.0
            except Exception:
                return 0.0
    return 1.0


def _lines_term(T, which):
    return oc._concat([t for (_, t) in T["lines"][which][0]])


# --------------------------------------------------------------------------------------------------------------
# the oracle (from the property text, on really solved passes)
# --------------------------------------------------------------------------------------------------------------
def _opening(rp):
    """polygon spanned by the pass's contour lines, a valid version of it for containment tests, and what it can contain
    in the width direction (two rolls: z extent; three rolls: twice the reach towards the gap at 90 degrees)"""
    import numpy as np
    from shapely import Polygon, make_valid
    ring = np.concatenate([np.array(l.coords) for l in rp.contour_lines.geoms])
    raw = Polygon(ring)
    scale = float(np.abs(ring).max())
    if raw.is_valid:
        region = raw
    else:
        mv = make_valid(raw)
        region = mv
    polys = [g for g in getattr(region, "geoms", [region]) if g.geom_type == "Polygon" and g.area > 0]
    return raw, region, polys, scale


def _sd_area(a, b, size, limit):
    """area of the symmetric difference of two polygons.  GEOS's floating-point overlay is not robust for NEARLY IDENTICAL
    inputs (two triangles whose vertices differ in the last bit: intersection 0, union = both - thorough run, a three-roll
    section that is the bare triangle of the three clips): a value above `limit` is therefore computed once more on a fixed
    precision grid of 1e-12 x `size` (snap rounding, robust; a genuine difference of 1e-9 of the area is untouched by it) and
    the smaller of the two counts"""
    import shapely
    d = a.symmetric_difference(b).area
    if d > limit:
        try:
            d = min(d, shapely.symmetric_difference(a, b, grid_size=1e-12 * size).area)
        except shapely.errors.GEOSException:
            pass
    return d


def _ring_region(ring):
    """(polygon of the ring, a valid region for containment tests) - as `_opening` treats the pass's own lines"""
    from shapely import Polygon, make_valid
    raw = Polygon(ring)
    return raw, (raw if raw.is_valid else make_valid(raw))


def _roll_opening(groove, gap):
    """the opening of a TWO-roll pass written down from the statement, without asking the pass: the upper roll's contour is
    the groove's contour lifted by half the gap; the lower roll is the SAME roll (a two-roll pass has one roll object
    for both) turned by 180 degrees about the rolling axis, i.e. every contour point (z, y) of the upper roll appears as
    (-z, -y) - in the order of a closed ring.  -> valid region"""
    import numpy as np
    up = np.array(groove.contour_line.coords)[:, :2] + np.array([0.0, gap / 2])
    return _ring_region(np.concatenate([up, -up]))[1]


def _mirror_symmetric(groove, scale):
    """the groove's contour read backwards is the contour with z -> -z (up to rounding of the contour's own construction)"""
    import numpy as np
    c = np.array(groove.contour_line.coords)[:, :2]
    return bool(np.abs(c[::-1] * np.array([-1.0, 1.0]) - c).max() <= 1e-12 * scale)


def _capacity(which, polys):
    if not polys:
        return float("nan")
    if which == "two":
        return 2 * min(-min(p.bounds[0] for p in polys), max(p.bounds[2] for p in polys))
    return 2 * max(p.bounds[3] for p in polys)


def _reach(cs, ang):
    import numpy as np
    v = np.array(cs.exterior.coords)
    return float((v[:, 0] * math.cos(math.radians(ang)) + v[:, 1] * math.sin(math.radians(ang))).max())


def _from_groove(groove, **kw):
    import pyroll.core as pc
    try:
        return ("ok", pc.Profile.from_groove(groove, **kw).cross_section)
    except Exception as ex:
        if not _in_pyroll(ex):
            raise
        return ("raised", type(ex).__name__, str(ex)[:120])


def _oracle(ctx, which, groove, gap, rp, w, outcome, geo, fg, replay):
    """`w` = the prescribed width (None: no width model -> the usable width)."""
    from shapely.affinity import rotate
    raw, region, polys, scale = geo
    tol = 1e-9 * scale
    cap = _capacity(which, polys)
    closed = "-closed-gap" if gap == 0 else ""
    uw_pass = float(rp.usable_width)
    if which == "two" and abs(uw_pass - float(groove.usable_width)) > tol:
        ctx.violation("two-usable-width", f"usable width of the pass {uw_pass} is not the groove's {groove.usable_width}", replay)
    wexp = uw_pass if w is None else w
    if not (wexp > 0 and math.isfinite(wexp)):
        ctx.count("malformed:" + outcome[0])
        if outcome[0] == "ok":
            cs = outcome[1].cross_section
            if not cs.is_empty:
                ctx.violation(f"{which}-malformed-width-accepted", f"prescribed width {wexp}: a non-empty cross-section came back", replay)
        return
    r = wexp / cap
    ctx.count("ratio:" + ("<=1" if r <= 1 else "1..1.01" if r <= 1.01 else ">1.01"))
    if outcome[0] == "raised":
        ctx.count("raised:" + outcome[1])
        if outcome[3] != "cross_section":
            # raised by some other hook of the solution procedure (not by building the cross-section): no C08 matter
            ctx.count("solve-raised-elsewhere:" + outcome[1])
            return
        if r <= 1 - 1e-9:
            ctx.violation(f"{which}-feasible-width-raises{closed}", f"prescribed width {wexp} <= what the contours contain ({cap}) "
                          f"but solving raised {outcome[1]}: {outcome[2]}", replay)
        elif r > 1.01 * (1 + 1e-9) and outcome[1] != "ValueError":
            ctx.violation(f"{which}-overwidth-wrong-error", f"over-wide profile reported as {outcome[1]}: {outcome[2]}", replay)
        if fg is not None and fg[0] == "ok" and r > 1 + 1e-9:
            ctx.violation("two-from-groove-accepts-pass-raises", f"width {wexp}, gap {gap}: the pass raises {outcome[1]}, "
                          f"from_groove builds a profile", replay)
        return
    out = outcome[1]
    cs = out.cross_section
    if r > 1.01 * (1 + 1e-9):
        ctx.violation(f"{which}-overwidth-accepted{closed}", f"prescribed width {wexp} is {r:.6f} x what the contours can contain "
                      f"({cap}); no error, profile of bounds width {cs.bounds[2] - cs.bounds[0] if not cs.is_empty else None} "
                      f"(valid={cs.is_valid})", replay)
        return
    if cs.geom_type != "Polygon" or cs.is_empty or not cs.is_valid:
        ctx.violation(f"{which}-out-cs-invalid{closed}", f"the outgoing cross-section is a {cs.geom_type} empty={cs.is_empty} "
                      f"valid={cs.is_valid}", replay)
        return
    # 0. the prescribed width is what the pass reports for its out profile (`out_profile.width`, `filling_ratio`)
    rpw, rfr = float(rp.out_profile.width), float(rp.out_profile.filling_ratio)
    if abs(rpw - wexp) > 10 * tol:
        ctx.violation(f"{which}-pass-reports-other-width", f"roll_pass.out_profile.width is {rpw}, prescribed "
                      f"{'nothing (usable width ' + str(uw_pass) + ')' if w is None else wexp}", replay)
    elif abs(rfr * uw_pass - wexp) > 10 * tol:
        ctx.violation(f"{which}-filling-ratio", f"roll_pass.out_profile.filling_ratio is {rfr}: not width / usable width = "
                      f"{wexp} / {uw_pass}", replay)
    # 1. within the opening
    if not region.buffer(tol).contains(cs):
        ctx.violation(f"{which}-not-contained{closed}", f"outgoing cross-section reaches outside the opening by area "
                      f"{cs.difference(region.buffer(tol)).area}", replay)
    if which == "two":
        # ... and within the opening as the STATEMENT describes it (the groove's contour at half the gap above the pass
        # line and the same roll turned by 180 degrees below it), whatever `contour_lines` of a pass says
        own = _roll_opening(groove, gap).buffer(tol)
        if not own.contains(cs):
            ctx.violation(f"two-not-contained-in-roll-contours{closed}", f"outgoing cross-section reaches outside the roll "
                          f"contours (groove contour lifted by gap / 2 and the same roll turned by 180 degrees) by area "
                          f"{cs.difference(own).area} of {cs.area}", replay)
    # 2. exactly the prescribed width (within 1 % over the contours: what they contain)
    weff = min(wexp, cap)
    if which == "two":
        got = (cs.bounds[0], cs.bounds[2])
        if abs(got[0] + weff / 2) > tol or abs(got[1] - weff / 2) > tol:
            ctx.violation(f"two-width{closed}", f"prescribed width {wexp} (contours contain {cap}): cross-section spans {got}", replay)
    else:
        for ang in (90, 210, 330):
            e = _reach(cs, ang)
            if abs(e - weff / 2) > tol:
                ctx.violation("three-width", f"prescribed width {wexp} (contours contain {cap}): cross-section reaches {e} towards "
                              f"the gap at {ang} degrees", replay)
                break
    pw = float(out.width)
    if abs(pw - weff) > 10 * tol:
        ctx.violation(f"{which}-profile-width", f"the returned profile reports width {pw}, prescribed {wexp} (contours contain {cap})", replay)
    if w is None and abs((cs.bounds[2] - cs.bounds[0] if which == "two" else 2 * _reach(cs, 90)) - uw_pass) > tol:
        ctx.violation(f"{which}-default-width", f"no width prescribed: cross-section width is not the usable width {uw_pass}", replay)
    # 3. symmetry of the pass
    sd = _sd_area(cs, rotate(cs, TURN[which], origin=(0, 0)), scale, 1e-9 * cs.area)
    if sd > 1e-9 * cs.area:
        ctx.violation(f"{which}-symmetry", f"cross-section differs from its image under the {TURN[which]} degree turn by area {sd} "
                      f"of {cs.area}", replay)
    if _mirror_symmetric(groove, scale):
        # a groove that is mirror symmetric about its centre line makes the pass mirror symmetric about the vertical axis
        # as well (two rolls: and about the pass line); for a skew groove the turn above is the ONLY symmetry of the pass
        ctx.count("symmetry:mirror-checked")
        from shapely.affinity import scale as scale_
        sd = _sd_area(cs, scale_(cs, xfact=-1, origin=(0, 0)), scale, 1e-9 * cs.area)
        if sd > 1e-9 * cs.area:
            ctx.violation(f"{which}-mirror-symmetry", f"mirror symmetric groove: cross-section differs from its mirror image at "
                          f"the vertical axis by area {sd} of {cs.area}", replay)
    else:
        ctx.count("symmetry:turn-only(skew groove)")
    # 4. the same shape as the constructor builds
    if fg is not None:
        if fg[0] == "raised":
            ctx.violation(f"two-from-groove-raises-pass-accepts{closed}", f"width {wexp}, gap {gap}: from_groove raises {fg[1]} "
                          f"({fg[2]}), the pass returns a profile", replay)
        else:
            d = _sd_area(cs, fg[1], scale, 1e-12 * cs.area)
            if d > 1e-12 * cs.area or any(abs(a - b) > tol for a, b in zip(cs.bounds, fg[1].bounds)):
                ctx.violation("two-from-groove-differs", f"width {wexp}, gap {gap}: pass cross-section and from_groove differ by "
                              f"area {d}", replay)


def _oracle_seed(ctx, which, groove, gap, geo, in_profile, replay):
    """init_solve seeds the out profile with the usable cross-section: it spans the usable width"""
    rp = _make_pass(which, groove, gap, None)
    try:
        rp.init_solve(in_profile)
    except Exception as ex:
        if _in_pyroll(ex):
            ctx.violation(f"{which}-init-solve-raises", f"init_solve raised {type(ex).__name__}: {ex}"[:200], replay)
            return
        raise
    cs = rp.out_profile.__dict__.get("cross_section")
    raw, region, polys, scale = geo
    tol = 1e-9 * scale
    uw = float(rp.usable_width)
    if cs is None or cs.is_empty:
        ctx.violation(f"{which}-seed-missing", "init_solve did not seed out_profile.cross_section", replay)
        return
    e = (cs.bounds[2] - cs.bounds[0]) if which == "two" else 2 * _reach(cs, 90)
    if abs(e - uw) > tol:
        ctx.violation(f"{which}-seed-width", f"seeded cross-section has width {e}, usable width {uw}", replay)
    if not region.buffer(tol).contains(cs):
        ctx.violation(f"{which}-seed-not-contained", "seeded cross-section reaches outside the opening", replay)
    if which == "two" and not _roll_opening(groove, gap).buffer(tol).contains(cs):
        ctx.violation("two-seed-not-contained-in-roll-contours", "seeded cross-section reaches outside the roll contours (groove "
                      "contour lifted by gap / 2 and the same roll turned by 180 degrees)", replay)


# --------------------------------------------------------------------------------------------------------------
# scenarios: the same statement on passes that are configured, looked at, used and re-used in other ways
# --------------------------------------------------------------------------------------------------------------
READS = ["contour_lines", "usable_cross_section", "height", "gap", "usable_width"]
SCENARIOS = ["config", "config", "sprung", "regap", "remount"]
# width kinds under which the FIRST solve of a history goes through whatever the gap is (an earlier solve that raises ends
# the history before the statement can be judged)
FEASIBLE_KINDS = ["default", "under", "usable", "pad", "extent", "near-usable-below", "near-usable-above", "near-extent-below"]


def _random_kwargs(rng, puw):
    """explicit values for hooks of the pass that must not change the shape of the out profile: the informational filling
    targets (they feed `filling_error` / `cross_section_error` only), solution control, display orientation"""
    kw = {}
    if rng.random() < 0.65:
        t = rng.choice(["target_filling_ratio", "target_width", "target_cross_section_filling_ratio", "ratio+width"])
        if t in ("target_filling_ratio", "ratio+width"):
            kw["target_filling_ratio"] = rng.uniform(0.6, 1.08)
        if t in ("target_width", "ratio+width"):
            kw["target_width"] = puw * rng.uniform(0.6, 1.05)
        if t == "target_cross_section_filling_ratio":
            kw[t] = rng.uniform(0.7, 1.0)
    if rng.random() < 0.35:
        kw["iteration_precision"] = 10 ** rng.uniform(-6, -1.5)
    if rng.random() < 0.2:
        kw["orientation"] = rng.choice([90, 45, "vertical"])
    if rng.random() < 0.15:
        kw["max_iteration_count"] = rng.choice([2, 3, 5, 200])
    return kw


def _gap_as(rng, which, groove, gap):
    """another way of giving the same roll gap: the pass height, or (three rolls) the inscribed circle diameter"""
    attr = rng.choice(["height", "inscribed_circle_diameter"] if which == "three" else ["height"])
    return attr, float(getattr(_make_pass(which, groove, gap, None), attr))


def _scenario_steps(rng, name, which, groove, gap, w, puw, force):
    """-> list of JSON-able steps executed on ONE pass instance (`_run_steps`); the statement is checked after the last
    `solve`, at the gap the pass reports then"""
    uw = float(groove.usable_width)
    kwargs = _random_kwargs(rng, puw) if (name == "config" or rng.random() < 0.4) else {}
    reads = [{"op": "read", "attr": a} for a in rng.sample(READS, rng.randrange(1, 4))] if rng.random() < 0.5 else []
    if name == "config":
        # explicit values for rarely given hooks; the gap given directly or through another dimension; the pass looked at
        # before it is handed to solve
        new = {"op": "new", "gap": gap, "width": w, "kwargs": kwargs}
        if rng.random() < 0.4:
            attr, v = _gap_as(rng, which, groove, gap)
            new = {"op": "new", "given": {attr: v}, "width": w, "kwargs": kwargs}
        return [new] + reads + [{"op": "solve"}]
    if name == "sprung":
        # the gap is no input: a hook value that depends on the roll force of the previous iteration and settles with it
        ref = gap if gap > 0 else 0.02 * uw
        rel = 10 ** rng.uniform(-3, math.log10(0.5)) * (-1 if (gap > 0 and rng.random() < 0.4) else 1)
        return [{"op": "new", "given": {"spring": [gap, rel * ref / force]}, "width": w, "kwargs": kwargs}] + reads + [{"op": "solve"}]
    # regap: the instance starts out at ANOTHER gap, is looked at and/or solved there, then the gap is set and it is solved
    g_a = uw * 10 ** rng.uniform(-3, math.log10(0.5))
    if rng.random() < 0.5:
        attr, v_a, v_b = "gap", g_a, gap
        new = {"op": "new", "gap": g_a, "width": w, "kwargs": kwargs}
    else:
        attr, v_a = _gap_as(rng, which, groove, g_a)
        v_b = float(getattr(_make_pass(which, groove, gap, None), attr))
        new = {"op": "new", "given": {attr: v_a}, "width": w, "kwargs": kwargs}
    first = [{"op": "solve"}] if (not reads or rng.random() < 0.6) else []
    return [new] + reads + first + [{"op": "set", "attr": attr, "value": v_b}, {"op": "solve"}]


def _scale_desc(desc, f):
    if desc["cls"] == "SplineGroove":
        d2 = dict(desc, points=[[x * f, y * f] for x, y in desc["points"]])
        if d2.get("usable_width") is not None:
            d2["usable_width"] = desc["usable_width"] * f
        return d2
    return {"cls": desc["cls"], "kwargs": {k: (v if k in ANGLES else v * f) for k, v in desc["kwargs"].items()}}


def _other_groove(rng, which, ctx, desc, groove):
    """ANOTHER groove that can be turned into the rolls of the same stand: any class (incl. the same one), of comparable size
    (usable width 0.6..1.6 x); or the same groove re-turned with one dimension altered.  -> (desc, groove) | None"""
    import warnings
    uw = float(groove.usable_width)
    if desc["cls"] != "SplineGroove" and rng.random() < 0.3:
        kw = dict(desc["kwargs"])
        k = rng.choice(sorted(set(kw) & JITTER))
        kw[k] = kw[k] * rng.choice([rng.uniform(0.7, 0.97), rng.uniform(1.03, 1.3)])
        d2 = {"cls": desc["cls"], "kwargs": kw}
        try:
            with warnings.catch_warnings():
                warnings.simplefilter("ignore")
                return d2, _build_groove(d2)
        except Exception as ex:
            ctx.count("groove-rejected:" + type(ex).__name__)
    r = _random_groove(rng, which, ctx, scale=1.0, skew_p=0.25)
    if r is None:
        return None
    d2 = _scale_desc(r[0], uw / float(r[1].usable_width) * rng.uniform(0.6, 1.6))
    try:
        with warnings.catch_warnings():
            warnings.simplefilter("ignore")
            return d2, _build_groove(d2)
    except Exception as ex:
        ctx.count("groove-rejected:" + type(ex).__name__)
        return None


def _remount_steps(ctx, which, desc, groove, gap, w, puw):
    """a history on ONE pass instance in which the ROLLS change: [solve,] another groove mounted (`rp.roll.groove = ...`, or
    a new roll object `rp.roll = ...`), gap left as it is (mostly) or set as well, width prescribed anew, solve; possibly the
    first groove mounted back and solved once more.  The gap is given explicitly, as a height, or by the gap hook of the
    throw-away class with a rigid stand (compliance 0: a constant, but every answer is logged -> K (e)).
    -> (steps, heights of every pass of the history) | None"""
    rng = ctx.rng
    r = _other_groove(rng, which, ctx, desc, groove)
    if r is None:
        return None
    desc2, g2 = r
    kwargs = _random_kwargs(rng, puw) if rng.random() < 0.3 else {}
    u = rng.random()
    explicit = u < 0.5
    if explicit:
        new = {"op": "new", "gap": gap, "width": w, "kwargs": kwargs}
    elif u < 0.85 and gap > 0:
        new = {"op": "new", "given": {"spring": [gap, 0.0]}, "width": w, "kwargs": kwargs}
    else:
        new = {"op": "new", "given": {"height": float(_make_pass(which, groove, gap, None).height)}, "width": w, "kwargs": kwargs}

    def reads(p, must=None):
        if rng.random() >= p and must is None:
            return []
        attrs = rng.sample(READS, rng.randrange(1, 4))
        if must is not None and must not in attrs:
            attrs.append(must)
        return [{"op": "read", "attr": a} for a in attrs]

    def pass_at(g, gap_now):
        """a fresh pass with groove `g` under the way the gap is given in this history -> (pass, its gap) | None"""
        try:
            p = _make_pass(which, g, gap_now, None, None, None if "gap" in new else
                           ({"height": new["given"]["height"]} if "height" in new["given"] else None))
            gg = float(p.gap)
            return (p, gg) if (math.isfinite(gg) and (gg > 0 or (which == "two" and gg == 0))) else None
        except Exception as ex:
            if not _in_pyroll(ex):
                raise
            return None

    def width_for(g, gap_now):
        """a prescribed width for the pass with groove `g`: any kind when the gap is an explicit input"""
        pg = pass_at(g, gap_now)
        if pg is None:
            return None
        p = _make_pass(which, g, pg[1], None)
        try:
            raw, region, polys, scale = _opening(p)
            pw, h = float(p.usable_width), float(p.height)
        except Exception as ex:
            if not _in_pyroll(ex):
                raise
            return None
        cap = _capacity(which, polys)
        if not (h > 1e-9 * scale and cap == cap and cap > 0):
            return None
        ext_raw = (raw.bounds[2] - raw.bounds[0]) if which == "two" else 2 * raw.bounds[3]
        kind = rng.choice(WIDTH_KINDS if explicit else SAFE_KINDS)
        return kind, _width_for(kind, rng, pw, cap, ext_raw), h

    # the pass is solved first (mostly), or only looked at (its contour lines are then memoised for the first groove)
    steps = [new] + (reads(0.4) + [{"op": "solve"}] if rng.random() < 0.8 else reads(1.0, "contour_lines"))
    heights = [float(_make_pass(which, groove, gap, None).height)]
    gap_now = gap
    back = rng.random() < 0.25                        # ... and the first groove mounted again: A, B, A
    legs = [(desc2, g2, FEASIBLE_KINDS if back else None)] + ([(desc, groove, None)] if back else [])
    for (d, g, feasible) in legs:
        steps.append({"op": "mount", "groove": d, "how": "groove" if rng.random() < 0.7 else "roll"})
        if explicit and rng.random() < 0.25:
            gap_now = float(g.usable_width) * 10 ** rng.uniform(-3, math.log10(0.5))
            steps.append({"op": "set", "attr": "gap", "value": gap_now})
        wk = None
        for _ in range(4):
            wk = width_for(g, gap_now)
            if wk is None or feasible is None or wk[0] in feasible:
                break
        if wk is None or (feasible is not None and wk[0] not in feasible):
            return None
        steps.append({"op": "set", "attr": "c08_width", "value": wk[1], "width_kind": wk[0]})
        heights.append(wk[2])
        steps += reads(0.3) + [{"op": "solve"}]
    return steps, heights


def _run_steps(which, groove, steps, ip):
    """-> (pass, outcome of the last solve, an earlier solve raised, info): info["grooves"] = the grooves that were
    mounted, in order (the last one is on the rolls at the end); info["solves"] = for every solve: which of them was
    mounted, on a new roll object or not, and how many answers the logging gap hook had given before"""
    import warnings
    rp, outcome, broken = None, None, False
    info = {"grooves": [groove], "solves": [], "new_roll": False}
    for i, st in enumerate(steps):
        op = st["op"]
        if op == "mount":
            with warnings.catch_warnings():
                warnings.simplefilter("ignore")
                g = _build_groove(st["groove"])
            if st.get("how") == "roll":
                rp.roll = type(rp).Roll(_make_roll(which, g), rp)
                info["new_roll"] = True
            else:
                rp.roll.groove = g
            info["grooves"].append(g)
            continue
        if op == "solve":
            log = rp.__dict__.get("c08_gap_log")
            info["solves"].append({"k": len(info["grooves"]) - 1, "new_roll": info["new_roll"], "at": len(log) if log is not None else None})
            info["new_roll"] = False
        if op == "new":
            rp = _make_pass(which, groove, st.get("gap"), st.get("width"), st.get("kwargs"), st.get("given"))
        elif op == "read":
            try:
                getattr(rp, st["attr"])
            except Exception as ex:
                if not _in_pyroll(ex):
                    raise
        elif op == "set":
            setattr(rp, st["attr"], st["value"])
        elif op == "solve":
            outcome = _solve(rp, ip)
            if outcome[0] != "ok" and i != len(steps) - 1:
                broken = True
        else:
            raise ValueError(st)
    return rp, outcome, broken, info


def _scenario(ctx, T, which, desc, groove, steps, ip, replay, lean=None, monotone=True, lean0=None):
    """run the steps, then check the statement at the gap the pass reports (`roll_pass.gap` after the last solve): the
    opening is built from a FRESH pass that is given this gap directly"""
    import numpy as np
    rp, outcome, broken, info = _run_steps(which, groove, steps, ip)
    if broken or outcome is None:
        ctx.count("scenario:earlier-solve-raised")
        return
    groove0, groove = groove, info["grooves"][-1]       # the statement is about the rolls that are mounted NOW
    if groove is not groove0:
        ctx.count("scenario:judged-with-remounted-groove")
    last = max(i for i, st in enumerate(steps) if st["op"] == "solve")
    used_before = any(st["op"] in ("solve", "read", "mount", "set") for st in steps[:last])
    if outcome[0] == "raised" and outcome[3] == "cross_section" and used_before:
        # "for a given groove, gap and width it is the same shape": the pass object was looked at / solved / re-fitted before
        # and now raises from the code that builds the cross-sections - a pass that is given the SAME final set-up at
        # construction (last groove, every value set in order) and solved for the first time must raise as well
        new = next(st for st in steps if st["op"] == "new")
        fresh = _make_pass(which, groove, new.get("gap"), new.get("width"), new.get("kwargs"), new.get("given"))
        for st in steps[:last]:
            if st["op"] == "set":
                setattr(fresh, st["attr"], st["value"])
        fo = _solve(fresh, ip)
        ctx.count("scenario:used-pass-raised:fresh-pass-" + fo[0])
        if fo[0] == "ok":
            how = "+".join(sorted(new.get("given", {})))
            ctx.violation(f"{which}-used-pass-raises" + (f"-gap-given-as-{how}" if how else ""),
                          f"the last solve of the history raised {outcome[1]}: {outcome[2]}; a fresh pass of the identical final "
                          f"set-up (groove, gap {float(fresh.gap)}, width) solves", replay)
            return
    try:
        gfin = float(rp.gap)
        w = rp.__dict__.get("c08_width")
        probe = _make_pass(which, groove, gfin, None)
        geo = _opening(probe) if (math.isfinite(gfin) and (gfin > 0 or (which == "two" and gfin == 0))) else None
        puw, height = (float(probe.usable_width), float(probe.height)) if geo else (None, None)
    except Exception as ex:
        if not _in_pyroll(ex):
            raise
        ctx.count("scenario:gap-unreadable:" + type(ex).__name__)
        return
    if geo is None:
        ctx.count("scenario:gap-out-of-range")
        return
    raw, region, polys, scale = geo
    cap = _capacity(which, polys)
    if not (height > 1e-9 * scale and cap == cap and cap > 0):
        ctx.count("scenario:opening-without-interior")
        return
    tol = 1e-9 * scale
    wexp = puw if w is None else w
    fg = _from_groove(groove, width=wexp, gap=gfin) if which == "two" else None
    replay = dict(replay, reported_gap=gfin)
    _oracle(ctx, which, groove, gfin, rp, w, outcome, geo, fg, replay)
    if not (wexp > 0 and math.isfinite(wexp)):
        return
    if outcome[0] == "ok":
        # for a given groove, gap and width the out profile is ONE shape: the shape a pass has that was given this gap and
        # this width directly and is solved for the first time (for two rolls also compared with from_groove above)
        fresh = _make_pass(which, groove, gfin, w)
        fo = _solve(fresh, ip)
        cs = outcome[1].cross_section
        if fo[0] == "ok" and cs.geom_type == "Polygon" and not cs.is_empty and cs.is_valid and fo[1].cross_section.is_valid:
            ref = fo[1].cross_section
            d = _sd_area(cs, ref, scale, 1e-12 * ref.area)
            if d > 1e-12 * ref.area or any(abs(a - b) > tol for a, b in zip(cs.bounds, ref.bounds)):
                ctx.violation(f"{which}-differs-from-fresh-pass", f"width {wexp}, reported gap {gfin}: the out cross-section differs "
                              f"by area {d} (of {ref.area}) from the one of a fresh pass given this gap and width", replay)
        ctx.count("scenario:fresh-pass-compared")
    model = getattr(ctx, "model_available", True) and T is not None
    fn = T["resolved"].get((which, "cross_section")) if T else None
    prog = next((r for (i, r) in T["hooks"] if i["fn"] == fn), None) if T else None
    if not model or prog is None or (outcome[0] == "raised" and outcome[3] != "cross_section"):
        return
    # ---- K (a)/(b) on the scenario: the generated program at the REPORTED gap vs what the used pass returned ----------
    uw, depth = float(groove.usable_width), float(groove.depth)
    # the roll's contour is taken from the GROOVE that is mounted (hypothesis of two_code_paths_agree, checked in `_group` for
    # the first groove of the history and here for the last one): what the used roll object holds is compared with it
    gc = np.array(groove.contour_line.coords)
    if groove is not groove0:
        try:
            rc = np.array(rp.roll.contour_line.coords)
        except Exception as ex:
            if not _in_pyroll(ex):
                raise
            rc = None
        if rc is None or rc.shape != gc.shape or not np.array_equal(rc, gc):
            ctx.disagreement("after mounting another groove roll.contour_line does not have the coordinates of the mounted groove's "
                             "contour_line (hypothesis of two_code_paths_agree)", replay)
    srcs = {"rollContour": rp.roll.contour_line, "grooveContour": groove.contour_line}
    env = {"width": wexp, "gap": gfin, "roll.groove.usable_width": uw, "usable_width": puw, "groove.usable_width": uw,
           "groove.depth": depth}
    mine = _k_terms(ctx, T, which, fn, prog, srcs, env, outcome, replay)
    log = rp.__dict__.get("c08_gap_log")
    if log and outcome[0] == "ok" and lean0 is not None and len(lean0) <= LEAN_LINE_CAP + 400:
        # ---- K (e): the model of memos / caches / solution loop (OutCS.Cache with the generated pieces) run on the history
        # of the pass - per solve: which groove was mounted (on a new roll object or not) and the gap values the logging
        # hook really answered (one during init_solve of a fresh pass, one per iteration) - vs the state of the real pass
        line = _cache_line(which, info, log)
        if line is None:
            ctx.count("cache-model:history-outside-the-model")
        else:
            lean0.append((line, ("cache", _cache_verifier(T, which, rp, info["grooves"], env, fn, prog, ip)), replay))
    monotone2 = monotone if groove is groove0 else bool((np.diff(gc[:, 0]) > 0).all())
    if lean is not None and monotone and monotone2:
        def contour_line(g):
            c = np.array(g.contour_line.coords)
            return ("contour " + " ".join(f"{stub.bits(x)} {stub.bits(y)}" for x, y in c), ("contour", len(c)), None)
        if groove is not groove0:
            lean.append(contour_line(groove))
        valid = _observed_validity(T, prog, _lines_term(T, which), srcs, env)
        lean.append(("env " + " ".join(f"{k}={stub.bits(v)}" for k, v in env.items()) + f" @valid={stub.bits(valid)}", ("env",), replay))
        lean.append((f"run {which}_cross_section", ("run", "ok" if outcome[0] == "ok" else "raised", outcome[1] if outcome[0] == "raised" else None,
                                                    outcome[1].cross_section if outcome[0] == "ok" else None,
                                                    mine[2] if len(mine) > 2 else {}, tol), replay))
        if groove is not groove0:
            lean.append(contour_line(groove0))           # the other cases of the group go on with the group's groove


def _cache_line(which, info, log):
    """the history of a pass as one line for the model driver:
    `cache <which> <solve> [/ <solve>]*`, <solve> = `<groove index> <new|same> <g0 bits> <g1 bits> ...` (g0: the gap hook's
    answer during init_solve - on a used pass the cached value answers there, the entry repeats it -, then one per
    iteration); None when a solve of the history has no logged iteration"""
    parts = []
    prev = None
    ats = [sv["at"] for sv in info["solves"]] + [len(log)]
    for j, sv in enumerate(info["solves"]):
        if sv["at"] is None:
            return None
        entries = log[(0 if j == 0 else ats[j]):ats[j + 1]]
        if j > 0:
            entries = [prev] + entries
        if len(entries) < 2 or any(not isinstance(e, float) or e != e for e in entries):
            return None
        parts.append(f"{sv['k']} {'new' if sv['new_roll'] else 'same'} " + " ".join(str(stub.bits(g)) for g in entries))
        prev = entries[-1]
    return f"cache {which} " + " / ".join(parts) if parts else None


def _cache_verifier(T, which, rp, grooves, env, fn, prog, ip=None):
    """what the used pass really holds after the last solve of its history, to be compared with the model's prediction
    {used, lines, ucs: (gap value, index of the groove whose contour the roll's contour line carried, index of the groove read
    directly | None), gap: value}: the out cross-section / the memoised contour lines / the cached usable cross-section must
    be, bit for bit, what the generated terms give with the contour of THAT groove placed at THAT gap; `gap` is what the
    pass reports"""
    import numpy as np
    real = {"gap": float(rp.gap),
            "lines": np.concatenate([np.array(l.coords) for l in rp.contour_lines.geoms]),
            "used": np.array(rp.out_profile.cross_section.exterior.coords),
            "ucs": np.array(rp.usable_cross_section.exterior.coords)}
    # the START value of a further solve: what the out profile's cross-section holds after one more `init_solve` with the
    # same incoming profile (the model: `initSolve` on the state after the history) - the usable cross-section again, or
    # the result of the previous solution, as the source of `BaseRollPass.init_solve` says.  Done last: `rp` is not used
    # by the harness afterwards.
    real["ocs"] = real["used"]
    real["next"] = None
    if ip is not None:
        log = rp.__dict__.get("c08_gap_log")
        n_log = len(log) if log is not None else None
        try:
            rp.init_solve(ip)
            cs = rp.out_profile.__dict__.get("cross_section")
            real["next"] = np.array(cs.exterior.coords) if cs is not None and not cs.is_empty else np.zeros((0, 2))
        except Exception as ex:
            if not _in_pyroll(ex):
                raise
            real["next"] = "raised " + type(ex).__name__
        if log is not None:
            del log[n_log:]
    ufn = T["resolved"].get((which, "usable_cross_section"))
    uprog = next((r for (i, r) in T["hooks"] if i["fn"] == ufn), None)
    lines_term = _lines_term(T, which)

    def verify(pred):
        bad = []
        if pred.get("gap") is None or pred["gap"] != real["gap"]:
            bad.append(f"reported gap: model {pred.get('gap')}, pass {real['gap']}")
        b_lines = lambda sr, e: _coords(eval_term(lines_term, sr, e))
        b_used = lambda sr, e: np.array(eval_prog(T, prog, lines_term, sr, e)[1].exterior.coords)
        b_ucs = lambda sr, e: np.array(eval_prog(T, uprog, lines_term, sr, e)[1].exterior.coords)
        items = [("lines", b_lines, pred.get("lines")), ("used", b_used, pred.get("used")), ("ucs", b_ucs, pred.get("ucs"))]
        for key in ("ocs", "next"):
            # `built l` = the hook implementation at the prescribed width on the lines l, `seeded l` = the usable
            # cross-section on the lines l
            if key == "next" and real["next"] is None:
                continue
            pv = pred.get(key)
            if isinstance(real[key], str):
                bad.append(f"{key}: init_solve on the used pass {real[key]}")
            elif pv is None or pv[0] == "inherited":
                bad.append(f"{key}: the model says the out profile holds {'nothing' if pv is None else 'the incoming cross-section'}")
            else:
                items.append((key, b_used if pv[0] == "built" else b_ucs, pv[1]))
        for key, build, pv in items:
            if build is b_ucs and uprog is None:
                continue
            if pv is None:
                bad.append(f"{key}: the model holds no value")
                continue
            g, kl, kd = pv
            if not (0 <= kl < len(grooves)) or (kd is not None and not (0 <= kd < len(grooves))):
                bad.append(f"{key}: the model names groove {kl}/{kd} of {len(grooves)}")
                continue
            sr = {"rollContour": grooves[kl].contour_line, "grooveContour": grooves[kl].contour_line}
            e = dict(env, gap=g)
            if kd is not None:
                e["roll.groove.usable_width"] = float(grooves[kd].usable_width)
            try:
                mine = build(sr, e)
            except Exception as ex:
                bad.append(f"{key}: generated term at gap {g}, groove {kl}: {type(ex).__name__}")
                continue
            if mine.shape != real[key].shape or not np.array_equal(mine, real[key]):
                bad.append(f"{key}: not the generated {'usable cross-section' if build is b_ucs else 'construction'} with the contour of "
                           f"groove {kl} (of {len(grooves)} mounted one after the other) at gap {g} (the pass reports {real['gap']})")
        return bad
    return verify


def _k_terms(ctx, T, which, fn, prog, srcs, env, outcome, replay):
    """K (a): the generated program evaluated over real shapely vs what the pass returned; -> the evaluation"""
    import numpy as np
    try:
        mine = eval_prog(T, prog, _lines_term(T, which), srcs, env)
    except Exception as ex:           # GEOS refusing the generated construction where the real one went through
        mine = ("raised", type(ex).__name__, {})
    real_kind = "ok" if outcome[0] == "ok" else "raised"
    if mine[0] != real_kind or (real_kind == "raised" and mine[1] != outcome[1]):
        ctx.disagreement(f"generated {fn} evaluated over shapely gives {mine[:2] if mine[0] == 'raised' else 'a polygon'}, the real "
                         f"pass {outcome[:3] if outcome[0] == 'raised' else 'a polygon'}", replay)
    elif real_kind == "ok":
        a, b = np.array(outcome[1].cross_section.exterior.coords), np.array(mine[1].exterior.coords)
        if a.shape != b.shape or not np.array_equal(a, b):
            ctx.disagreement(f"generated {fn} evaluated over shapely differs from the real out cross-section "
                             f"(coordinate by coordinate)", replay)
        else:
            ctx.validated()
            ctx.count("term-eval-vertices-compared", len(a))
    else:
        ctx.validated()
    return mine


# --------------------------------------------------------------------------------------------------------------
# one group of cases: one pass opening, several prescribed widths
# --------------------------------------------------------------------------------------------------------------
def _width_for(kind, rng, puw, cap, ext_raw):
    if kind == "default":
        return None
    if kind == "under":
        return puw * rng.uniform(0.3, 0.98)
    if kind == "usable":
        return puw
    if kind == "pad":
        return puw + (max(cap, ext_raw) - puw) * rng.uniform(0.05, 0.95)
    if kind == "extent":
        return cap
    if kind == "over-lt-1pc":
        return cap * (1 + rng.uniform(0.0005, 0.009))
    if kind == "over-just-below":
        return cap * 1.0099
    if kind == "over-just-above":
        return cap * 1.0101
    if kind == "beyond":
        return cap * (1.01 + 10 ** rng.uniform(-3, 0))
    if kind == "near-usable-below":
        return puw * (1 - 10 ** rng.uniform(-7, -2.2))
    if kind == "near-usable-above":
        return puw * (1 + 10 ** rng.uniform(-7, -2.2))
    if kind == "near-extent-below":
        return cap * (1 - 10 ** rng.uniform(-7, -2.2))
    return {"zero": 0.0, "negative": -puw, "nan": float("nan"), "inf": float("inf")}[kind]


def _same_polygon(a, b, tol):
    """same region and same extreme coordinates (vertex lists may differ by collinear vertices and starting point)"""
    if a.is_empty or b.is_empty:
        return a.is_empty and b.is_empty
    if any(abs(x - y) > tol for x, y in zip(a.bounds, b.bounds)):
        return False
    return _sd_area(a, b, tol * 1e9, 1e-9 * max(a.area, b.area)) <= 1e-9 * max(a.area, b.area)


def _group(ctx, T, which, desc, groove, gap, kinds, lean, force=None):
    import numpy as np
    from shapely import Polygon
    rng = ctx.rng
    lean0 = lean
    uw, depth = float(groove.usable_width), float(groove.depth)
    probe = _make_pass(which, groove, gap, None)
    try:
        geo = _opening(probe)
        puw, height = float(probe.usable_width), float(probe.height)
    except Exception as ex:
        if _in_pyroll(ex):
            raise _ImplRaised(f"{type(ex).__name__}: {ex} (reading contour_lines / usable_width / height of a fresh {which}-roll pass)") from ex
        raise
    raw, region, polys, scale = geo
    cap = _capacity(which, polys)
    if not (height > 1e-9 * scale and cap == cap and cap > 0):
        ctx.count("skipped:opening-without-interior")          # e.g. a flat groove with closed gap: no pass
        return
    ext_raw = (raw.bounds[2] - raw.bounds[0]) if which == "two" else 2 * raw.bounds[3]
    tol = 1e-9 * scale
    rc, gc = np.array(probe.roll.contour_line.coords), np.array(groove.contour_line.coords)
    if rc.shape != gc.shape or not np.array_equal(rc, gc):
        ctx.count("assumption-failed:roll-contour-is-not-groove-contour")
        ctx.disagreement("roll.contour_line and groove.contour_line have different coordinates (hypothesis of two_code_paths_agree)",
                         {"groove": desc})
    monotone = bool((np.diff(gc[:, 0]) > 0).all())
    ctx.count(f"{which}:{_label(desc)}")
    ctx.count("contour:mirror-symmetric" if _mirror_symmetric(groove, scale) else "contour:skew")
    ctx.count("gap:zero" if gap == 0 else "gap:positive")
    ctx.count("contour:z-monotone" if monotone else "contour:not-z-monotone")
    srcs = {"rollContour": probe.roll.contour_line, "grooveContour": groove.contour_line}
    model = getattr(ctx, "model_available", True) and T is not None
    fn = T["resolved"].get((which, "cross_section")) if T else None
    prog = next((r for (i, r) in T["hooks"] if i["fn"] == fn), None) if T else None
    if lean is not None and len(lean) > LEAN_LINE_CAP:
        lean = None                      # enough for the (interpreted) model driver; the python-side comparisons go on
        ctx.count("groups-after-lean-driver-cap")
    if lean is not None and not monotone:
        lean = None                      # the walking clip is exact for z-monotone contours only: outside the fragment
        ctx.count("vertex-list-model:outside-fragment(not z-monotone)")
    if model and lean is not None:
        lean.append(("contour " + " ".join(f"{stub.bits(x)} {stub.bits(y)}" for x, y in gc), ("contour", len(gc)), None))
    seeded = False
    for kind in kinds:
        w = _width_for(kind, rng, puw, cap, ext_raw)
        in_kind = rng.choice(["round", "box", "diamond", "square"])
        ip = _in_profile(in_kind, height * rng.uniform(1.05, 1.4), uw)
        replay = {"pass": which, "groove": desc, "gap": gap, "width_kind": kind, "width": w, "in_profile": in_kind,
                  "in_height": float(ip.height), "capacity": cap, "usable_width": puw}
        wexp = puw if w is None else w
        ctx.case([which, desc["cls"], round(math.log10(scale), 3), round(gap / uw, 9), kind,
                  round(wexp / cap, 6) if cap == cap and wexp == wexp else str(wexp), in_kind], nontrivial=(w is not None or gap > 0))
        ctx.count("width:" + kind)
        ctx.count("in:" + in_kind)
        if not seeded:
            _oracle_seed(ctx, which, groove, gap, geo, ip, dict(replay, read="init_solve"))
            seeded = True
        rp = _make_pass(which, groove, gap, w)
        outcome = _solve(rp, ip)
        fg = _from_groove(groove, width=wexp, gap=gap) if which == "two" else None
        _oracle(ctx, which, groove, gap, rp, w, outcome, geo, fg, replay)
        if outcome[0] == "ok" and rng.random() < 0.2:
            # history: the SAME pass instance solved again with another prescribed width (nothing of the first solution may stick)
            kind2 = rng.choice([k for k in WIDTH_KINDS[1:] if k != kind])
            w2 = _width_for(kind2, rng, puw, cap, ext_raw)
            rp.c08_width = w2
            out2 = _solve(rp, ip)
            ctx.count("resolved-same-instance:" + kind2)
            ctx.case([which, desc["cls"], round(math.log10(scale), 3), round(gap / uw, 9), kind, kind2, round(w2 / cap, 6)])
            _oracle(ctx, which, groove, gap, rp, w2, out2, geo, _from_groove(groove, width=w2, gap=gap) if which == "two" else None,
                    dict(replay, width_kind=kind2, width=w2, first_width=w, note="second solve of the same pass instance"))
        if wexp > 0 and math.isfinite(wexp) and (force is not None or rng.random() < (0.45 if kind == "default" else 0.15)):
            # the same case on a pass that is configured / looked at / used in another way (see `_scenario_steps`)
            name = force or rng.choice(SCENARIOS)
            F0 = None
            if name == "sprung" and outcome[0] == "ok":
                try:
                    F0 = float(rp.roll_force)
                except Exception as ex:
                    if not _in_pyroll(ex):
                        raise
            if name == "sprung" and not (F0 is not None and math.isfinite(F0) and F0 > 0):
                name = "config"
            kind_s, w_s = kind, w
            if name == "sprung" and kind not in SAFE_KINDS:
                kind_s = rng.choice(SAFE_KINDS)
                w_s = _width_for(kind_s, rng, puw, cap, ext_raw)
            ip_s = ip
            if name == "remount":
                if kind not in FEASIBLE_KINDS:
                    kind_s = rng.choice(FEASIBLE_KINDS)
                    w_s = _width_for(kind_s, rng, puw, cap, ext_raw)
                rs = _remount_steps(ctx, which, desc, groove, gap, w_s, puw)
                if rs is None:
                    ctx.count("scenario:remount-not-built")
                    name = None
                else:
                    steps = rs[0]
                    # one incoming profile for every solve of the history: taller than each of the passes
                    ip_s = _in_profile(in_kind, max(rs[1]) * rng.uniform(1.05, 1.4), uw)
            else:
                steps = _scenario_steps(rng, name, which, groove, gap, w_s, puw, F0)
        else:
            name = None
        if name is not None:
            ctx.count("scenario:" + name)
            for st in steps:
                if st["op"] == "new":
                    for k in st.get("kwargs", {}):
                        ctx.count("scenario-kwarg:" + k)
                    ctx.count("scenario-gap-given-as:" + "+".join(sorted(st.get("given", {"gap": 0}))))
                if st["op"] == "mount":
                    ctx.count("scenario-mount:" + st["how"])
            ctx.case([which, desc["cls"], round(math.log10(scale), 3), round(gap / uw, 9), kind_s, name,
                      json.dumps(steps, sort_keys=True, default=str)])
            _scenario(ctx, T, which, desc, groove, steps, ip_s,
                      {"pass": which, "groove": desc, "scenario": name, "steps": steps, "width_kind": kind_s, "in_profile": in_kind,
                       "in_height": float(ip_s.height), "capacity_at_first_gap": cap}, lean, monotone, lean0)
        if len(ctx.samples) < 4 and kind in ("pad", "beyond"):
            ctx.sample({k: replay[k] for k in ("pass", "groove", "gap", "width_kind", "width", "capacity")} |
                       {"outcome": outcome[0] if outcome[0] == "ok" else list(outcome[1:3])})
        if not model or prog is None or not (wexp > 0 and math.isfinite(wexp)):
            continue
        if outcome[0] == "raised" and outcome[3] != "cross_section":
            continue
        # ---- K (a): the generated terms over real shapely vs what the pass returned -----------------------------------
        env = {"width": wexp, "gap": gap, "roll.groove.usable_width": uw, "usable_width": puw, "groove.usable_width": uw,
               "groove.depth": depth}
        mine = _k_terms(ctx, T, which, fn, prog, srcs, env, outcome, replay)
        real_kind = "ok" if outcome[0] == "ok" else "raised"
        envline = "env " + " ".join(f"{k}={stub.bits(v)}" for k, v in env.items())
        if lean is not None:
            # ---- K (b): the Lean Float run under the vertex-list interpretation ------------------------------------------
            exp_geom = outcome[1].cross_section if outcome[0] == "ok" else None
            valid = _observed_validity(T, prog, _lines_term(T, which), srcs, env)
            lean.append((envline + f" @valid={stub.bits(valid)}", ("env",), replay))
            lean.append((f"run {which}_cross_section", ("run", real_kind, outcome[1] if real_kind == "raised" else None, exp_geom,
                                                        mine[2] if len(mine) > 2 else {}, tol), replay))
        if which == "two":
            # the constructor side: every way of giving the dimensions
            variants = [("wg", dict(width=wexp, gap=gap), fg)]
            if rng.random() < 0.3:
                variants.append(("fh", dict(filling=wexp / uw, height=gap + 2 * depth), None))
                variants.append(rng.choice([("fg", dict(filling=wexp / uw, gap=gap), None),
                                            ("wh", dict(width=wexp, height=gap + 2 * depth), None)]))
            for tag, kw, real in variants:
                r = T["fg"].get(tag)
                if r is None:
                    continue
                real = real or _from_groove(groove, **kw)
                fenv = dict(kw)
                fenv.update({"groove.usable_width": uw, "groove.depth": depth})
                try:
                    mine = eval_prog(T, r, None, srcs, fenv)
                except Exception as ex:
                    mine = ("raised", type(ex).__name__, {})
                if mine[0] != real[0] or (real[0] == "raised" and mine[1] != real[1]):
                    ctx.disagreement(f"generated from_groove_{tag} over shapely gives {mine[:2] if mine[0] == 'raised' else 'a polygon'}, "
                                     f"the real constructor {real[:3] if real[0] == 'raised' else 'a polygon'}", dict(replay, args=kw))
                elif real[0] == "ok":
                    a, b = np.array(real[1].exterior.coords), np.array(mine[1].exterior.coords)
                    if a.shape != b.shape or not np.array_equal(a, b):
                        ctx.disagreement(f"generated from_groove_{tag} over shapely differs from the real constructor", dict(replay, args=kw))
                    else:
                        ctx.validated()
                else:
                    ctx.validated()
                if lean is not None:
                    # validity of the clipped polygon is a parameter of the model: observed on the generated construction
                    valid = _observed_validity(T, r, None, srcs, fenv)
                    lean.append(("env " + " ".join(f"{k}={stub.bits(v)}" for k, v in fenv.items()) + f" @valid={stub.bits(valid)}",
                                 ("env",), replay))
                    lean.append((f"run from_groove_{tag}", ("run", real[0], real[1] if real[0] == "raised" else None,
                                                            real[1] if real[0] == "ok" else None, mine[2] if len(mine) > 2 else {}, tol),
                                 dict(replay, args=kw)))


def _check_lean(ctx, lean):
    import numpy as np
    from shapely import Polygon
    lines = [l for (l, _, _) in lean]
    out = ctx.lean_model(MODEL, lines)
    if len(out) != len(lines):
        ctx.disagreement(f"model driver answered {len(out)} lines for {len(lines)}", {})
        return
    for (line, exp, replay), o in zip(lean, out):
        if exp[0] == "contour":
            if o != f"ok {exp[1]}":
                ctx.disagreement(f"model driver: {o!r} on a contour line", {})
        elif exp[0] == "env":
            if o != "ok":
                ctx.disagreement(f"model driver: {o!r} on an env line", replay)
        elif exp[0] == "cache":
            toks = o.split()
            if not toks or toks[0] != "ok":
                ctx.disagreement(f"model driver: {o[:80]!r} on a cache line", replay)
                continue
            try:
                pred = {}
                for k, v in (t.split("=") for t in toks[1:]):
                    if v == "none":
                        pred[k] = None
                    elif k == "gap":
                        pred[k] = stub.unbits(v)
                    elif k in ("ocs", "next"):    # what the out profile's cross-section holds: <kind>[:<prov>]
                        kind, _, rest = v.partition(":")
                        if kind not in ("inherited", "seeded", "built") or (kind == "inherited") != (rest == ""):
                            raise ValueError(v)
                        if rest:
                            a, b, c = rest.split(":")
                            pred[k] = (kind, (stub.unbits(a), int(b), None if c == "-" else int(c)))
                        else:
                            pred[k] = (kind, None)
                    else:                         # <gap bits>:<groove index of the roll's contour line>:<groove read directly | ->
                        a, b, c = v.split(":")
                        pred[k] = (stub.unbits(a), int(b), None if c == "-" else int(c))
            except Exception:
                ctx.disagreement(f"model driver: unparsable answer {o[:80]!r} on a cache line", replay)
                continue
            bad = exp[1](pred)
            if bad:
                ctx.disagreement("memo/solution-loop model vs the pass after solve: " + "; ".join(bad), replay)
            else:
                ctx.validated()
                ctx.count("cache-model-solves-compared")
                if " / " in line:
                    ctx.count("cache-model-histories-compared")       # several solves of ONE pass object, grooves mounted between
        elif exp[0] == "run":
            _, kind, exc, geom, meas, tol = exp
            head, _, mpart = o.partition(" # ")
            toks = head.split()
            if not toks or toks[0] not in ("ok", "raised"):
                ctx.disagreement(f"model driver: {o[:80]!r} on `{line}`", replay)
                continue
            if toks[0] != kind or (kind == "raised" and toks[1:2] != [exc]):
                ctx.disagreement(f"vertex-list model on `{line}`: {' '.join(toks[:2]) if toks[0] == 'raised' else 'a polygon'}, "
                                 f"real: {('raised ' + exc) if kind == 'raised' else 'a polygon'}", replay)
                continue
            ok = True
            try:
                mm = {k: stub.unbits(v) for k, v in (x.split("=") for x in mpart.split())} if mpart.strip() else {}
            except Exception:
                mm = None
            if mm is None:
                ctx.disagreement(f"model driver: unparsable measurements {mpart[:80]!r}", replay)
                continue
            for k, v in meas.items():
                if k not in mm or not abs(mm[k] - v) <= 10 * tol:
                    ctx.disagreement(f"vertex-list model on `{line}`: measurement {k} = {mm.get(k)}, shapely {v}", replay)
                    ok = False
            if kind == "ok" and ok:
                try:
                    pts = np.array([stub.unbits(t) for t in toks[1:]]).reshape(-1, 2)
                    mp = Polygon(pts) if len(pts) >= 4 else Polygon()
                except Exception:
                    ctx.disagreement(f"model driver: unparsable polygon on `{line}`", replay)
                    continue
                if not mp.is_valid or not geom.is_valid:
                    ctx.count("vertex-list-model:outside-fragment(invalid ring)")
                    continue
                if not _same_polygon(mp, geom, tol):
                    ctx.disagreement(f"vertex-list model on `{line}`: polygon differs from the real one (area of the symmetric "
                                     f"difference {_sd_area(mp, geom, tol * 1e9, 0.0)} of {geom.area})", replay)
                    ok = False
                else:
                    ctx.count("vertex-list-model-vertices", len(pts))
            if ok:
                ctx.validated()


def _check_resolution(ctx, T):
    """the generated instantiation (which implementation answers on which pass class) against the real hooks"""
    import pyroll.core as pc
    for which, cls in (("two", pc.TwoRollPass), ("three", pc.ThreeRollPass)):
        real_mro = [k.__name__ for k in cls.__mro__]
        if [k for k in real_mro if k in PASS_MRO[which]] != PASS_MRO[which]:
            ctx.disagreement(f"MRO of {cls.__name__} is {real_mro}, the translator assumes {PASS_MRO[which]}", {})
        for hook, owner in (("cross_section", cls.OutProfile), ("usable_cross_section", cls), ("tip_cross_section", cls)):
            real = [f.name for f in getattr(owner, hook).functions]
            if not real or real[0] != T["resolved"].get((which, hook)):
                ctx.disagreement(f"{cls.__name__}: {hook} is answered first by {real[:1]}, the generated module instantiates "
                                 f"{T['resolved'].get((which, hook))}", {"hook": hook})
            else:
                ctx.validated()
        # the generated reevaluate_cache chain names exactly the classes of the real MRO that define the method, in order
        chain = (T.get("cache") or {}).get("chain", {}).get(which)
        if chain is not None:
            real_def = [k.__name__ for k in cls.__mro__ if "reevaluate_cache" in k.__dict__]
            if real_def != [k for (k, _, _) in chain]:
                ctx.disagreement(f"{cls.__name__}: reevaluate_cache is defined by {real_def} along the real MRO, the generated chain "
                                 f"has {[k for (k, _, _) in chain]}", {"method": "reevaluate_cache"})
            else:
                ctx.validated()
            if not isinstance(cls.__dict__.get("contour_lines", getattr(cls, "contour_lines", None)), property):
                ctx.disagreement(f"{cls.__name__}.contour_lines is not a property", {})
        # the roll side: the classes of the real MRO of `<pass class>.Roll` that define `reevaluate_cache`, the class whose
        # property answers `rp.roll.contour_line`, and the implementation of `contour_points` that is tried first
        C = T.get("cache") or {}
        real_roll_mro = [k.__qualname__ for k in cls.Roll.__mro__]
        if [k for k in real_roll_mro if k in ROLL_MRO[which]] != ROLL_MRO[which]:
            ctx.disagreement(f"MRO of {cls.__name__}.Roll is {real_roll_mro}, the translator assumes {ROLL_MRO[which]}", {})
        rchain = C.get("roll_chain", {}).get(which)
        if rchain is not None:
            real_def = [k.__qualname__ for k in cls.Roll.__mro__ if "reevaluate_cache" in k.__dict__]
            if real_def != [k for (k, _, _) in rchain]:
                ctx.disagreement(f"{cls.__name__}.Roll: reevaluate_cache is defined by {real_def} along the real MRO, the generated "
                                 f"chain has {[k for (k, _, _) in rchain]}", {"method": "Roll.reevaluate_cache"})
            else:
                ctx.validated()
        rm = C.get("roll_memo", {}).get(which)
        if rm is not None:
            owner = next((k for k in cls.Roll.__mro__ if "contour_line" in k.__dict__), None)
            if owner is None or owner.__qualname__ != rm[3] or not isinstance(owner.__dict__["contour_line"], property):
                ctx.disagreement(f"{cls.__name__}.Roll.contour_line is provided by {owner.__qualname__ if owner else None}, the generated "
                                 f"memo is the one of {rm[3]}", {"property": "Roll.contour_line"})
            else:
                ctx.validated()
        rpts = C.get("roll_points")
        if rpts is not None:
            real = [f.name for f in cls.Roll.contour_points.functions]
            if not real or real[0] != rpts[-1][0]:
                ctx.disagreement(f"{cls.__name__}.Roll.contour_points is answered first by {real[:1]}, the generated module has "
                                 f"{rpts[-1][0]}", {"hook": "Roll.contour_points"})
            else:
                ctx.validated()
        real = [f.name for f in cls.OutProfile.width.functions]
        # the default of the out profile's width must come before the measuring implementations of Profile.width
        if "width" not in real or real.index("width") != 0:
            ctx.disagreement(f"{cls.__name__}.OutProfile.width resolves {real}: the default (usable width) is not tried first", {})
        else:
            ctx.validated()


def _sampler(rng, var):
    return math.exp(rng.uniform(-6, 1))


def _scan_for_run(ctx):
    """the translation of this run (None when it is incomplete: then only the oracle runs)"""
    T = getattr(ctx, "c08", None)
    if T is None:                       # extended search re-enters run() without translate()
        try:
            T = scan()
            T["resolved"] = {(w, h): _first_impl(T["hooks"], h, w, s) for w in ("two", "three")
                             for (h, s) in (("cross_section", ".OutProfile"), ("usable_cross_section", ""), ("tip_cross_section", ""))}
        except Exception:
            T = None
    complete = T is not None and len(T["lines"]) == 2 and len(T["helpers"]) == 2 and all(r is not None for (_, r) in T["hooks"])
    return T if complete else None


def run(ctx):
    import warnings
    warnings.filterwarnings("ignore")
    from . import common  # noqa: F401  (silences the pyroll logger)
    rng = ctx.rng
    T = _scan_for_run(ctx)
    model = getattr(ctx, "model_available", True)
    if model and T is not None:
        _check_resolution(ctx, T)
        found = getattr(ctx, "found", None)
        if found:
            stub.formula_correspondence(ctx, MODEL, {n: i for n, i in found.items()}, _sampler, n_each=ctx.budget(5, 60))
    lean = [] if (model and T is not None) else None
    n_groups = ctx.budget(110, 1500)
    try:
        for (which, cls, kw, gf, kind) in CORPUS:
            kw = dict(kw, pad_angle=PAD[which])
            desc = {"cls": cls, "kwargs": kw}
            g = _build_groove(desc)
            _group(ctx, T, which, desc, g, gf * float(g.usable_width), [kind, "default"], lean)
        for (which, cls, kw, gf, kind, name) in SCENARIO_CORPUS:
            desc = {"cls": cls, "kwargs": dict(kw, pad_angle=PAD[which])}
            g = _build_groove(desc)
            _group(ctx, T, which, desc, g, gf * float(g.usable_width), [kind], lean, force=name)
        for (desc, gf, kinds) in SKEW_CORPUS:
            g = _build_groove(desc)
            _group(ctx, T, "two", desc, g, gf * float(g.usable_width), kinds, lean)
        for (desc, gf, kind, name) in SKEW_SCENARIO_CORPUS:
            g = _build_groove(desc)
            _group(ctx, T, "two", desc, g, gf * float(g.usable_width), [kind], lean, force=name)
        for r in HISTORY_CORPUS:
            g = _build_groove(r["groove"])
            ctx.case([r["pass"], r["groove"]["cls"], "history-corpus", json.dumps(r["steps"], sort_keys=True)])
            ctx.count("scenario:" + r["scenario"])
            _scenario(ctx, T, r["pass"], r["groove"], g, r["steps"], _in_profile(r["in_profile"], r["in_height"], float(g.usable_width)),
                      dict(r), None, True, lean)
        done = 0
        while done < n_groups:
            which = "two" if rng.random() < 0.55 else "three"
            r = _random_groove(rng, which, ctx)
            if r is None:
                continue
            desc, g = r
            uw = float(g.usable_width)
            if which == "two" and rng.random() < 0.12:
                gap = 0.0
            else:
                gap = uw * 10 ** rng.uniform(-3, math.log10(0.5))
            kinds = list(WIDTH_KINDS) if (done < 6 or ctx.tier == "thorough") else \
                ["default"] + rng.sample(WIDTH_KINDS[1:], 5)
            if rng.random() < 0.1:
                kinds.append(rng.choice(["zero", "negative", "nan", "inf"]))
            _group(ctx, T, which, desc, g, gap, kinds, lean)
            if rng.random() < 0.25:
                # the same groove OBJECT in a pass with another gap (nothing may be remembered per groove)
                gap2 = uw * 10 ** rng.uniform(-3, math.log10(0.5))
                ctx.count("same-groove-other-gap")
                _group(ctx, T, which, desc, g, gap2, rng.sample(WIDTH_KINDS[:6], 3), lean)
            done += 1
    except _ImplRaised as ex:
        ctx.violation("pass-geometry-raises", str(ex)[:300], {"note": "raised while reading the opening of a fresh pass"})
    if lean:
        _check_lean(ctx, lean)


def replay(ctx, data):
    r = data.get("replay", data)
    if "groove" not in r:
        return
    import warnings
    warnings.filterwarnings("ignore")
    from . import common  # noqa: F401
    g = _build_groove(r["groove"])
    if "steps" in r:                     # a scenario: steps on one pass instance, judged at the gap it reports
        which = r["pass"]
        h = r.get("in_height")
        if h is None:
            h = 1.2 * max(float(_make_pass(which, g, st["gap"], None).height) for st in r["steps"] if st["op"] == "new" and "gap" in st)
        T = _scan_for_run(ctx)
        _scenario(ctx, T, which, r["groove"], g, r["steps"], _in_profile(r.get("in_profile", "round"), h, float(g.usable_width)), r)
        return
    which, gap, w = r["pass"], r["gap"], r.get("width")
    probe = _make_pass(which, g, gap, None)
    geo = _opening(probe)
    ip = _in_profile(r.get("in_profile", "round"), r.get("in_height", float(probe.height) * 1.2), float(g.usable_width))
    if r.get("read") == "init_solve":
        _oracle_seed(ctx, which, g, gap, geo, ip, r)
        return
    if "first_width" in r:              # history: the same instance solved twice
        rp = _make_pass(which, g, gap, r["first_width"])
        _solve(rp, ip)
        rp.c08_width = w
    else:
        rp = _make_pass(which, g, gap, w)
    outcome = _solve(rp, ip)
    wexp = float(probe.usable_width) if w is None else w
    fg = _from_groove(g, width=wexp, gap=gap) if which == "two" else None
    _oracle(ctx, which, g, gap, rp, w, outcome, geo, fg, r)
