"""C13 - the unit tree stays consistent under every edit of a sequence.

Tie: K (hand-written model lean/PyrollModel/Tree.lean, theorems lean/PyrollProps/C13.lean).
The harness drives real PassSequence / Unit / RollPass / Transport objects and the Lean model with the same
operation lines and compares the complete parent/children state after every operation; the independent
oracle walks every unit ever created and checks the property as stated.
"""
import copy

ID = "C13"
LEAN_MODULES = ["PyrollProps.C13"]
MODEL = "c13"                                   # lean/Drivers/c13.lean
MODEL_MODULES = ["PyrollModel.TreeDriver"]      # what that driver imports (built before the model is run)
RULE = ("random edit histories over a pool of real units (plain Unit, TwoRollPass, Transport, nested PassSequence); "
        "a case is one history; non-trivial = contains at least one list mutation besides construction; "
        "distinct by the canonical op list. 80% of the histories only insert units that are unlisted at that moment "
        "(fresh stream), the rest may insert units that are still listed elsewhere (F10 stream).")
ASSUMPTIONS = [
    "CPython list primitive methods, weakref and copy.deepcopy memo semantics are modelled, not verified",
    "the model is tied to the code by sampled differential runs (state compared after every op)",
]

KINDS = {0: "Unit", 1: "TwoRollPass", 2: "Transport", 3: "PassSequence"}


def _imports():
    from pyroll.core import Unit, PassSequence, BaseRollPass, Transport, Roll, BoxGroove
    return Unit, PassSequence, BaseRollPass, Transport, Roll, BoxGroove


class Real:
    """Executes op tuples on the real implementation."""

    def __init__(self):
        Unit, PassSequence, TwoRollPass, Transport, Roll, BoxGroove = _imports()
        self.cls = (Unit, PassSequence, TwoRollPass, Transport)
        self.roll = Roll(groove=BoxGroove(r1=1e-3, r2=2e-3, depth=5e-3, usable_width=20e-3, ground_width=15e-3),
                         nominal_radius=0.1)
        self.units = []
        self.ids = {}

    def reg(self, u):
        self.ids[id(u)] = len(self.units)
        self.units.append(u)
        return len(self.units) - 1

    def uid(self, u):
        return self.ids.get(id(u), -2)

    def kind_of(self, u):
        Unit, PassSequence, TwoRollPass, Transport = self.cls
        if isinstance(u, PassSequence):
            return 3
        if isinstance(u, TwoRollPass):
            return 1
        if isinstance(u, Transport):
            return 2
        return 0

    def lst(self, s):
        return self.units[s]._subunits

    def reg_tree(self, u):
        """register a deep copy in pre-order (the allocation order of the model)"""
        i = self.reg(u)
        if self.kind_of(u) == 3:
            for c in list(u._subunits):
                self.reg_tree(c)
        return i

    def apply(self, op):
        Unit, PassSequence, TwoRollPass, Transport = self.cls
        name = op[0]
        try:
            if name == "unit":
                k, lab = op[1], op[2]
                if k == 0:
                    u = Unit(label=f"L{lab}")
                elif k == 1:
                    # every kind of roll pass / transport counts for roll_passes / transports
                    from pyroll.core import TwoRollPass as _Two, ThreeRollPass as _Three
                    cls_ = _Three if (lab + len(self.units)) % 3 == 0 else _Two
                    u = cls_(roll=self.roll, label=f"L{lab}")
                else:
                    from pyroll.core import CoolingPipe as _Pipe
                    u = (_Pipe if (lab + len(self.units)) % 3 == 0 else Transport)(label=f"L{lab}")
                return f"u{self.reg(u)}"
            if name == "seq":
                s = PassSequence([self.units[i] for i in op[2]], label=f"L{op[1]}")
                return f"u{self.reg(s)}"
            if name == "append":
                self.units[op[1]].append(self.units[op[2]])
            elif name == "prepend":
                self.units[op[1]].prepend(self.units[op[2]])
            elif name == "insert":
                self.lst(op[1]).insert(op[2], self.units[op[3]])
            elif name == "extend":
                self.lst(op[1]).extend([self.units[i] for i in op[2]])
            elif name == "iadd":
                u = self.units[op[1]]
                u._subunits += [self.units[i] for i in op[2]]
            elif name == "setitem":
                self.lst(op[1])[op[2]] = self.units[op[3]]
            elif name == "setslice":
                self.lst(op[1])[op[2]:op[3]] = [self.units[i] for i in op[4]]
            elif name == "delitem":
                del self.lst(op[1])[op[2]]
            elif name == "delslice":
                del self.lst(op[1])[op[2]:op[3]]
            elif name == "pop":
                if op[2] == -1 and op[3]:
                    r = self.lst(op[1]).pop()
                else:
                    r = self.lst(op[1]).pop(op[2])
                return f"u{self.uid(r)}"
            elif name == "remove":
                self.lst(op[1]).remove(self.units[op[2]])
            elif name == "clear":
                self.lst(op[1]).clear()
            elif name == "drop":
                self.units[op[1]].drop(op[2])
            elif name == "flatten":
                self.units[op[1]].flatten()
            elif name == "listcopy":
                r = self.lst(op[1]).copy()
                if r is None or [id(x) for x in r] != [id(x) for x in self.lst(op[1])]:
                    return "copy-wrong"
            elif name == "deepcopy":
                c = copy.deepcopy(self.units[op[1]])
                return f"u{self.reg_tree(c)}"
            else:
                return "bad-op"
            return "ok"
        except IndexError:
            return "IndexError"
        except ValueError:
            return "ValueError"
        except Exception as e:  # anything else is not part of the model's vocabulary
            return type(e).__name__

    def dump(self):
        out = []
        for u in self.units:
            p = u.parent
            ps = "_" if p is None else str(self.uid(p))
            ch = [self.uid(c) for c in list(u._subunits)] if self.kind_of(u) == 3 else []
            out.append(ps + "|" + (",".join(map(str, ch)) if ch else "-"))
        return " ".join(out)

    def nav(self, u):
        res = []
        for attr in ("prev", "next"):
            try:
                res.append(f"u{self.uid(getattr(self.units[u], attr))}")
            except IndexError:
                res.append("IndexError")
            except ValueError:
                res.append("ValueError")
            except Exception as e:
                res.append(type(e).__name__)
        return " ".join(res)

    # ---- independent oracle: the property as stated ----------------------------------------
    def oracle(self):
        """returns list of textual problems"""
        Unit, PassSequence, TwoRollPass, Transport = self.cls
        probs = []
        listed_in = {}
        for s in self.units:
            if self.kind_of(s) != 3:
                continue
            sid = self.uid(s)
            lst = list(s._subunits)
            if not isinstance(s._subunits, Unit._SubUnitsList):
                probs.append(f"seq u{sid}: unit list is a {type(s._subunits).__name__}")
            for k, u in enumerate(lst):
                if u.parent is not s:
                    probs.append(f"listed unit u{self.uid(u)} of seq u{sid} names parent "
                                 f"{'None' if u.parent is None else 'u%d' % self.uid(u.parent)}")
                listed_in.setdefault(id(u), []).append(sid)
                # navigation agrees with the list order (only meaningful when listed once)
                if sum(1 for x in lst if x is u) == 1 and u.parent is s:
                    try:
                        pv = u.prev
                        if k == 0 or pv is not lst[k - 1]:
                            probs.append(f"prev of u{self.uid(u)} disagrees with list order")
                    except IndexError:
                        if k != 0:
                            probs.append(f"prev of u{self.uid(u)} raises IndexError but unit is not first")
                    except Exception as e:
                        probs.append(f"prev of u{self.uid(u)} raises {type(e).__name__}")
                    try:
                        nx = u.next
                        if k == len(lst) - 1 or nx is not lst[k + 1]:
                            probs.append(f"next of u{self.uid(u)} disagrees with list order")
                    except IndexError:
                        if k != len(lst) - 1:
                            probs.append(f"next of u{self.uid(u)} raises IndexError but unit is not last")
                    except Exception as e:
                        probs.append(f"next of u{self.uid(u)} raises {type(e).__name__}")
            # access by index / slice / label, sub-lists by type
            try:
                if s.units != lst or list(s) != lst or len(s) != len(lst):
                    probs.append(f"seq u{sid}: units/iter/len disagree with the list")
                for k, u in enumerate(lst):
                    if s[k] is not u or s[k - len(lst)] is not u:
                        probs.append(f"seq u{sid}[{k}] is not the {k}-th listed unit")
                    first = next(x for x in lst if x.label == u.label)
                    if s[u.label] is not first:
                        probs.append(f"seq u{sid}['{u.label}'] is not the first match")
                n_ = len(lst)
                for sl in (slice(1, None), slice(None, -1), slice(-2, None), slice(1, n_ - 1), slice(None, None, 2),
                           slice(None, None, -1), slice(n_ + 2, None), slice(-n_ - 3, 2)):
                    if s[sl] != lst[sl]:
                        probs.append(f"seq u{sid}[{sl.start}:{sl.stop}:{sl.step}] disagrees with the list")
                if [id(x) for x in s.roll_passes] != [id(x) for x in lst if isinstance(x, TwoRollPass)]:
                    probs.append(f"seq u{sid}.roll_passes is not the order-preserving sub-list")
                if [id(x) for x in s.transports] != [id(x) for x in lst if isinstance(x, Transport)]:
                    probs.append(f"seq u{sid}.transports is not the order-preserving sub-list")
            except Exception as e:
                probs.append(f"seq u{sid}: lookup raised {type(e).__name__}: {e}")
        for u in self.units:
            p = u.parent
            if p is not None:
                if self.uid(p) < 0:
                    probs.append(f"u{self.uid(u)} names an unknown parent")
                elif not any(x is u for x in p._subunits):
                    probs.append(f"removed/unlisted unit u{self.uid(u)} still names parent u{self.uid(p)}")
        return probs


def to_line(op):
    def L(us):
        return ",".join(map(str, us)) if us else "-"

    def O(i):
        return "_" if i is None else str(i)
    n = op[0]
    if n == "unit":
        return f"unit {op[1]} {op[2]}"
    if n == "seq":
        return f"seq {op[1]} {L(op[2])}"
    if n in ("append", "prepend", "remove"):
        return f"{n} {op[1]} {op[2]}"
    if n in ("insert", "setitem"):
        return f"{n} {op[1]} {op[2]} {op[3]}"
    if n in ("extend", "iadd"):
        return f"{n} {op[1]} {L(op[2])}"
    if n == "setslice":
        return f"setslice {op[1]} {O(op[2])} {O(op[3])} {L(op[4])}"
    if n in ("delitem", "drop"):
        return f"{n} {op[1]} {op[2]}"
    if n == "pop":
        return f"pop {op[1]} {op[2]}"
    if n == "delslice":
        return f"delslice {op[1]} {O(op[2])} {O(op[3])}"
    if n in ("clear", "flatten", "listcopy", "deepcopy"):
        return f"{n} {op[1]}"
    raise ValueError(op)


class Mirror:
    """generator-side shadow of the structure (only used to generate mostly valid, acyclic histories)"""

    def __init__(self):
        self.kind = []
        self.children = {}
        self.listed = {}

    def seqs(self):
        return [i for i, k in enumerate(self.kind) if k == 3]


def gen_history(rng, n_ops, fresh_only):
    """generate op tuples; uses a throw-away Real instance as the generator's mirror so that ops are
    well-formed w.r.t. the current structure (mostly valid inputs + some index errors)."""
    real = Real()
    ops = []
    nonfresh = False

    def listed_anywhere(u):
        obj = real.units[u]
        return any(real.kind_of(s) == 3 and any(x is obj for x in s._subunits) for s in real.units)

    def ancestors(s):
        res = set()
        cur = real.units[s]
        seen = 0
        while cur is not None and seen < 100:
            res.add(real.uid(cur))
            cur = cur.parent
            seen += 1
        return res

    def pick_units(s, k):
        nonlocal nonfresh
        cand = [i for i in range(len(real.units)) if i not in ancestors(s)]
        fresh = [i for i in cand if not listed_anywhere(i) and real.units[i].parent is None]
        res = []
        for _ in range(k):
            if fresh_only or rng.random() < 0.6:
                pool = [i for i in fresh if i not in res]
                if not pool:
                    # allocate a new one
                    kind = rng.choice([0, 0, 1, 2])
                    op = ("unit", kind, rng.randrange(4))
                    ops.append(op)
                    real.apply(op)
                    res.append(len(real.units) - 1)
                    continue
                res.append(rng.choice(pool))
            else:
                if not cand:
                    continue
                cand2 = [i for i in cand if real.kind_of(real.units[i]) != 3]  # never build cycles
                if not cand2:
                    continue
                u = rng.choice(cand2)
                if listed_anywhere(u) or u in res:
                    nonfresh = True
                res.append(u)
        return res

    # initial pool
    for _ in range(rng.randrange(2, 6)):
        op = ("unit", rng.choice([0, 1, 2]), rng.randrange(4))
        ops.append(op)
        real.apply(op)
    while len(ops) < n_ops:
        seqs = [i for i, u in enumerate(real.units) if real.kind_of(u) == 3]
        r = rng.random()
        if not seqs or r < 0.08:
            k = rng.randrange(0, 4)
            # construct from fresh units
            if fresh_only:
                us = [i for i in range(len(real.units)) if not listed_anywhere(i) and real.units[i].parent is None]
                rng.shuffle(us)
                us = us[:k]
            else:
                us = [rng.randrange(len(real.units)) for _ in range(k)]
                us = [u for u in us if real.kind_of(real.units[u]) != 3 or not listed_anywhere(u)]
                if any(listed_anywhere(u) for u in us) or len(set(us)) != len(us):
                    nonfresh = True
                # do not build cycles
            op = ("seq", rng.randrange(4), us)
        elif r < 0.14:
            op = ("unit", rng.choice([0, 1, 2]), rng.randrange(4))
        else:
            s = rng.choice(seqs)
            n = len(real.units[s]._subunits)
            idx = lambda: rng.randrange(-n - 2, n + 2) if rng.random() < 0.25 else (rng.randrange(-n, n) if n else 0)
            oidx = lambda: None if rng.random() < 0.3 else rng.randrange(-n - 2, n + 3)
            name = rng.choice(["append", "prepend", "insert", "extend", "iadd", "setitem", "setslice", "delitem",
                               "delslice", "pop", "remove", "clear", "drop", "flatten", "listcopy", "deepcopy",
                               "append", "insert", "setitem", "pop", "remove", "delitem"])
            if name in ("append", "prepend"):
                op = (name, s, pick_units(s, 1)[0])
            elif name == "insert":
                op = (name, s, idx(), pick_units(s, 1)[0])
            elif name in ("extend", "iadd"):
                op = (name, s, pick_units(s, rng.randrange(0, 4)))
            elif name == "setitem":
                op = (name, s, idx(), pick_units(s, 1)[0])
            elif name == "setslice":
                op = (name, s, oidx(), oidx(), pick_units(s, rng.randrange(0, 4)))
            elif name in ("delitem", "drop"):
                op = (name, s, idx())
            elif name == "delslice":
                op = (name, s, oidx(), oidx())
            elif name == "pop":
                op = (name, s, -1, True) if rng.random() < 0.4 else (name, s, idx(), False)
            elif name == "remove":
                lst = [real.uid(x) for x in real.units[s]._subunits]
                if lst and rng.random() < 0.8:
                    op = (name, s, rng.choice(lst))
                else:
                    op = (name, s, rng.randrange(len(real.units)))
            elif name == "deepcopy":
                # the model's deepCopy has no memo: only copy subtrees that list every unit once
                # (always the case when the invariant holds; sharing inside a copied subtree is not modelled)
                u = rng.randrange(len(real.units))
                seen = []

                def walk(x):
                    seen.append(id(x))
                    if real.kind_of(x) == 3 and len(seen) < 200:
                        for c in list(x._subunits):
                            walk(c)
                walk(real.units[u])
                if len(set(seen)) != len(seen) or real.oracle():
                    # deep copy also copies (and then drops) the ancestors; with stale lists around, which
                    # copy adopts a shared unit last depends on dict order - not modelled
                    continue
                op = (name, u)
            else:
                op = (name, s)
        ops.append(op)
        real.apply(op)
    return ops, nonfresh


def classify(ops, upto, nonfresh_hist):
    return "adopt-unit-still-listed-elsewhere" if nonfresh_hist else "inv-after-" + ops[upto][0]


def history_nonfresh(ops, upto):
    """does the prefix ops[:upto+1] insert a unit that is listed somewhere at that moment (or twice)?"""
    real = Real()
    for op in ops[:upto + 1]:
        ins = []
        if op[0] == "seq":
            ins = op[2]
        elif op[0] in ("append", "prepend"):
            ins = [op[2]]
        elif op[0] in ("insert", "setitem"):
            ins = [op[3]]
        elif op[0] in ("extend", "iadd"):
            ins = op[2]
        elif op[0] == "setslice":
            ins = op[4]
        if len(set(ins)) != len(ins):
            return True
        for u in ins:
            if u >= len(real.units):
                continue
            obj = real.units[u]
            if obj.parent is not None or any(real.kind_of(s) == 3 and any(x is obj for x in s._subunits)
                                             for s in real.units):
                return True
        real.apply(op)
    return False


def first_problem(ops):
    real = Real()
    for i, op in enumerate(ops):
        st = real.apply(op)
        if st not in ("ok", "IndexError", "ValueError") and not st.startswith("u"):
            return i, [f"operation {op[0]} raised/returned {st}"]
        p = real.oracle()
        if p:
            return i, p
    return None, []


def shrink(ops, upto):
    """greedy removal of non-allocating ops while some oracle problem persists"""
    ops = list(ops[:upto + 1])
    changed = True
    while changed:
        changed = False
        for i in range(len(ops) - 1, -1, -1):
            if ops[i][0] in ("unit", "seq", "deepcopy"):
                continue
            cand = ops[:i] + ops[i + 1:]
            idx, probs = first_problem(cand)
            if idx is not None:
                ops = cand[:idx + 1]
                changed = True
                break
    return ops


CORPUS = [
    # F9 regressions (fixed in the repository): item assignment, +=, remove, copy, flatten
    [("unit", 0, 0), ("unit", 0, 1), ("unit", 0, 2), ("seq", 0, [0, 1]), ("setitem", 3, 0, 2)],
    [("unit", 0, 0), ("unit", 0, 1), ("seq", 0, [0]), ("iadd", 2, [1])],
    [("unit", 0, 0), ("unit", 0, 1), ("seq", 0, [0, 1]), ("remove", 2, 1)],
    [("unit", 0, 0), ("unit", 0, 1), ("seq", 0, [0, 1]), ("listcopy", 2)],
    [("unit", 0, 0), ("unit", 1, 1), ("unit", 2, 2), ("seq", 0, [1, 2]), ("seq", 1, [0, 3]), ("flatten", 4),
     ("unit", 0, 3), ("append", 4, 5)],
    [("unit", 0, 0), ("unit", 0, 1), ("seq", 0, [0, 1]), ("pop", 2, -1, True)],
    [("unit", 0, 0), ("unit", 0, 1), ("unit", 0, 2), ("seq", 0, [0, 1]), ("setslice", 3, 0, 1, [2])],
    [("unit", 1, 0), ("unit", 2, 1), ("seq", 0, [0, 1]), ("seq", 1, [2]), ("deepcopy", 2), ("deepcopy", 3)],
    # F10 (known finding): a unit adopted while it is still listed elsewhere
    [("unit", 0, 0), ("seq", 0, [0]), ("seq", 1, [0])],
]


def run_history(ctx, ops, lean_lines, meta):
    """execute on the implementation; queue the lines for the model; returns per-op observations"""
    real = Real()
    obs = []
    for i, op in enumerate(ops):
        st = real.apply(op)
        d = real.dump()
        navs = [real.nav(u) for u in range(len(real.units))]
        obs.append((st, d, navs))
        lean_lines.append(to_line(op))
        lean_lines.append("obs")
        for u in range(len(real.units)):
            lean_lines.append(f"nav {u}")
        probs = real.oracle()
        if st not in ("ok", "IndexError", "ValueError") and not st.startswith("u"):
            probs = [f"operation {op[0]} raised/returned {st}"] + probs
        if probs and "violation" not in meta:
            meta["violation"] = (i, probs)
    return obs


def run(ctx):
    n_hist = ctx.budget(250, 6000)
    max_ops = 22 if ctx.tier == "quick" else 40
    histories = [(list(c), None) for c in CORPUS]
    for k in range(n_hist):
        fresh_only = ctx.rng.random() < 0.8
        ops, nonfresh = gen_history(ctx.rng, ctx.rng.randrange(4, max_ops), fresh_only)
        histories.append((ops, fresh_only))
    lean_lines = []
    all_obs = []
    for ops, fresh_only in histories:
        lean_lines.append("reset")
        meta = {}
        obs = run_history(ctx, ops, lean_lines, meta)
        all_obs.append((ops, obs, meta))
        canon = [to_line(o) for o in ops]
        nontriv = any(o[0] not in ("unit", "seq") for o in ops)
        ctx.case(canon, nontriv)
        for o in ops:
            ctx.count("op:" + o[0])
        ctx.count("stream:" + ("corpus" if fresh_only is None else "fresh" if fresh_only else "any"))
        for (st, _, _) in obs:
            if st in ("IndexError", "ValueError"):
                ctx.count("err:" + st)
        if len(ctx.samples) < 3 and nontriv and fresh_only is not None:
            ctx.sample({"history": canon, "final_state": obs[-1][1]})
        if "violation" in meta:
            i, probs = meta["violation"]
            nf = history_nonfresh(ops, i)
            if nf:
                key = "adopt-unit-still-listed-elsewhere"
                small = ops[:i + 1]
            else:
                small = shrink(ops, i)
                j, probs2 = first_problem(small)
                probs = probs2 or probs
                key = "inv-after-" + small[-1][0]
            ctx.violation(key, probs[0], {"ops": [to_line(o) for o in small], "problems": probs[:5],
                                          "how": "driver/props/c13.py replay: apply the op lines to real objects "
                                                 "(Real.apply) and run Real.oracle()"})
    # ---- model side ------------------------------------------------------------------------
    if getattr(ctx, "model_available", True):
        out = ctx.lean_model(MODEL, lean_lines)
        pos = 0
        for ops, obs, meta in all_obs:
            pos += 1  # reset
            bad = None
            n_units = 0
            for i, (st, d, navs) in enumerate(obs):
                m_st = out[pos]
                m_d = out[pos + 1]
                m_navs = out[pos + 2: pos + 2 + len(navs)]
                pos += 2 + len(navs)
                if bad is None and (m_st != st or m_d != d or m_navs != navs):
                    bad = (i, {"op": to_line(ops[i]), "impl": [st, d, navs], "model": [m_st, m_d, m_navs]})
            if bad is None:
                ctx.validated()
            else:
                i, info = bad
                ctx.disagreement(f"model and implementation differ after op #{i} ({info['op']})",
                                 {"ops": [to_line(o) for o in ops[:i + 1]], **info})
        if pos != len(out):
            ctx.disagreement("model output length mismatch", {"expected": pos, "got": len(out)})


def replay(ctx, data):
    r = data.get("replay", data)
    ops = []
    for line in r["ops"]:
        ops.append(parse_line(line))
    i, probs = first_problem(ops)
    if i is not None:
        ctx.violation(data.get("key", "replay"), probs[0], r)


def parse_line(line):
    t = line.split()

    def L(s):
        return [] if s == "-" else [int(x) for x in s.split(",")]

    def O(s):
        return None if s == "_" else int(s)
    n = t[0]
    if n == "unit":
        return ("unit", int(t[1]), int(t[2]))
    if n == "seq":
        return ("seq", int(t[1]), L(t[2]))
    if n in ("append", "prepend", "remove"):
        return (n, int(t[1]), int(t[2]))
    if n in ("insert", "setitem"):
        return (n, int(t[1]), int(t[2]), int(t[3]))
    if n in ("extend", "iadd"):
        return (n, int(t[1]), L(t[2]))
    if n == "setslice":
        return (n, int(t[1]), O(t[2]), O(t[3]), L(t[4]))
    if n in ("delitem", "drop"):
        return (n, int(t[1]), int(t[2]))
    if n == "pop":
        return (n, int(t[1]), int(t[2]), False)
    if n == "delslice":
        return (n, int(t[1]), O(t[2]), O(t[3]))
    return (n, int(t[1]))
