"""C13 - the unit tree stays consistent under every edit of a sequence.

Tie: T + K.
T: driver/translate/c13_listops.py re-reads, on every run, `Unit._SubUnitsList` (every overridden mutator), `Unit.parent /
prev / next / prev_of / next_of`, `PassSequence.__init__ / prepend / append / drop / flatten / units / roll_passes /
transports / __getitem__ / __len__ / __iter__` and the two `__deepcopy__` methods and writes them as programs over a small
instruction set to lean/PyrollModel/Gen/C13.lean; lean/PyrollProps/C13.lean proves that running each program
(lean/PyrollModel/TreeProg.lean) equals the hand-written model (`op_program_refines_step`, `prev_program_refines`, ...;
deep copies and the parent slot are pinned).  A source change either keeps these proofs (nothing observable changed) or
breaks the build / leaves the translated subset (`ctx.tie_breaks`): broken tie -> extended search for a failing input.
K: the harness drives real PassSequence / Unit / RollPass / Transport objects and the Lean model
(lean/PyrollModel/Tree.lean) with the same operation lines and compares the complete parent/children state after every
operation; the independent oracle walks every unit ever created and checks the property as stated.
"""
import copy
import itertools
from collections import abc as _abc

ID = "C13"
LEAN_MODULES = ["PyrollProps.C13"]
MODEL = "c13"                                   # lean/Drivers/c13.lean
MODEL_MODULES = ["PyrollModel.TreeDriver"]      # what that driver imports (built before the model is run)
RULE = ("random edit histories over a pool of real units (plain Unit, TwoRollPass, Transport, nested PassSequence); "
        "a case is one history; non-trivial = contains at least one list mutation besides construction; "
        "distinct by the canonical op list. 80% of the histories only insert units that are unlisted at that moment "
        "or that lie in the range which the same item/slice assignment replaces (valid stream: in-place reversal, "
        "rotation, permutation, l[i] = l[i], extended slices l[i:j:k] = ... with matching sizes), the rest may insert "
        "units that are still listed elsewhere (F10 stream). After every op: parent/children/prev/next of every unit "
        "and prev_of/next_of for every unit and type are compared with the model and checked by the oracle. "
        "Every iterable argument (extend, +=, slice / extended-slice assignment; construction: Sequence forms only) is "
        "handed over in one of several forms: list, tuple, Sequence ABC instance, __iter__-only and __getitem__-only "
        "objects (re-iterable), generator, iter(), map, reversed, itertools.chain (one-shot) and - for re-insertions - a "
        "generator that reads the edited list lazily; after every op the content of the edited list is compared with "
        "what the same op does to a plain python list. Second stream (implementation and oracle only): histories over "
        "units that are really solved (oval / round / three-roll passes, transports, cooling pipe, rotator, nested "
        "sequences) with steps solve / other disk_element_count (more, fewer, 0, unset) / solve again / deep copy / "
        "flatten / list edits of sequences and of disk element lists; after every step the oracle walks the sub-unit "
        "list of every unit ever seen, incl. the disk elements of earlier solves.")
TRUSTED_EXTRA = ["AST pattern matcher for the list / sequence methods (driver/translate/c13_listops.py) and the meaning given to "
                 "its instructions (lean/PyrollModel/TreeProg.lean: python list primitives as modelled); its output is consumed "
                 "by the `*_program_refines*` theorems and the model they tie it to is run against the real objects (K)"]
ASSUMPTIONS = [
    "CPython list primitive methods, weakref and copy.deepcopy memo semantics are modelled, not verified",
    "the iterator protocol is modelled by Tree.Src (one-shot iterables yield their items during the first iteration only)",
    "disk element creation while solving (DiskElementUnit.init_solve) is outside the Lean model and the translator: it is "
    "covered by the property oracle on sampled solve histories (iteration limit 6 during a solve op)",
    "the model is tied to the code by sampled differential runs (state compared after every op) and, statement by "
    "statement, by the programs translated from the source (refinement theorems); `copy.deepcopy` (memo protocol) and the "
    "weak parent slot are pinned, not run",
]

KINDS = {0: "Unit", 1: "TwoRollPass", 2: "Transport", 3: "PassSequence"}
OVERLAP_P = 0.4       # share of item/slice assignments that deliberately re-insert units of the replaced range

# ---- how an iterable argument is handed over ---------------------------------------------------
# The property quantifies over the edits, not over the container the new units arrive in: `extend`, `+=` and slice
# assignment take any iterable (`Iterable[Unit]` in the signatures; python list semantics), the constructor a Sequence.
REITERABLE = ("list", "tuple", "seqabc", "iterable", "getitem")
ONE_SHOT = ("gen", "iter", "map", "rev", "chain")      # yield their items during the FIRST iteration only
LIVE = "live"           # one-shot AND lazy: reads the edited list itself, position by position, when it is iterated
FORMS = REITERABLE + ONE_SHOT + (LIVE,)
SEQUENCE_FORMS = ("list", "tuple", "seqabc")            # what `PassSequence(units: Sequence[Unit])` is promised
FORM_P = 0.5          # share of iterable arguments that are not handed over as a plain list
LIB_OPS = ("mk", "solve", "setcount")     # ops of the second stream: sub-unit lists the library (re)builds itself
DESIGNS = ("oval pass", "round pass", "transport by duration", "transport by length", "rotator", "three-roll pass",
           "cooling pipe")
DISKED = (0, 1, 2, 3, 5, 6)                # designs that can be subdivided in disk elements
SOLVE_ROUNDS = 6                           # iteration limit while a `solve` op runs
OK_STATUS = ("ok", "IndexError", "ValueError", "solve-failed")
ARG_AT = {"seq": 2, "extend": 2, "iadd": 2, "setslice": 4, "setsliceext": 5}    # position of the unit ids in the op tuple


def form_of(op):
    """the form tag of an op with an iterable argument (optional last element of the tuple; default: a list)"""
    k = ARG_AT.get(op[0])
    if k is None or len(op) <= k + 1:
        return "list"
    return op[k + 1]


def with_form(op, form):
    k = ARG_AT[op[0]]
    return tuple(op[:k + 1]) + (() if form == "list" else (form,))


def form_class(form):
    return ("" if form == "list" else "-oneshot" if form in ONE_SHOT else "-" + form)


class _SeqArg(_abc.Sequence):
    def __init__(self, items):
        self._items = list(items)

    def __getitem__(self, i):
        return self._items[i]

    def __len__(self):
        return len(self._items)


class _IterArg:
    """re-iterable, but neither a Sequence nor sized: every iter() starts afresh"""
    def __init__(self, items):
        self._items = list(items)

    def __iter__(self):
        return iter(list(self._items))


class _GetItemArg:
    """iterable only through the legacy protocol (__getitem__ with 0, 1, ... until IndexError)"""
    def __init__(self, items):
        self._items = list(items)

    def __getitem__(self, i):
        if not isinstance(i, int) or i < 0:
            raise TypeError("legacy iteration only")
        return self._items[i]


def make_arg(form, objs, target=None):
    """the units `objs` handed over in the given form; `target` is the list being edited (form 'live')"""
    objs = list(objs)
    if form == "list":
        return objs
    if form == "tuple":
        return tuple(objs)
    if form == "seqabc":
        return _SeqArg(objs)
    if form == "iterable":
        return _IterArg(objs)
    if form == "getitem":
        return _GetItemArg(objs)
    if form == "gen":
        return (u for u in objs)
    if form == "iter":
        return iter(objs)
    if form == "map":
        return map(lambda u: u, objs)
    if form == "rev":
        return reversed(objs[::-1])
    if form == "chain":
        return itertools.chain(objs[:1], objs[1:])
    if form == LIVE:
        # l[i:j] = (l[p] for p in ...): the positions are fixed now, the list is read when the generator runs.
        # list semantics: the right-hand side is evaluated completely before the list changes.
        # Units that are not in the list at this moment are yielded directly.  If the list has been cut down before
        # the generator runs, `target[p]` raises IndexError exactly like the python expression would.
        pos = [next((p for p, x in enumerate(target) if x is u), None) for u in objs]
        return (u if p is None else target[p] for u, p in zip(objs, pos))
    raise ValueError(form)


class _Budget(Exception):
    """harness side: prev_of / next_of did not come back within the allowed number of isinstance checks"""


def _probe(t, limit):
    """a type that answers isinstance() exactly like `t` but gives up after `limit` checks, so that a
    non-terminating type search (possible when sibling parents are inconsistent) cannot hang the harness"""
    class _Meta(type):
        n = 0

        def __instancecheck__(cls, x):
            _Meta.n += 1
            if _Meta.n > limit:
                raise _Budget()
            return isinstance(x, t)
    return _Meta("Probe_" + t.__name__, (), {})


def _watchdog(signum, frame):
    raise _Budget()


def _guarded(f, t):
    """f(t) under a CPU-time watchdog (backstop for a type search that never calls isinstance): the unit, the
    exception class name, or 'Loop'.  Handler and timer are restored."""
    import signal
    old = signal.signal(signal.SIGVTALRM, _watchdog)
    signal.setitimer(signal.ITIMER_VIRTUAL, 2.0)      # 2 s of CPU inside one prev_of/next_of call
    try:
        try:
            return f(t)
        finally:
            signal.setitimer(signal.ITIMER_VIRTUAL, 0)
            signal.signal(signal.SIGVTALRM, old)
    except _Budget:
        return "Loop"
    except Exception as e:          # raised from inside pyroll
        return type(e).__name__


def nav_of(u, direction, t, limit=64):
    """outcome of u.prev_of(t) / u.next_of(t): the unit, or the exception class name, or 'Loop';
    called first with a counting stand-in for `t`, then (when that came back) with `t` itself"""
    f = getattr(u, direction)
    r1 = _guarded(f, _probe(t, limit))
    if r1 == "Loop":
        return "Loop"
    r2 = _guarded(f, t)
    if r1 is not r2 and r1 != r2:
        return ("Differs", r1, r2)
    return r2


def _imports():
    from pyroll.core import Unit, PassSequence, BaseRollPass, Transport, Roll, BoxGroove
    return Unit, PassSequence, BaseRollPass, Transport, Roll, BoxGroove


class Real:
    """Executes op tuples on the real implementation."""

    def __init__(self):
        Unit, PassSequence, TwoRollPass, Transport, Roll, BoxGroove = _imports()
        self.cls = (Unit, PassSequence, TwoRollPass, Transport)
        self.roll = Roll(groove=BoxGroove(r1=1e-3, r2=2e-3, depth=5e-3, usable_width=20e-3, ground_width=15e-3),
                         nominal_radius=0.1)
        self.units = []
        self.ids = {}
        self.content = None
        self.solved = False         # a `solve` op has run in this history

    def in_profile(self):
        """the workpiece every `solve` op starts from (a fresh object per solve)"""
        from pyroll.core import Profile
        return Profile.round(diameter=30e-3, temperature=1200 + 273.15, strain=0, material=["C45", "steel"],
                             flow_stress=100e6, length=1)

    def make_design(self, design, count, lab):
        """a unit that can really be solved (`mk` op): roll passes, transports and a rotator with realistic data;
        `count` = requested subdivision in disk elements (None: not given, the library's default applies)"""
        from pyroll.core import (RollPass, ThreeRollPass, Transport, CoolingPipe, Rotator, Roll, RoundGroove,
                                 CircularOvalGroove)
        kw = {} if count is None else {"disk_element_count": count}
        d = design % len(DESIGNS)
        if d == 0:
            return RollPass(label=f"L{lab}", gap=2e-3, roll=Roll(
                groove=CircularOvalGroove(depth=8e-3, r1=6e-3, r2=40e-3), nominal_radius=160e-3,
                rotational_frequency=1), **kw)
        if d == 1:
            return RollPass(label=f"L{lab}", gap=2e-3, roll=Roll(
                groove=RoundGroove(r1=1e-3, r2=12.5e-3, depth=11.5e-3), nominal_radius=160e-3,
                rotational_frequency=1), **kw)
        if d == 2:
            return Transport(label=f"L{lab}", duration=1, **kw)
        if d == 3:
            return Transport(label=f"L{lab}", length=2, **kw)
        if d == 4:
            return Rotator(label=f"L{lab}", rotation=90)
        if d == 5:
            return ThreeRollPass(label=f"L{lab}", gap=2e-3, roll=Roll(
                groove=CircularOvalGroove(depth=8e-3, r1=6e-3, r2=40e-3, pad_angle=30), nominal_radius=160e-3,
                rotational_frequency=1), **kw)
        return CoolingPipe(label=f"L{lab}", length=2, inner_radius=30e-3, coolant_volume_flux=0.01,
                           coolant_temperature=300, **kw)

    def harvest(self):
        """register, in a fixed order, every unit that is listed in a unit seen before and has not been seen yet:
        sub-units the LIBRARY created on its own (disk elements made while a unit is solved, copies made by a deep
        copy).  Everything seen once stays registered (strong reference), so the oracle keeps walking the units of
        earlier solves.  In a history of plain list edits there is nothing to find."""
        i = 0
        while i < len(self.units):
            for c in list(self.units[i]._subunits):
                if id(c) not in self.ids:
                    self.reg(c)
            i += 1

    def subtree(self, u):
        """u and everything listed below it (each object once)"""
        out, seen = [], set()
        stack = [u]
        while stack:
            x = stack.pop()
            if id(x) in seen:
                continue
            seen.add(id(x))
            out.append(x)
            stack.extend(reversed(list(x._subunits)))
        return out

    def reg(self, u):
        self.ids[id(u)] = len(self.units)
        self.units.append(u)
        return len(self.units) - 1

    def uid(self, u):
        return self.ids.get(id(u), -2)

    def kind_of(self, u):
        Unit, PassSequence, TwoRollPass, Transport = self.cls
        if isinstance(u, PassSequence):
            return 3
        if isinstance(u, TwoRollPass):
            return 1
        if isinstance(u, Transport):
            return 2
        return 0

    def lst(self, s):
        return self.units[s]._subunits

    def reg_tree(self, u):
        """register a deep copy in pre-order (the allocation order of the model)"""
        i = self.reg(u)
        if self.kind_of(u) == 3:
            for c in list(u._subunits):
                self.reg_tree(c)
        return i

    def plain_list_result(self, op):
        """(edited sequence object, what its unit list has to contain after `op`) - computed in the state BEFORE the
        op by doing the same edit on a plain python list holding the same objects (a failing edit changes nothing).
        None for ops that edit no existing list."""
        Unit, PassSequence, TwoRollPass, Transport = self.cls
        n, U = op[0], self.units
        if n in ("unit", "seq", "deepcopy") + LIB_OPS:
            return None
        s = U[op[1]]
        before = list(s._subunits)
        pl = list(before)
        try:
            if n == "append":
                pl.append(U[op[2]])
            elif n == "prepend":
                pl.insert(0, U[op[2]])
            elif n == "insert":
                pl.insert(op[2], U[op[3]])
            elif n in ("extend", "iadd"):
                pl.extend([U[i] for i in op[2]])
            elif n == "setitem":
                pl[op[2]] = U[op[3]]
            elif n == "setslice":
                pl[op[2]:op[3]] = [U[i] for i in op[4]]
            elif n == "setsliceext":
                pl[op[2]:op[3]:op[4]] = [U[i] for i in op[5]]
            elif n == "delsliceext":
                del pl[op[2]:op[3]:op[4]]
            elif n in ("delitem", "drop"):
                del pl[op[2]]
            elif n == "delslice":
                del pl[op[2]:op[3]]
            elif n == "pop":
                pl.pop(op[2])
            elif n == "remove":
                pl.remove(U[op[2]])
            elif n == "clear":
                pl.clear()
            elif n == "flatten":
                # one level: a nested sequence is replaced by its units (and emptied, so a second listing of the
                # same nested sequence contributes nothing)
                pl, done = [], set()
                for item in before:
                    if isinstance(item, PassSequence):
                        if id(item) not in done:
                            pl.extend(list(item._subunits))
                            done.add(id(item))
                    else:
                        pl.append(item)
            elif n == "listcopy":
                pass
            else:
                return None
        except (IndexError, ValueError):
            pl = before
        return s, pl

    def arg(self, op, target=None):
        """the iterable argument of `op` in the form the op asks for"""
        return make_arg(form_of(op), [self.units[i] for i in op[ARG_AT[op[0]]]], target)

    def apply(self, op):
        """execute one op; afterwards `self.content` holds the problem (or None) of the clause 'the edited unit list
        contains what the same edit gives on a plain list'"""
        self.content = None
        want = self.plain_list_result(op)
        # solving a unit or asking for another subdivision is no edit of any SEQUENCE's list of units
        held = ([(s, list(s._subunits)) for s in self.units if self.kind_of(s) == 3]
                if op[0] in ("solve", "setcount") else [])
        st = self._apply(op)
        self.harvest()
        for s, before in held:
            got = list(s._subunits)
            if [id(x) for x in got] != [id(x) for x in before] and not self.content:
                def L_(xs):
                    return "[" + ", ".join(f"u{self.uid(x)}" for x in xs) + "]"
                self.content = (f"content: after {op[0]} seq u{self.uid(s)} lists {L_(got)}, before it listed "
                                f"{L_(before)} ({op[0]} is no edit of a sequence)")
        if op[0] == "seq" and st.startswith("u"):
            want = (self.units[int(st[1:])], [self.units[i] for i in op[2]])
        if want is not None:
            s, pl = want
            got = list(s._subunits)
            if [id(x) for x in got] != [id(x) for x in pl]:
                def L(xs):
                    return "[" + ", ".join(f"u{self.uid(x)}" for x in xs) + "]"
                self.content = (f"content: after {op[0]} ({form_of(op)} argument) seq u{self.uid(s)} lists {L(got)}, "
                                f"the same edit of a plain list gives {L(pl)}" if op[0] in ARG_AT else
                                f"content: after {op[0]} seq u{self.uid(s)} lists {L(got)}, "
                                f"the same edit of a plain list gives {L(pl)}")
        return st

    def _apply(self, op):
        Unit, PassSequence, TwoRollPass, Transport = self.cls
        name = op[0]
        try:
            if name == "unit":
                k, lab = op[1], op[2]
                if k == 0:
                    u = Unit(label=f"L{lab}")
                elif k == 1:
                    # every kind of roll pass / transport counts for roll_passes / transports
                    from pyroll.core import TwoRollPass as _Two, ThreeRollPass as _Three
                    cls_ = _Three if (lab + len(self.units)) % 3 == 0 else _Two
                    u = cls_(roll=self.roll, label=f"L{lab}")
                else:
                    from pyroll.core import CoolingPipe as _Pipe
                    u = (_Pipe if (lab + len(self.units)) % 3 == 0 else Transport)(label=f"L{lab}")
                return f"u{self.reg(u)}"
            if name == "seq":
                s = PassSequence(self.arg(op), label=f"L{op[1]}")
                return f"u{self.reg(s)}"
            if name == "mk":
                return f"u{self.reg(self.make_design(op[1], op[2], len(self.units)))}"
            if name == "solve":
                # the public entry point; it may fail for physical reasons (a profile that does not fit the next
                # groove, a disk element solved on its own ...) - the tree has to be consistent either way
                # Nested iteration loops that do not converge (sequence x unit x disk element, 100 rounds each by
                # default) would take minutes: the loops are cut short for the time of the call (the setting is put
                # back); the tree must be consistent whether or not the numbers have settled.
                from pyroll.core import Config
                self.solved = True
                old = Config.DEFAULT_MAX_ITERATION_COUNT
                Config.DEFAULT_MAX_ITERATION_COUNT = SOLVE_ROUNDS
                try:
                    self.units[op[1]].solve(self.in_profile())
                except Exception:
                    return "solve-failed"
                finally:
                    Config.DEFAULT_MAX_ITERATION_COUNT = old
                return "ok"
            if name == "setcount":
                u = self.units[op[1]]
                if op[2] is None:
                    u.__dict__.pop("disk_element_count", None)      # back to the library's default
                else:
                    u.disk_element_count = op[2]
                return "ok"
            if name == "append":
                self.units[op[1]].append(self.units[op[2]])
            elif name == "prepend":
                self.units[op[1]].prepend(self.units[op[2]])
            elif name == "insert":
                self.lst(op[1]).insert(op[2], self.units[op[3]])
            elif name == "extend":
                self.lst(op[1]).extend(self.arg(op))
            elif name == "iadd":
                u = self.units[op[1]]
                u._subunits += self.arg(op)
            elif name == "setitem":
                self.lst(op[1])[op[2]] = self.units[op[3]]
            elif name == "setslice":
                self.lst(op[1])[op[2]:op[3]] = self.arg(op, self.lst(op[1]))
            elif name == "setsliceext":
                self.lst(op[1])[op[2]:op[3]:op[4]] = self.arg(op, self.lst(op[1]))
            elif name == "delsliceext":
                del self.lst(op[1])[op[2]:op[3]:op[4]]
            elif name == "delitem":
                del self.lst(op[1])[op[2]]
            elif name == "delslice":
                del self.lst(op[1])[op[2]:op[3]]
            elif name == "pop":
                if op[2] == -1 and op[3]:
                    r = self.lst(op[1]).pop()
                else:
                    r = self.lst(op[1]).pop(op[2])
                return f"u{self.uid(r)}"
            elif name == "remove":
                self.lst(op[1]).remove(self.units[op[2]])
            elif name == "clear":
                self.lst(op[1]).clear()
            elif name == "drop":
                self.units[op[1]].drop(op[2])
            elif name == "flatten":
                self.units[op[1]].flatten()
            elif name == "listcopy":
                r = self.lst(op[1]).copy()
                if r is None or [id(x) for x in r] != [id(x) for x in self.lst(op[1])]:
                    return "copy-wrong"
            elif name == "deepcopy":
                c = copy.deepcopy(self.units[op[1]])
                if self.solved:
                    # copying a unit that is not the root of its tree also copies (and drops) its owners; solved units
                    # may sit in reference cycles (profiles, caches): make sure the dropped copies are gone before the oracle looks
                    import gc
                    gc.collect()
                return f"u{self.reg_tree(c)}"
            else:
                return "bad-op"
            return "ok"
        except IndexError:
            return "IndexError"
        except ValueError:
            return "ValueError"
        except Exception as e:  # anything else is not part of the model's vocabulary
            return type(e).__name__

    def dump(self):
        out = []
        for u in self.units:
            p = u.parent
            ps = "_" if p is None else str(self.uid(p))
            ch = [self.uid(c) for c in list(u._subunits)] if self.kind_of(u) == 3 else []
            out.append(ps + "|" + (",".join(map(str, ch)) if ch else "-"))
        return " ".join(out)

    def nav(self, u):
        res = []
        for attr in ("prev", "next"):
            try:
                res.append(f"u{self.uid(getattr(self.units[u], attr))}")
            except IndexError:
                res.append("IndexError")
            except ValueError:
                res.append("ValueError")
            except Exception as e:
                res.append(type(e).__name__)
        return " ".join(res)

    def listed_twice(self):
        seen = set()
        for q in self.units:
            if self.kind_of(q) == 3:
                for x in q._subunits:
                    if id(x) in seen:
                        return True
                    seen.add(id(x))
        return False

    def navof(self, u, q):
        """prev_of / next_of with the type standing for the model's query `q` (0 Unit, 1 roll pass, 2 transport,
        3 pass sequence), in the model's vocabulary"""
        Unit, PassSequence, TwoRollPass, Transport = self.cls
        t = (Unit, TwoRollPass, Transport, PassSequence)[q]
        res = []
        for d in ("prev_of", "next_of"):
            r = nav_of(self.units[u], d, t)
            res.append(r if isinstance(r, str) else "Differs" if isinstance(r, tuple) else f"u{self.uid(r)}")
        return " ".join(res)

    def query_types(self, u):
        """the types navigation by type is checked with: the base types named by the property and the unit's own
        type with all its base types below Unit"""
        from pyroll.core import RollPass
        Unit, PassSequence, BaseRollPass, Transport = self.cls
        ts = [Unit, BaseRollPass, RollPass, Transport, PassSequence]
        for c in type(u).__mro__:
            if isinstance(c, type) and issubclass(c, Unit) and c not in ts:
                ts.append(c)
        return ts

    def name(self, r):
        if isinstance(r, tuple):       # ("Differs", with the counting stand-in, with the type itself)
            return "/".join(self.name(x) for x in r)
        return r if isinstance(r, str) else f"u{self.uid(r)}"

    # ---- independent oracle: the property as stated ----------------------------------------
    def oracle(self, navof=True):
        """returns list of textual problems"""
        Unit, PassSequence, TwoRollPass, Transport = self.cls
        probs = []
        listed_in = {}
        for s in self.units:
            # every unit owns a list of sub-units (a sequence its units, a roll pass / transport the disk elements the
            # library creates while solving): listed <=> names the owner, navigation agrees with the list order
            is_seq = self.kind_of(s) == 3
            if not is_seq and not s._subunits:
                continue
            sid = self.uid(s)
            lst = list(s._subunits)
            if is_seq and not isinstance(s._subunits, Unit._SubUnitsList):
                probs.append(f"seq u{sid}: unit list is a {type(s._subunits).__name__}")
            for k, u in enumerate(lst):
                if u.parent is not s:
                    probs.append(f"listed unit u{self.uid(u)} of {'seq' if is_seq else 'unit'} u{sid} names parent "
                                 f"{'None' if u.parent is None else 'u%d' % self.uid(u.parent)}")
                listed_in.setdefault(id(u), []).append(sid)
                # navigation agrees with the list order (only meaningful when listed once)
                if sum(1 for x in lst if x is u) == 1 and u.parent is s:
                    try:
                        pv = u.prev
                        if k == 0 or pv is not lst[k - 1]:
                            probs.append(f"prev of u{self.uid(u)} disagrees with list order")
                    except IndexError:
                        if k != 0:
                            probs.append(f"prev of u{self.uid(u)} raises IndexError but unit is not first")
                    except Exception as e:
                        probs.append(f"prev of u{self.uid(u)} raises {type(e).__name__}")
                    try:
                        nx = u.next
                        if k == len(lst) - 1 or nx is not lst[k + 1]:
                            probs.append(f"next of u{self.uid(u)} disagrees with list order")
                    except IndexError:
                        if k != len(lst) - 1:
                            probs.append(f"next of u{self.uid(u)} raises IndexError but unit is not last")
                    except Exception as e:
                        probs.append(f"next of u{self.uid(u)} raises {type(e).__name__}")
            # access by index / slice / label, sub-lists by type
            try:
                if not is_seq:
                    pass
                elif s.units != lst or list(s) != lst or len(s) != len(lst):
                    probs.append(f"seq u{sid}: units/iter/len disagree with the list")
                for k, u in enumerate(lst if is_seq else []):
                    if s[k] is not u or s[k - len(lst)] is not u:
                        probs.append(f"seq u{sid}[{k}] is not the {k}-th listed unit")
                    first = next(x for x in lst if x.label == u.label)
                    if s[u.label] is not first:
                        probs.append(f"seq u{sid}['{u.label}'] is not the first match")
                n_ = len(lst)
                for sl in () if not is_seq else (slice(1, None), slice(None, -1), slice(-2, None), slice(1, n_ - 1), slice(None, None, 2),
                           slice(None, None, -1), slice(n_ + 2, None), slice(-n_ - 3, 2)):
                    if s[sl] != lst[sl]:
                        probs.append(f"seq u{sid}[{sl.start}:{sl.stop}:{sl.step}] disagrees with the list")
                if not is_seq:
                    pass
                elif [id(x) for x in s.roll_passes] != [id(x) for x in lst if isinstance(x, TwoRollPass)]:
                    probs.append(f"seq u{sid}.roll_passes is not the order-preserving sub-list")
                if is_seq and [id(x) for x in s.transports] != [id(x) for x in lst if isinstance(x, Transport)]:
                    probs.append(f"seq u{sid}.transports is not the order-preserving sub-list")
            except Exception as e:
                probs.append(f"seq u{sid}: lookup raised {type(e).__name__}: {e}")
            # navigation by type agrees with the list order: prev_of(t) is the nearest EARLIER listed unit that is
            # an instance of t, next_of(t) the nearest LATER one, IndexError when there is none.  Checked when the
            # parents and prev/next of this list are consistent (otherwise that is the problem to report).
            if navof and not probs and len(set(map(id, lst))) == len(lst):
                for k, u in enumerate(lst):
                    for t in self.query_types(u):
                        want_p = next((x for x in reversed(lst[:k]) if isinstance(x, t)), "IndexError")
                        want_n = next((x for x in lst[k + 1:] if isinstance(x, t)), "IndexError")
                        for d, want in (("prev_of", want_p), ("next_of", want_n)):
                            got = nav_of(u, d, t)
                            if got is not want and not (isinstance(want, str) and got == want):
                                probs.append(f"{d}: u{self.uid(u)}.{d}({t.__name__}) gives {self.name(got)}, "
                                             f"the list order of {'seq' if is_seq else 'unit'} u{sid} says "
                                             f"{self.name(want)}")
        for u in self.units:
            p = u.parent
            if navof and p is None and not probs:
                # documented: ValueError when the unit has no parent
                for d in ("prev_of", "next_of"):
                    got = nav_of(u, d, Unit)
                    if got != "ValueError":
                        probs.append(f"{d}: u{self.uid(u)}.{d}(Unit) gives {self.name(got)} although the unit "
                                     f"has no parent (ValueError expected)")
            if p is not None:
                if self.uid(p) < 0:
                    probs.append(f"u{self.uid(u)} names an unknown parent")
                elif not any(x is u for x in p._subunits):
                    probs.append(f"removed/unlisted unit u{self.uid(u)} still names parent u{self.uid(p)}")
        # the edit itself: extend / += / slice assignment / ... store exactly what the same edit of a plain list
        # stores, whatever container the new units arrive in (set by `apply` for the op executed last)
        if self.content:
            probs.append(self.content)
        return probs


def to_line(op):
    """the op as a line of the model driver's protocol (also the replay format); an iterable argument that is not
    handed over as a list carries its form as a last token `@<form>`"""
    line = _to_line(op)
    f = form_of(op)
    return line if f == "list" else f"{line} @{f}"


def _to_line(op):
    def L(us):
        return ",".join(map(str, us)) if us else "-"

    def O(i):
        return "_" if i is None else str(i)
    n = op[0]
    if n == "unit":
        return f"unit {op[1]} {op[2]}"
    if n == "seq":
        return f"seq {op[1]} {L(op[2])}"
    if n == "mk":
        return f"mk {op[1]} {O(op[2])}"
    if n == "solve":
        return f"solve {op[1]}"
    if n == "setcount":
        return f"setcount {op[1]} {O(op[2])}"
    if n in ("append", "prepend", "remove"):
        return f"{n} {op[1]} {op[2]}"
    if n in ("insert", "setitem"):
        return f"{n} {op[1]} {op[2]} {op[3]}"
    if n in ("extend", "iadd"):
        return f"{n} {op[1]} {L(op[2])}"
    if n == "setslice":
        return f"setslice {op[1]} {O(op[2])} {O(op[3])} {L(op[4])}"
    if n == "setsliceext":
        return f"setsliceext {op[1]} {O(op[2])} {O(op[3])} {op[4]} {L(op[5])}"
    if n == "delsliceext":
        return f"delsliceext {op[1]} {O(op[2])} {O(op[3])} {op[4]}"
    if n in ("delitem", "drop"):
        return f"{n} {op[1]} {op[2]}"
    if n == "pop":
        return f"pop {op[1]} {op[2]}"
    if n == "delslice":
        return f"delslice {op[1]} {O(op[2])} {O(op[3])}"
    if n in ("clear", "flatten", "listcopy", "deepcopy"):
        return f"{n} {op[1]}"
    raise ValueError(op)


class Mirror:
    """generator-side shadow of the structure (only used to generate mostly valid, acyclic histories)"""

    def __init__(self):
        self.kind = []
        self.children = {}
        self.listed = {}

    def seqs(self):
        return [i for i, k in enumerate(self.kind) if k == 3]


def gen_history(rng, n_ops, fresh_only):
    """generate op tuples; uses a throw-away Real instance as the generator's mirror so that ops are
    well-formed w.r.t. the current structure (mostly valid inputs + some index errors)."""
    real = Real()
    ops = []
    nonfresh = False

    def listed_anywhere(u):
        obj = real.units[u]
        return any(real.kind_of(s) == 3 and any(x is obj for x in s._subunits) for s in real.units)

    def ancestors(s):
        res = set()
        cur = real.units[s]
        seen = 0
        while cur is not None and seen < 100:
            res.add(real.uid(cur))
            cur = cur.parent
            seen += 1
        return res

    def pick_units(s, k):
        nonlocal nonfresh
        cand = [i for i in range(len(real.units)) if i not in ancestors(s)]
        fresh = [i for i in cand if not listed_anywhere(i) and real.units[i].parent is None]
        res = []
        for _ in range(k):
            if fresh_only or rng.random() < 0.6:
                pool = [i for i in fresh if i not in res]
                if not pool:
                    # allocate a new one
                    kind = rng.choice([0, 0, 1, 2])
                    op = ("unit", kind, rng.randrange(4))
                    ops.append(op)
                    real.apply(op)
                    res.append(len(real.units) - 1)
                    continue
                res.append(rng.choice(pool))
            else:
                if not cand:
                    continue
                cand2 = [i for i in cand if real.kind_of(real.units[i]) != 3]  # never build cycles
                if not cand2:
                    continue
                u = rng.choice(cand2)
                if listed_anywhere(u) or u in res:
                    nonfresh = True
                res.append(u)
        return res

    # initial pool
    for _ in range(rng.randrange(2, 6)):
        op = ("unit", rng.choice([0, 1, 2]), rng.randrange(4))
        ops.append(op)
        real.apply(op)
    while len(ops) < n_ops:
        seqs = [i for i, u in enumerate(real.units) if real.kind_of(u) == 3]
        r = rng.random()
        if not seqs or r < 0.08:
            k = rng.randrange(0, 4)
            # construct from fresh units
            if fresh_only:
                us = [i for i in range(len(real.units)) if not listed_anywhere(i) and real.units[i].parent is None]
                rng.shuffle(us)
                us = us[:k]
            else:
                us = [rng.randrange(len(real.units)) for _ in range(k)]
                us = [u for u in us if real.kind_of(real.units[u]) != 3 or not listed_anywhere(u)]
                if any(listed_anywhere(u) for u in us) or len(set(us)) != len(us):
                    nonfresh = True
                # do not build cycles
            op = ("seq", rng.randrange(4), us)
        elif r < 0.14:
            op = ("unit", rng.choice([0, 1, 2]), rng.randrange(4))
        else:
            s = rng.choice(seqs)
            n = len(real.units[s]._subunits)
            idx = lambda: rng.randrange(-n - 2, n + 2) if rng.random() < 0.25 else (rng.randrange(-n, n) if n else 0)
            oidx = lambda: None if rng.random() < 0.3 else rng.randrange(-n - 2, n + 3)
            name = rng.choice(["append", "prepend", "insert", "extend", "iadd", "setitem", "setslice", "delitem",
                               "delslice", "pop", "remove", "clear", "drop", "flatten", "listcopy", "deepcopy",
                               "append", "insert", "setitem", "pop", "remove", "delitem",
                               "setslice", "setsliceext", "setsliceext", "delsliceext", "extend", "iadd"])
            cur_ids = lambda sl: [real.uid(x) for x in real.lst(s)[sl]]

            def reinsert(cur, same_len):
                """units of the replaced range in another order (reversal, rotation, permutation, sub-selection),
                possibly mixed with / partly replaced by unlisted units"""
                us = list(cur)
                mode = rng.randrange(4)
                if mode == 0:
                    us.reverse()
                elif mode == 1 and us:
                    r = rng.randrange(len(us))
                    us = us[r:] + us[:r]
                else:
                    rng.shuffle(us)
                if same_len:
                    where = [t for t in range(len(us)) if rng.random() < 0.25]
                    for t, e in zip(where, pick_units(s, len(where))):
                        us[t] = e
                else:
                    if mode == 3 and us:
                        us = us[:rng.randrange(1, len(us) + 1)]
                    for e in pick_units(s, rng.choice([0, 0, 1, 2])):
                        us.insert(rng.randrange(len(us) + 1), e)
                return us
            if name in ("append", "prepend"):
                op = (name, s, pick_units(s, 1)[0])
            elif name == "insert":
                op = (name, s, idx(), pick_units(s, 1)[0])
            elif name in ("extend", "iadd"):
                op = (name, s, pick_units(s, rng.randrange(0, 4)))
            elif name == "setitem":
                i = idx()
                if n and -n <= i < n and rng.random() < OVERLAP_P / 2:
                    op = (name, s, i, real.uid(real.lst(s)[i]))      # l[i] = l[i]
                else:
                    op = (name, s, i, pick_units(s, 1)[0])
            elif name == "setslice":
                i, j = (None, None) if rng.random() < 0.25 else (oidx(), oidx())
                cur = cur_ids(slice(i, j))
                if cur and rng.random() < OVERLAP_P:
                    op = (name, s, i, j, reinsert(cur, False))
                else:
                    op = (name, s, i, j, pick_units(s, rng.randrange(0, 4)))
            elif name == "setsliceext":
                # l[i:j:k] = us.  k = 0 raises before anything happens; k = 1 is the plain slice; otherwise the sizes
                # must agree: a size mismatch (generated in ~12% of the cases) raises ValueError and must change nothing
                k = 0 if rng.random() < 0.03 else rng.choice([-3, -2, -1, -1, 2, 2, 3, 1])
                i, j = (None, None) if rng.random() < 0.4 else (oidx(), oidx())
                if k == 0:
                    op = (name, s, i, j, k, pick_units(s, rng.randrange(0, 3)))
                else:
                    cur = cur_ids(slice(i, j, k))
                    if cur and rng.random() < 1.5 * OVERLAP_P:
                        us = reinsert(cur, k != 1)
                    else:
                        us = pick_units(s, len(cur) if k != 1 else rng.randrange(0, 4))
                    if k != 1 and rng.random() < 0.12:
                        # size mismatch: drop one unit or add unlisted ones
                        if us and rng.random() < 0.5:
                            us = us[:-1]
                        else:
                            us = us + pick_units(s, rng.choice([1, 1, 2]))
                    elif k != 1 and len(us) != len(cur):
                        continue
                    op = (name, s, i, j, k, us)
            elif name == "delsliceext":
                k = 0 if rng.random() < 0.03 else rng.choice([-3, -2, -1, 2, 2, 3, 1])
                op = (name, s, oidx(), oidx(), k)
            elif name in ("delitem", "drop"):
                op = (name, s, idx())
            elif name == "delslice":
                op = (name, s, oidx(), oidx())
            elif name == "pop":
                op = (name, s, -1, True) if rng.random() < 0.4 else (name, s, idx(), False)
            elif name == "remove":
                lst = [real.uid(x) for x in real.units[s]._subunits]
                if lst and rng.random() < 0.8:
                    op = (name, s, rng.choice(lst))
                else:
                    op = (name, s, rng.randrange(len(real.units)))
            elif name == "deepcopy":
                # the model's deepCopy has no memo: only copy subtrees that list every unit once
                # (always the case when the invariant holds; sharing inside a copied subtree is not modelled)
                u = rng.randrange(len(real.units))
                seen = []

                def walk(x):
                    seen.append(id(x))
                    if real.kind_of(x) == 3 and len(seen) < 200:
                        for c in list(x._subunits):
                            walk(c)
                walk(real.units[u])
                if len(set(seen)) != len(seen) or real.oracle():
                    # deep copy also copies (and then drops) the ancestors; with stale lists around, which
                    # copy adopts a shared unit last depends on dict order - not modelled
                    continue
                op = (name, u)
            else:
                op = (name, s)
        if op[0] in ARG_AT:
            us = op[ARG_AT[op[0]]]
            tgt = [] if op[0] == "seq" else [real.uid(x) for x in real.lst(op[1])]
            if (op[0] in ("setslice", "setsliceext") and any(u in tgt for u in us)
                    and all(tgt.count(u) <= 1 for u in us) and rng.random() < 0.5):
                # re-insertion of units of the edited list: the right-hand side may read that list lazily
                op = with_form(op, LIVE)
            elif rng.random() < FORM_P:
                # one-shot iterables twice as often as each re-iterable form
                op = with_form(op, rng.choice(SEQUENCE_FORMS if op[0] == "seq" else REITERABLE + ONE_SHOT + ONE_SHOT))
        ops.append(op)
        real.apply(op)
    return ops, nonfresh


def inserted_replaced(real, op):
    """(uids the op inserts, uids it takes out of the edited list before storing them), evaluated in the state
    BEFORE the op; ([], []) when the op fails before it touches anything"""
    n = op[0]
    if n == "seq":
        return list(op[2]), []
    if n in ("append", "prepend"):
        return [op[2]], []
    if n == "insert":
        return [op[3]], []
    if n in ("extend", "iadd"):
        return list(op[2]), []
    if n in ("setitem", "setslice", "setsliceext"):
        lst = real.lst(op[1])
        if n == "setitem":
            if not -len(lst) <= op[2] < len(lst):
                return [], []                       # IndexError before anything happens
            return [op[3]], [real.uid(lst[op[2]])]
        if n == "setslice":
            return list(op[4]), [real.uid(x) for x in lst[op[2]:op[3]]]
        if op[4] == 0:
            return [], []                           # ValueError before anything happens
        cur = lst[op[2]:op[3]:op[4]]
        if op[4] != 1 and len(cur) != len(op[5]):
            return [], []                           # ValueError (extended slice of another size), nothing changes
        return list(op[5]), [real.uid(x) for x in cur]
    return [], []


def op_nonfresh(real, op):
    """F10 situation: does `op` insert a unit that stays listed in ANOTHER place (or is inserted twice)?
    A unit that is listed exactly once, inside the range which this very item/slice assignment replaces, is
    legitimately re-inserted (afterwards it is listed once) and does not count."""
    ins, repl = inserted_replaced(real, op)
    if len(set(ins)) != len(ins):
        return True
    for u in ins:
        if u >= len(real.units):
            continue
        obj = real.units[u]
        occ = [real.uid(q) for q in real.units for x in q._subunits if x is obj]
        if not occ:
            if obj.parent is not None:
                return True                         # stale parent (only downstream of an earlier problem)
            continue
        if len(occ) == 1 and occ[0] == op[1] and u in repl and op[0] in ("setitem", "setslice", "setsliceext"):
            continue
        return True
    return False


def op_overlaps(real, op):
    ins, repl = inserted_replaced(real, op)
    return bool(set(ins) & set(repl))


def history_nonfresh(ops, upto):
    """does the prefix ops[:upto+1] contain an F10 insertion (see op_nonfresh)?"""
    real = Real()
    for op in ops[:upto + 1]:
        if op_nonfresh(real, op):
            return True
        real.apply(op)
    return False


def violation_key(small, probs):
    """stable key of a violation in a history without F10 insertions: what kind of check failed after which op"""
    real = Real()
    for op in small[:-1]:
        real.apply(op)
    last = small[-1]
    form = form_class(form_of(last))        # after shrinking: '' unless the problem needs that form of argument
    if last[0] == "solve":
        # what the solve meets: units that already hold disk elements, in another number than is asked for now
        held = [u for u in real.subtree(real.units[last[1]]) if u._subunits and hasattr(u, "disk_element_count")]
        form = ("-recount" if any(u.disk_element_count != len(u._subunits) for u in held) else
                "-again" if held else "")
    if probs and probs[0].split(":")[0] in ("prev_of", "next_of"):
        return "navof-after-" + last[0] + form
    if probs and all(p.startswith("content:") for p in probs):
        return "content-after-" + last[0] + form
    return "inv-after-" + last[0] + ("-overlap" if op_overlaps(real, last) else "") + form


def refs(op):
    """the unit ids an op names"""
    n = op[0]
    if n in ("unit", "mk"):
        return []
    if n == "seq":
        return list(op[2])
    r = [op[1]]
    if n in ("append", "prepend", "remove"):
        r.append(op[2])
    elif n in ("insert", "setitem"):
        r.append(op[3])
    elif n in ARG_AT:
        r += list(op[ARG_AT[n]])
    return r


def first_problem(ops):
    real = Real()
    for i, op in enumerate(ops):
        if any(not -1 < u < len(real.units) for u in refs(op)):
            return None, []         # (a shrinking candidate that names a unit which does not exist there)
        st = real.apply(op)
        if st not in OK_STATUS and not st.startswith("u"):
            return i, [f"operation {op[0]} raised/returned {st}"]
        p = real.oracle()
        if p:
            return i, p
    return None, []


def shrink(ops, upto):
    """greedy removal of non-allocating ops while some oracle problem persists"""
    ops = list(ops[:upto + 1])
    changed = True
    while changed:
        changed = False
        for i in range(len(ops) - 1, -1, -1):
            if ops[i][0] in ("unit", "seq", "deepcopy", "mk"):
                continue
            cand = ops[:i] + ops[i + 1:]
            idx, probs = first_problem(cand)
            # never shrink INTO the known finding: dropping the op that took a unit out of a list would turn a
            # later insertion of that unit into an F10 insertion (another problem than the one being reported)
            if idx is not None and not history_nonfresh(cand, idx):
                ops = cand[:idx + 1]
                changed = True
                break
    # hand every iterable argument over as a plain list where the problem does not need anything else
    # (a one-shot form is replaced by the plain generator where that keeps the problem)
    for i, op in enumerate(ops):
        f = form_of(op)
        for simpler in ("list", "gen"):
            if f == simpler or (simpler == "gen" and f not in ONE_SHOT):
                continue
            cand = ops[:i] + [with_form(op, simpler)] + ops[i + 1:]
            idx, probs = first_problem(cand)
            if idx is not None and idx == len(cand) - 1:
                ops = cand
                break
    return ops


CORPUS = [
    # F9 regressions (fixed in the repository): item assignment, +=, remove, copy, flatten
    [("unit", 0, 0), ("unit", 0, 1), ("unit", 0, 2), ("seq", 0, [0, 1]), ("setitem", 3, 0, 2)],
    [("unit", 0, 0), ("unit", 0, 1), ("seq", 0, [0]), ("iadd", 2, [1])],
    [("unit", 0, 0), ("unit", 0, 1), ("seq", 0, [0, 1]), ("remove", 2, 1)],
    [("unit", 0, 0), ("unit", 0, 1), ("seq", 0, [0, 1]), ("listcopy", 2)],
    [("unit", 0, 0), ("unit", 1, 1), ("unit", 2, 2), ("seq", 0, [1, 2]), ("seq", 1, [0, 3]), ("flatten", 4),
     ("unit", 0, 3), ("append", 4, 5)],
    [("unit", 0, 0), ("unit", 0, 1), ("seq", 0, [0, 1]), ("pop", 2, -1, True)],
    [("unit", 0, 0), ("unit", 0, 1), ("unit", 0, 2), ("seq", 0, [0, 1]), ("setslice", 3, 0, 1, [2])],
    [("unit", 1, 0), ("unit", 2, 1), ("seq", 0, [0, 1]), ("seq", 1, [2]), ("deepcopy", 2), ("deepcopy", 3)],
    # re-insertion of units of the replaced range (valid): reversal by slice assignment, partial overlap,
    # extended-slice rotation, l[i] = l[i], negative step
    [("unit", 2, 0), ("unit", 2, 1), ("unit", 2, 2), ("unit", 2, 3), ("seq", 0, [0, 1, 2, 3]),
     ("setslice", 4, None, None, [3, 2, 1, 0])],
    [("unit", 2, 0), ("unit", 2, 1), ("unit", 2, 2), ("unit", 2, 3), ("unit", 2, 0), ("seq", 0, [0, 1, 2, 3]),
     ("setslice", 5, 1, 3, [2, 4])],
    [("unit", 2, 0), ("unit", 2, 1), ("unit", 2, 2), ("unit", 2, 3), ("seq", 0, [0, 1, 2, 3]),
     ("setsliceext", 4, None, None, 2, [2, 0])],
    [("unit", 1, 0), ("unit", 2, 1), ("seq", 0, [0, 1]), ("setitem", 2, 1, 1), ("setitem", 2, -2, 0)],
    [("unit", 1, 0), ("unit", 2, 1), ("unit", 0, 2), ("seq", 0, [0, 1, 2]), ("setsliceext", 3, None, None, -1, [0, 1, 2]),
     ("delsliceext", 3, None, None, -2)],
    # extended-slice assignment of another size: ValueError, nothing may change (fixed in the repository, d884e3b)
    [("unit", 0, 0), ("unit", 0, 1), ("unit", 0, 2), ("unit", 0, 3), ("seq", 0, [0, 1, 2]),
     ("setsliceext", 4, None, None, 2, [3]), ("setsliceext", 4, None, None, -1, [2, 1]),
     ("setsliceext", 4, None, None, 2, [2, 3, 0])],
    # navigation by type: own type, base type, foreign type, first/last, nested sequence
    [("unit", 1, 0), ("unit", 2, 1), ("unit", 0, 2), ("unit", 1, 3), ("unit", 2, 0), ("seq", 1, [2, 3]),
     ("seq", 0, [0, 1, 5, 4]), ("prepend", 6, 2)],
    # the form of the iterable argument: one-shot iterables for extend / += / slice assignment, a Sequence that is not
    # a list for the constructor, a generator reading the edited list lazily (l[::-1] = (l[p] for p in ...))
    [("unit", 0, 0), ("unit", 1, 1), ("unit", 2, 2), ("unit", 0, 3), ("seq", 0, [0], "tuple"), ("extend", 4, [1, 2], "gen"),
     ("iadd", 4, [3], "iter"), ("clear", 4), ("iadd", 4, [2, 0], "map"), ("extend", 4, [], "gen"),
     ("extend", 4, [1, 3], "iterable")],
    [("unit", 1, 0), ("unit", 2, 1), ("unit", 0, 2), ("unit", 2, 3), ("seq", 0, [0, 1, 2], "seqabc"),
     ("setslice", 4, 1, 2, [3], "rev"), ("setsliceext", 4, None, None, -1, [0, 3, 2], "live"),
     ("setslice", 4, None, None, [0, 3, 2], "live"), ("setsliceext", 4, None, None, 2, [0, 2], "chain"),
     ("setslice", 4, 0, 0, [1], "getitem"), ("setsliceext", 4, None, None, 2, [3], "gen")],
    # F10 (known finding): a unit adopted while it is still listed elsewhere
    [("unit", 0, 0), ("seq", 0, [0]), ("seq", 1, [0])],
    # F10: l[0], l[1] = l[1], l[0] - the first item assignment lists u1 twice, the second one orphans it
    [("unit", 0, 0), ("unit", 0, 1), ("seq", 0, [0, 1]), ("setitem", 2, 0, 1), ("setitem", 2, 1, 0)],
]


# ---- second stream: sub-unit lists the library (re)builds itself ---------------------------------
# The property speaks of every unit, of "any series of edits", and of flatten / copy / deep copy, i.e. also of lists the
# library replaces or rebuilds on its own after construction.  The largest such family are the disk elements a roll pass
# or transport creates while it is solved.  Histories of this stream use units that can really be solved; steps: solve
# (a sequence, a nested one, a single unit), ask for another subdivision (more, fewer, none, back to the default), solve
# again, deep copy, flatten, list edits of sequences and of disk element lists.  After every step the oracle walks every
# unit EVER seen (disk elements of earlier solves stay registered).
LIB_CORPUS = [
    # solve, other subdivision (down / up / first set), solve again, then edit
    [("mk", 0, 3), ("mk", 2, 2), ("mk", 1, None), ("seq", 0, [0, 1, 2]), ("solve", 3), ("solve", 3),
     ("setcount", 0, 1), ("setcount", 1, 4), ("setcount", 2, 2), ("solve", 3), ("drop", 3, 1), ("append", 3, 1),
     ("solve", 3)],
    # subdivision taken back (to none, to the default), single units solved on their own, deep copy in between
    [("mk", 3, 4), ("mk", 0, 2), ("solve", 0), ("solve", 1), ("setcount", 0, 0), ("setcount", 1, None), ("solve", 0),
     ("solve", 1), ("deepcopy", 1), ("setcount", 1, 3), ("solve", 1)],
    # nested sequences: flatten and deep copy after a solve, other subdivision in the copy and in the original
    [("mk", 0, 2), ("mk", 2, 1), ("seq", 1, [0, 1]), ("mk", 4, None), ("mk", 1, 2), ("seq", 0, [2, 3, 4]),
     ("solve", 5), ("deepcopy", 5), ("flatten", 5), ("setcount", 0, 4), ("solve", 5), ("solve", 5)],
    # disk element lists edited by hand between two solves (emptied: the next solve creates them anew)
    [("mk", 2, 3), ("mk", 0, 3), ("seq", 2, [1, 0]), ("solve", 2), ("pop", 0, -1, True), ("clear", 1), ("solve", 2),
     ("setcount", 0, 5), ("delslice", 0, None, None), ("solve", 2)],
]


def gen_lib_history(rng, n_ops):
    """one history of the second stream (only insertions of units that are unlisted and name no parent)"""
    real = Real()
    ops = []

    def do(op):
        ops.append(op)
        real.apply(op)
        return len(real.units) - 1

    def count():
        return rng.choice([None, 0, 1, 1, 2, 2, 3, 4, 6])

    def mk(design=None):
        d = rng.choice([0, 0, 1, 2, 2, 3, 4, 5, 6]) if design is None else design
        return do(("mk", d, count() if d in DISKED else None))

    def listed(obj):
        return any(x is obj for q in real.units for x in q._subunits)

    def fresh(s, k):
        """k units that may be inserted into s: unlisted, no parent, not s or one of its owners; new ones if needed"""
        anc, cur = set(), real.units[s]
        while cur is not None and len(anc) < 100:
            anc.add(id(cur))
            cur = cur.parent
        res = []
        for _ in range(k):
            pool = [i for i, u in enumerate(real.units) if i not in res and id(u) not in anc and u.parent is None
                    and not listed(u) and real.kind_of(u) != 3]
            res.append(rng.choice(pool) if pool and rng.random() < 0.5 else mk())
        return res

    # a line that can be solved as a whole: oval - transport - round (- transport - ...), sometimes grouped
    line = []
    for d in rng.choice([[0, 2, 1], [0, 3, 1, 2], [0, 4, 1], [2, 0, 2, 1, 6], [0], [2], [5, 3], [0, 1]]):
        line.append(mk(d))
    if len(line) > 2 and rng.random() < 0.35:
        k = rng.randrange(1, len(line))
        inner = do(("seq", rng.randrange(4), line[:k]))
        do(("seq", rng.randrange(4), [inner] + line[k:]))
    elif len(line) > 1 or rng.random() < 0.5:
        do(("seq", rng.randrange(4), line))
    while len(ops) < n_ops:
        U = real.units
        seqs = [i for i, u in enumerate(U) if real.kind_of(u) == 3]
        disked = [i for i, u in enumerate(U) if hasattr(u, "disk_element_count")]
        holders = [i for i in disked if U[i]._subunits]
        r = rng.random()
        if r < 0.27:
            # solve: mostly whole lines (units without parent), also single listed units and nested sequences
            roots = [i for i, u in enumerate(U) if u.parent is None and (real.kind_of(u) == 3 or i in disked)]
            pool = roots if roots and rng.random() < 0.7 else seqs + disked
            do(("solve", rng.choice(pool)))
        elif r < 0.52 and disked:
            u = rng.choice(holders if holders and rng.random() < 0.6 else disked)
            n_now = len(U[u]._subunits)
            c = rng.choice([count(), n_now + 1, max(0, n_now - 1), 0])
            do(("setcount", u, c))
        elif r < 0.58:
            do(("deepcopy", rng.randrange(len(U))))
        elif r < 0.68 and holders:
            # disk element lists edited by hand: removals, in-place reversal
            h = rng.choice(holders)
            n = len(U[h]._subunits)
            name = rng.choice(["pop", "delitem", "clear", "delslice", "remove", "setslice", "delsliceext"])
            if name == "pop":
                do((name, h, -1, True) if rng.random() < 0.5 else (name, h, rng.randrange(-n, n), False))
            elif name == "delitem":
                do((name, h, rng.randrange(-n, n)))
            elif name == "clear":
                do((name, h))
            elif name == "delslice":
                do((name, h, rng.choice([None, 0, 1]), rng.choice([None, -1, n])))
            elif name == "remove":
                do((name, h, real.uid(rng.choice(list(U[h]._subunits)))))
            elif name == "setslice":
                do((name, h, None, None, [real.uid(x) for x in reversed(list(U[h]._subunits))]))
            else:
                do((name, h, None, None, rng.choice([2, -2, -1, 3])))
        elif seqs:
            s = rng.choice(seqs)
            n = len(U[s]._subunits)
            ix = (lambda: rng.randrange(-n, n)) if n else (lambda: 0)
            name = rng.choice(["append", "prepend", "insert", "extend", "iadd", "setitem", "setslice", "drop", "pop",
                               "delitem", "remove", "delslice", "clear", "flatten", "listcopy", "drop", "pop", "append"])
            if name in ("append", "prepend"):
                op = (name, s, fresh(s, 1)[0])
            elif name == "insert":
                op = (name, s, rng.randrange(-n - 1, n + 2), fresh(s, 1)[0])
            elif name in ("extend", "iadd"):
                op = with_form((name, s, fresh(s, rng.randrange(0, 3))), rng.choice(("list", "list", "gen", "tuple")))
            elif name == "setitem":
                op = (name, s, ix(), fresh(s, 1)[0])
            elif name == "setslice":
                i, j = rng.choice([(None, None), (0, 1), (1, None), (-1, None), (1, 1)])
                cur = [real.uid(x) for x in U[s]._subunits[i:j]]
                op = (name, s, i, j, cur[::-1] if cur and rng.random() < 0.5 else fresh(s, rng.randrange(0, 3)))
            elif name in ("drop", "delitem"):
                op = (name, s, ix())
            elif name == "pop":
                op = (name, s, -1, True) if rng.random() < 0.5 else (name, s, ix(), False)
            elif name == "remove":
                if not n:
                    continue
                op = (name, s, real.uid(rng.choice(list(U[s]._subunits))))
            elif name == "delslice":
                op = (name, s, rng.choice([None, 0, 1]), rng.choice([None, -1, 1]))
            else:
                op = (name, s)
            do(op)
        else:
            mk()
    return ops


def report(ctx, ops, i, probs):
    """one oracle problem after op #i of a history: classify (known finding F10 or not), shrink, key, replay"""
    if history_nonfresh(ops, i):
        key = "adopt-unit-still-listed-elsewhere"
        small = ops[:i + 1]
    else:
        small = shrink(ops, i)
        j, probs2 = first_problem(small)
        probs = probs2 or probs
        key = violation_key(small, probs)
    ctx.violation(key, probs[0], {"ops": [to_line(o) for o in small], "problems": probs[:5],
                                  "how": "driver/props/c13.py replay: apply the op lines to real objects "
                                         "(Real.apply) and run Real.oracle()"})


def run_lib(ctx):
    """second stream (implementation only: solving is outside the Lean model, which knows list edits)"""
    import logging
    n_hist = ctx.budget(120, 400)
    max_ops = 16 if ctx.tier == "quick" else 28
    histories = [list(c) for c in LIB_CORPUS]
    import warnings
    level = logging.getLogger("pyroll").level
    logging.getLogger("pyroll").setLevel(logging.ERROR)      # "exceeded the maximum iteration count" warnings
    caught = warnings.catch_warnings()
    caught.__enter__()
    warnings.simplefilter("ignore")                          # numpy RuntimeWarnings inside solves that fail
    try:
        for _ in range(n_hist):
            histories.append(gen_lib_history(ctx.rng, ctx.rng.randrange(6, max_ops)))
        reported = 0
        for ops in histories:
            real = Real()
            found = None
            for i, op in enumerate(ops):
                if op[0] == "solve":
                    held = [u for u in real.subtree(real.units[op[1]])
                            if u._subunits and hasattr(u, "disk_element_count")]
                    ctx.count("solve:" + ("recount" if any(u.disk_element_count != len(u._subunits) for u in held)
                                          else "again" if held else "first"))
                st = real.apply(op)
                ctx.count("op:" + op[0])
                if op[0] == "solve":
                    ctx.count("solve-outcome:" + st)
                if st not in OK_STATUS and not st.startswith("u"):
                    found = (i, [f"operation {op[0]} raised/returned {st}"])
                    break
                probs = real.oracle()
                if probs:
                    found = (i, probs)
                    break
            ctx.count("stream:lib")
            canon = [to_line(o) for o in ops]
            ctx.case(canon, any(o[0] == "solve" for o in ops))
            if found:
                report(ctx, ops, *found)
                reported += 1
                if reported >= 3:
                    break       # shrinking re-solves the history many times; three concrete replays are enough
            elif len(ctx.samples) < 5 and len(ops) > 8:
                ctx.sample({"history": canon, "units_seen": len(real.units)}, limit=5)
    finally:
        caught.__exit__(None, None, None)
        logging.getLogger("pyroll").setLevel(level)


def translate(ctx):
    """(T) regenerate lean/PyrollModel/Gen/C13.lean from the working tree; statements outside the subset -> tie_breaks"""
    from driver import core
    from driver.translate import c13_listops
    try:
        c13_listops.emit(ctx, core.REPO, core.LEAN_DIR)
    except c13_listops.Gap as e:       # a class is missing altogether
        ctx.tie_breaks.append(f"c13_listops: {e}")


def run_history(ctx, ops, lean_lines, meta):
    """execute on the implementation; queue the lines for the model; returns per-op observations"""
    real = Real()
    obs = []
    for i, op in enumerate(ops):
        if op[0] in ("setitem", "setslice", "setsliceext") and op_overlaps(real, op):
            ctx.count("reinserts-replaced-units:" + op[0])
        st = real.apply(op)
        d = real.dump()
        navs = [real.nav(u) for u in range(len(real.units))]
        lean_lines.append(to_line(op))
        lean_lines.append("obs")
        for u in range(len(real.units)):
            lean_lines.append(f"nav {u}")
        probs = real.oracle()
        if not probs and not real.listed_twice():
            # navigation by type, compared with the model in consistent states only (with inconsistent sibling
            # parents or a unit listed twice - l = [a, b, a]: a.next is b, b.next is a - the real type search
            # need not terminate at all)
            for u in range(len(real.units)):
                for q in range(4):
                    navs.append(real.navof(u, q))
                    lean_lines.append(f"navof {u} {q}")
        obs.append((st, d, navs))
        if st not in ("ok", "IndexError", "ValueError") and not st.startswith("u"):
            probs = [f"operation {op[0]} raised/returned {st}"] + probs
        if probs and "violation" not in meta:
            meta["violation"] = (i, probs)
    return obs


def run(ctx):
    n_hist = ctx.budget(250, 3000)
    max_ops = 22 if ctx.tier == "quick" else 40
    histories = [(list(c), None) for c in CORPUS]
    for k in range(n_hist):
        fresh_only = ctx.rng.random() < 0.8
        ops, nonfresh = gen_history(ctx.rng, ctx.rng.randrange(4, max_ops), fresh_only)
        histories.append((ops, fresh_only))
    lean_lines = []
    all_obs = []
    for ops, fresh_only in histories:
        lean_lines.append("reset")
        meta = {}
        obs = run_history(ctx, ops, lean_lines, meta)
        all_obs.append((ops, obs, meta))
        canon = [to_line(o) for o in ops]
        nontriv = any(o[0] not in ("unit", "seq") for o in ops)
        ctx.case(canon, nontriv)
        for o in ops:
            ctx.count("op:" + o[0])
            if o[0] in ARG_AT:
                ctx.count(f"arg-form:{o[0]}:{form_of(o)}" + ("" if o[ARG_AT[o[0]]] else ":empty"))
        ctx.count("stream:" + ("corpus" if fresh_only is None else "fresh" if fresh_only else "any"))
        for (st, _, _) in obs:
            if st in ("IndexError", "ValueError"):
                ctx.count("err:" + st)
        if len(ctx.samples) < 3 and nontriv and fresh_only is not None:
            ctx.sample({"history": canon, "final_state": obs[-1][1]})
        if "violation" in meta:
            report(ctx, ops, *meta["violation"])
    run_lib(ctx)
    # ---- model side ------------------------------------------------------------------------
    if getattr(ctx, "model_available", True):
        out = ctx.lean_model(MODEL, lean_lines)
        pos = 0
        for ops, obs, meta in all_obs:
            pos += 1  # reset
            bad = None
            n_units = 0
            for i, (st, d, navs) in enumerate(obs):
                m_st = out[pos]
                m_d = out[pos + 1]
                m_navs = out[pos + 2: pos + 2 + len(navs)]
                pos += 2 + len(navs)
                if bad is None and (m_st != st or m_d != d or m_navs != navs):
                    bad = (i, {"op": to_line(ops[i]), "impl": [st, d, navs], "model": [m_st, m_d, m_navs]})
            if bad is None:
                ctx.validated()
            else:
                i, info = bad
                ctx.disagreement(f"model and implementation differ after op #{i} ({info['op']})",
                                 {"ops": [to_line(o) for o in ops[:i + 1]], **info})
        if pos != len(out):
            ctx.disagreement("model output length mismatch", {"expected": pos, "got": len(out)})


def replay(ctx, data):
    r = data.get("replay", data)
    ops = []
    for line in r["ops"]:
        ops.append(parse_line(line))
    i, probs = first_problem(ops)
    if i is not None:
        ctx.violation(data.get("key", "replay"), probs[0], r)


def parse_line(line):
    t = line.split()
    if t and t[-1].startswith("@"):
        op = parse_line(" ".join(t[:-1]))
        if op[0] not in ARG_AT or t[-1][1:] not in FORMS:
            raise ValueError(f"bad form token in replay line: {line}")
        return with_form(op, t[-1][1:])

    def L(s):
        return [] if s == "-" else [int(x) for x in s.split(",")]

    def O(s):
        return None if s == "_" else int(s)
    n = t[0]
    if n == "unit":
        return ("unit", int(t[1]), int(t[2]))
    if n == "seq":
        return ("seq", int(t[1]), L(t[2]))
    if n == "mk":
        return ("mk", int(t[1]), O(t[2]))
    if n == "setcount":
        return ("setcount", int(t[1]), O(t[2]))
    if n in ("append", "prepend", "remove"):
        return (n, int(t[1]), int(t[2]))
    if n in ("insert", "setitem"):
        return (n, int(t[1]), int(t[2]), int(t[3]))
    if n in ("extend", "iadd"):
        return (n, int(t[1]), L(t[2]))
    if n == "setslice":
        return (n, int(t[1]), O(t[2]), O(t[3]), L(t[4]))
    if n in ("delitem", "drop"):
        return (n, int(t[1]), int(t[2]))
    if n == "pop":
        return (n, int(t[1]), int(t[2]), False)
    if n == "delslice":
        return (n, int(t[1]), O(t[2]), O(t[3]))
    if n == "setsliceext":
        return (n, int(t[1]), O(t[2]), O(t[3]), int(t[4]), L(t[5]))
    if n == "delsliceext":
        return (n, int(t[1]), O(t[2]), O(t[3]), int(t[4]))
    return (n, int(t[1]))
