"""Shared generators of real pyroll objects (grooves, passes, sequences) for the property harnesses."""
import logging
import math

logging.getLogger("pyroll").setLevel(logging.ERROR)


def make_in_profile(rng, kind=None, size=None, **kw):
    from pyroll.core import Profile
    kind = kind or rng.choice(["round", "square", "box", "diamond"])
    s = size or 30e-3
    base = dict(temperature=1200 + 273.15, strain=0, material=["C45", "steel"], flow_stress=100e6, density=7.5e3,
                specific_heat_capacity=690, length=1.0)
    base.update(kw)
    if kind == "round":
        return Profile.round(diameter=s, **base)
    if kind == "square":
        return Profile.square(side=s * 0.8, corner_radius=s * 0.05, **base)
    if kind == "box":
        return Profile.box(height=s * 0.9, width=s * 0.8, corner_radius=s * 0.05, **base)
    return Profile.diamond(height=s * 0.8, width=s * 1.1, corner_radius=s * 0.05, **base)


def make_pass(rng, scale=1.0, kind=None, label="", three=False, **kw):
    """a two-roll (or three-roll) pass with a groove sized for a ~30 mm * scale workpiece"""
    from pyroll.core import Roll, RollPass, ThreeRollPass, CircularOvalGroove, RoundGroove, BoxGroove, DiamondGroove, \
        SquareGroove, SwedishOvalGroove, FalseRoundGroove
    s = scale
    kind = kind or rng.choice(["oval", "round", "box", "diamond", "square", "swedish"])
    if three:
        g = RoundGroove(r1=3e-3 * s, r2=12.5e-3 * s * rng.uniform(0.9, 1.1), depth=5e-3 * s, pad_angle=30)
        return ThreeRollPass(label=label or "three-round", roll=Roll(groove=g, nominal_radius=160e-3 * s,
                             rotational_frequency=1), inscribed_circle_diameter=22e-3 * s, **kw), "3round"
    if kind == "oval":
        g = CircularOvalGroove(depth=8e-3 * s * rng.uniform(0.8, 1.1), r1=6e-3 * s, r2=40e-3 * s * rng.uniform(0.9, 1.2))
    elif kind == "round":
        g = RoundGroove(r1=1e-3 * s, r2=12.5e-3 * s * rng.uniform(0.95, 1.1), depth=11.5e-3 * s)
    elif kind == "box":
        g = BoxGroove(r1=2e-3 * s, r2=4e-3 * s, depth=10e-3 * s * rng.uniform(0.8, 1.1), usable_width=30e-3 * s,
                      ground_width=24e-3 * s)
    elif kind == "diamond":
        g = DiamondGroove(r1=3e-3 * s, r2=5e-3 * s, usable_width=38e-3 * s * rng.uniform(0.9, 1.1), tip_depth=12e-3 * s)
    elif kind == "square":
        g = SquareGroove(r1=3e-3 * s, r2=4e-3 * s, usable_width=30e-3 * s * rng.uniform(0.97, 1.03), tip_depth=15e-3 * s)
    else:
        g = SwedishOvalGroove(r1=3e-3 * s, r2=6e-3 * s, depth=7e-3 * s, usable_width=36e-3 * s, ground_width=20e-3 * s)
    rp = RollPass(label=label or kind, roll=Roll(groove=g, nominal_radius=160e-3 * s, rotational_frequency=1),
                  gap=2e-3 * s * rng.uniform(0.5, 1.5), **kw)
    return rp, kind


def solved_passes(ctx, n):
    """yield (description, solved real TwoRollPass)"""
    rng = ctx.rng
    for i in range(n):
        ik = rng.choice(["round", "square", "box", "diamond"])
        try:
            rp, k = make_pass(rng)
        except Exception as ex:
            ctx.count("groove-rejected:" + type(ex).__name__)
            continue
        desc = f"{ik}->{k}#{i}"
        try:
            ip = make_in_profile(rng, ik, size=30e-3 * rng.uniform(0.85, 1.05))
            rp.solve(ip)
        except Exception as ex:
            ctx.count("solve-raised:" + type(ex).__name__)
            continue
        yield desc, rp
