"""C02 - hook value life-cycle: explicit value, then remembered value, then computation.

Tie: T + K (hand-written model lean/PyrollModel/Lifecycle.lean, theorems lean/PyrollProps/C02.lean).
T: `translate` re-reads pyroll/core/hooks.py (driver/translate/hooks_skeleton.py -> lean/PyrollModel/Gen/C02Hooks.lean): the
model CONSUMES where has_set / has_cached look, what reevaluate_cache does and the None check of Hook.__get__ with its
position before the store; the statements of the other mirrored functions are pinned by `hooks_source_as_modelled`.
K: the harness creates fresh HookHost subclasses with type() (plain HookHost hierarchies, or subclasses of the real
Unit.Profile so that the real hand-over constructor is used), drives them and the Lean model with the same
operation lines and compares after EVERY operation: the returned value / exception kind, the invocation trace
(which implementation or explicit callable ran, in which order), and the complete `__dict__` / `__cache__`
contents (ordered) of every instance.  The independent oracle `Ref` is a small reference state machine written
from the property text; it is compared with the implementation in the same way (unordered), and a difference is
classified by the clause of the property that fails.  A third part drives real RollPass / Transport /
PassSequence objects through `solve` and checks the root-hook sentences of the property on them.

Second generated module lean/PyrollModel/Gen/C02Extra.lean (driver/translate/c02_extra.py): the executing marks of
HookFunction.__call__ (set before the function runs, removed in the `finally` - also when it RAISED), the stores
(tryfirst / normal / trylast) and their order, what add_function creates and remove_function / a `with` block removes
(registrations are a multiset: one function may be registered several times), the root_hooks list API and the shallow
copy are consumed by the model; the op lines `reg`, `exit`, `radd`, `rbefore`, `rafter`, `rremove` drive them on the real
objects, the executing marks and the root list are part of what is compared after every op.  After every history
every instance is compared with a TWIN that never failed / never remembered anything (`twin_check`).  Shallow copies
(`copy.copy(host)`) have a small model of their own (lean/PyrollModel/LifecycleCopy.lean, lean/PyrollProps/C02Copy.lean).

Third generated module lean/PyrollModel/Gen/C02Units.lean (driver/translate/c02_units.py, whole package pyroll/core): the class
hierarchy with its MROs, every definition of get_root_hook_results, the objects the constructors create, the root_hooks list -
consumed by lean/PyrollModel/RootUnits.lean (WHICH objects the solver root-evaluates; theorems lean/PyrollProps/C02Units.lean).
Fourth part of `run`: driver/props/c02_units.py - the root-hook sentences on a stream of real solved unit trees (two- and
three-roll passes as core classes and as throw-away subclasses at every level of the hierarchy, transports, cooling pipes,
rotators, disk elements, nested sequences, plug-in root hooks), oracle per object and per root hook of the object's class.
"""
import copy
import itertools
import re

from . import common  # noqa: F401  (silences the pyroll loggers)
from . import c02_units        # the root-hook sentences on a stream of real solved units (oracle + K with RootUnits.lean)

ID = "C02"
LEAN_MODULES = ["PyrollProps.C02", "PyrollProps.C02Copy", "PyrollProps.C02Units"]
MODEL = "c02"
MODEL_MODULES = ["PyrollModel.LifecycleDriver", "PyrollModel.RootUnitsDriver"]


def translate(ctx):
    """(T) re-read pyroll/core/hooks.py of the working tree -> lean/PyrollModel/Gen/C02Hooks.lean (role lines of
    Hook.__get__/__set__/__delete__/get_result, reevaluate_cache, has_*, __attrs__, evaluate_and_set_hooks, root_hooks + the
    facts the model consumes: where has_set / has_cached look, what reevaluate_cache does, the None check and its position)"""
    from ..translate import hooks_skeleton, c02_extra
    info = hooks_skeleton.emit_for(ctx, ID)
    ctx.notes["hooks_source"] = {k: v for k, v in info["facts"].items() if k in hooks_skeleton.SELECTION[ID]["fact_names"]}
    # second module (own extractor on top of the shared one): executing marks of HookFunction.__call__, stores / tiers,
    # add_function / remove_function / with block, Hook.__set__ / __delete__, the root_hooks list API,
    # evaluate_and_set_hooks' loop, HookHost.__copy__ / __hooks__ -> lean/PyrollModel/Gen/C02Extra.lean
    extra = c02_extra.emit(ctx)
    ctx.notes["hooks_source_extra"] = {k: v for k, v in extra["facts"].items()}
    # third module: the class hierarchy of pyroll/core (MROs), every definition of get_root_hook_results with its statements,
    # the objects the library constructs per unit class, the root_hooks list, the loop of Unit.solve
    # -> lean/PyrollModel/Gen/C02Units.lean (consumed by lean/PyrollModel/RootUnits.lean)
    c02_extra.emit_units(ctx)


RULE = ("random operation histories (5-40 ops, 40% of the ops stay on the previous (instance, hook) pair; a removal is "
        "often followed by re-evaluation and a look at the hook that lost the implementation; root hooks declared up "
        "front in half of the cases) over 1-3 fresh classes (linear hierarchies and independent roots, plain HookHost or "
        "Unit.Profile based), 1-5 instances, 2-5 hooks; implementations and explicit callables are data (constant incl. "
        "0/False, None, read a lower-numbered hook and combine, read it if has_value; a third of the reading "
        "implementations take the `cycle` parameter) with invocation logging; registrations go through add_function, "
        "Hook.__call__ with and without function, `with hook(f, ...):` and the HookFunction of an earlier registration, "
        "into the tryfirst / normal / trylast store; 10% of the steps are scripted: (a) a read that FAILS first - a "
        "(mostly cycle-aware) implementation reads a hook that has no value (deleted, or an explicit callable yielding "
        "None -> TypeError), probed 1-3 times by read / has_value / root evaluation or inside reevaluate_cache, then the "
        "input is supplied (explicit value or implementation) and the hook is read / re-evaluated again; (b) one function "
        "registered a second time on the same hook (other store, with block, other class), ONE registration removed "
        "(remove_function / leaving the block), then re-evaluation or a fresh computation, also on a new instance; (c) "
        "the root-hook list edited through add / insert_before / insert_after / remove_last (positions mostly present) "
        "and evaluated; an explicit "
        "callable is drawn from every kind python offers for its number of parameters (lambda, def, bound method, bound "
        "classmethod, staticmethod, functools.partial of a function / of a bound method, callable object and its bound "
        "__call__, builtin method-wrapper, functools.wraps wrapper of a function / of a bound method, optional second "
        "parameter, *args, keyword-only option) and is read at once in half of the cases; a case is "
        "one history, non-trivial = it contains successful reads served from at least two different sources (explicit / "
        "remembered / computed) or a re-evaluation of a non-empty cache; distinct by the canonical op list; after every "
        "history every instance is compared with a TWIN (new instance, same explicit values) hook by hook. Plus 150 "
        "(thorough 3000) shallow-copy histories (new / copy.copy / assign / delete / read / cache clear / new cache "
        "dictionary, 1-5 hosts) and solved real pass sequences (two passes, a transport between) for the root-hook "
        "sentences. Plus a stream of 120 (thorough 2000) REAL solved unit trees (driver/props/c02_units.py): two-roll lines "
        "(round / box in, oval-round(-oval), box, diamond-square, swedish oval) and three-roll lines (oval-round), every pass "
        "drawn as the core class, a type() subclass of it, a direct subclass of SymmetricRollPass grafted from the core "
        "class, or a direct subclass of BaseRollPass with a constructor of its own; transports (duration / length), cooling "
        "pipes, rotators, disk elements (0 / 2 / 3), a nested sub sequence in a third of the cases, a pass solved alone; "
        "plug-in root hooks (core hooks of roll / unit / profile classes at every level of the hierarchy, new hooks with a "
        "constant implementation on throw-away pass classes and their nested roll / profile classes) put into root_hooks "
        "by insert_before / insert_after / append / add at a random position and removed in finally; a constant tryfirst "
        "implementation over roll_torque / roll_force / power / strain_rate / elongation_efficiency in 30% of the cases; a "
        "case is one spec, distinct by its JSON.")
ASSUMPTIONS = [
    "source tie (T): pyroll/core/hooks.py is read with ast into canonical role lines and typed facts (driver/translate/hooks_skeleton.py and driver/translate/c02_extra.py, trusted); the facts the model consumes are also executed against the imported pyroll.core.hooks on every run (self_check), the role lines are compared with the hand-written shape lean/PyrollModel/HookSource.lean by the theorems hooks_source_as_modelled / hooks_source_extra_as_modelled",
    "CPython dict insertion order, descriptor protocol, inspect.signature arity and hasattr/getattr-default "
    "semantics are modelled, not verified",
    "the model classifies an explicit callable only by the number of parameters inspect.signature reports for it (call0 / "
    "call1 / call2 = 0 / 1 or one required plus optional ones / two required); that python callables of every generated "
    "kind (lambda, def, bound method, classmethod, staticmethod, partial, callable object, builtin method-wrapper, "
    "functools.wraps wrapper, defaults, *args) behave as their class says is checked by the correspondence and demanded "
    "by the oracle, not proved; callables without a signature (builtin types) or with keyword-only parameters and no "
    "positional one are outside the generated domain",
    "the model is tied to the code by sampled differential runs (result, invocation trace, the ordered __dict__ / "
    "__cache__ of every instance, the executing marks (_active_instances) of every registration made by the harness and "
    "the root-hook list compared after every op)",
    "a `cycle`-aware implementation enters the model as `if cycle: return None` in front of its body (Body.cread / ctry): "
    "that is what the harness registers and what the implementations of pyroll.core that take `cycle` do; generated "
    "dependencies are acyclic (an implementation reads lower-numbered hooks only), so on a correct tree `cycle` is never "
    "true in the sampled runs - the model's treatment of real cycles is covered by its theorems, not by the correspondence",
    "the root-hook list the harness edits is an instance of the real class `type(root_hooks)` holding the Hook objects of "
    "the case's classes; it is spliced into the real `root_hooks` for the duration of one evaluate_and_set_hooks call",
    "shallow copies: a separate small model (hosts referring to dictionary objects) - the life-cycle model proper gives "
    "every instance stores of its own, which is what constructors and the hand-over produce; that copy.copy(host) shares "
    "the remembered-value dictionary with its original is modelled, proved (copy_not_independent) and recorded as an "
    "observation, not demanded or forbidden by the oracle (the property text does not speak about copies)",
    "outside this model (generator produces none of them; they belong to C07 / C01 / C16): non-finite results "
    "(ValueError path of Hook.__get__), cyclic hook dependencies in the sampled runs (RecursionError path; the model's "
    "fuel stands for the recursion limit), wrappers (the resolution order used here is store-major tryfirst / normal / "
    "trylast, then MRO-major, latest registration first)",
    "hook values are integers and booleans (0 and False being the falsy ones); numpy values occur only in the "
    "solved-sequence part",
    "which objects the solution procedure evaluates root hooks on: the class hierarchy of pyroll/core with its MROs (C3 "
    "computed by driver/translate/c02_units.py and compared with __mro__ of every imported class on every run), every "
    "definition of get_root_hook_results, the objects the constructors create and the root_hooks list are read with ast "
    "(trusted extractor; self-check: one call of get_root_hook_results on solved units of every kind is observed by wrapping "
    "HookHost.evaluate_and_set_hooks for the extent of the call); the oracle on real units takes 'the objects the solver "
    "works on' from the statement (unit, in / out profile, every Roll held in a public attribute, sub units recursively); the "
    "roll of a harness-made direct subclass of BaseRollPass is outside (pyroll-core leaves the root evaluation of rolls to the "
    "class that constructs them; counted as an observation)",
]

HOOK_RE = re.compile(r"^h(\d+)$")


class RefAttr(Exception):
    pass


class RefType(Exception):
    pass


# ---------------------------------------------------------------------------------------------------------------
# tokens  (values `i5 bT bF`, bodies `const:i5 none read:m:k:c try:m:k:c`, dict values `p:i5 c0:id:i5|N c1:id:<body> c2:id N`)
# ---------------------------------------------------------------------------------------------------------------
def val_of(tok):
    if tok == "bT":
        return True
    if tok == "bF":
        return False
    if tok == "N":
        return None
    assert tok[0] == "i", tok
    return int(tok[1:])


def tok_of(v):
    import numpy as np
    if v is None:
        return "N"
    if isinstance(v, (bool, np.bool_)):
        return "bT" if v else "bF"
    if isinstance(v, (int, np.integer)):
        return f"i{int(v)}"
    return f"?{type(v).__name__}"


def body_of(tok):
    p = tok.split(":")
    if p[0] == "const":
        return ("const", val_of(p[1]))
    if p[0] == "none":
        return ("none",)
    return (p[0], int(p[1]), int(p[2]), int(p[3]))


def make_function(body_tok, log, ident):
    """a python function `f(self)` - `f(self, cycle)` for the `cread` / `ctry` bodies, which return None when `cycle` is
    true, as the implementations of pyroll.core that take `cycle` do - for a body token; every invocation appends `ident`
    to `log`"""
    b = body_of(body_tok)
    if b[0] in ("cread", "ctry"):
        _, m, k, c = b
        if b[0] == "cread":
            def f(self, cycle):
                log.append(ident)
                if cycle:
                    return None
                return getattr(self, f"h{m}") * k + c
        else:
            def f(self, cycle):
                log.append(ident)
                if cycle:
                    return None
                if self.has_value(f"h{m}"):
                    return getattr(self, f"h{m}") * k + c
                return None
        return f
    if b[0] == "const":
        v = b[1]

        def f(self):
            log.append(ident)
            return v
    elif b[0] == "none":
        def f(self):
            log.append(ident)
            return None
    elif b[0] == "read":
        _, m, k, c = b

        def f(self):
            log.append(ident)
            return getattr(self, f"h{m}") * k + c
    else:
        _, m, k, c = b

        def f(self):
            log.append(ident)
            if self.has_value(f"h{m}"):
                return getattr(self, f"h{m}") * k + c
            return None
    return f


# The kinds of callables python offers, per number of parameters that `inspect.signature` reports ("arity" of the
# model: c0 / c1 / c2).  The property speaks of "an assigned callable", not of lambdas: every kind must be invoked and
# the value it produces returned.  Only kinds for which the property text fixes the outcome are generated:
#   * `dflt` / `star` zero-argument callables accept a call without and with one argument (`def f(x=None)`,
#     `def f(*a)`); they return the same value either way, so both ways of invoking them are accepted;
#   * not generated (outside "zero- or one-argument callable" or without a signature): keyword-only parameters without
#     positional ones (`partial(f, x=1)`, `lambda **kw`: one signature parameter, cannot take the instance), builtin types
#     such as `int` (inspect.signature raises ValueError), `f.__call__` method-wrappers (signature `(*args, **kwargs)`).
KINDS = {
    "c0": ["lam", "def", "bm", "cm", "sm", "part", "partbm", "obj", "objcall", "iter", "wraps", "wrapsbm", "dflt", "star"],
    "c1": ["lam", "def", "bm", "cm", "sm", "part", "partbm", "obj", "objcall", "missing", "wraps", "wrapsbm", "dflt",
           "star", "kwd"],
    "c2": ["lam", "def", "bm", "part", "obj", "wraps"],
}


def _shape(core, a, lead):
    """a `def` with `lead` ignored leading parameters followed by exactly `a` parameters handed to `core`"""
    if lead == 0:
        if a == 0:
            def f():
                return core()
        elif a == 1:
            def f(host):
                return core(host)
        else:
            def f(host, other):
                return core(host, other)
    elif lead == 1:
        if a == 0:
            def f(_x):
                return core()
        elif a == 1:
            def f(_x, host):
                return core(host)
        else:
            def f(_x, host, other):
                return core(host, other)
    else:
        if a == 0:
            def f(_x, _y):
                return core()
        elif a == 1:
            def f(_x, _y, host):
                return core(host)
        else:
            def f(_x, _y, host, other):
                return core(host, other)
    return f


def make_callable(core, a, kind):
    """wrap `core` (taking exactly `a` arguments) as a python callable of the given kind whose `inspect.signature`
    shows `a` parameters (kinds dflt/star/kwd: `a` required ones plus an optional one)"""
    import functools
    if kind == "lam":
        return [lambda: core(), lambda host: core(host), lambda host, other: core(host, other)][a]
    if kind == "def":
        return _shape(core, a, 0)
    if kind in ("bm", "cm", "sm", "partbm", "wrapsbm"):
        src_cls = type("Source", (), {"m": _shape(core, a, 1), "c": classmethod(_shape(core, a, 1)),
                                      "s": staticmethod(_shape(core, a, 0)), "p": _shape(core, a, 2)})
        src = src_cls()
        if kind == "bm":
            return src.m                                   # bound method, `a` further parameters
        if kind == "cm":
            return src_cls.c                               # classmethod bound to its class
        if kind == "sm":
            return src.s                                   # staticmethod looked up through an instance
        if kind == "partbm":
            return functools.partial(src.p, "fixed")       # partial of a bound method
        bound = src.m

        @functools.wraps(bound)
        def wrapper_bm(*args, **kwargs):
            return bound(*args, **kwargs)
        return wrapper_bm
    if kind == "part":
        return functools.partial(_shape(core, a, 1), "fixed")
    if kind in ("obj", "objcall"):
        obj = type("Provider", (), {"__call__": _shape(core, a, 1)})()
        return obj if kind == "obj" else obj.__call__
    if kind == "iter":                                     # builtin method-wrapper with the signature `()`
        assert a == 0
        return iter(_shape(core, 0, 0), object()).__next__
    if kind == "missing":                                  # builtin method-wrapper with the signature `(key, /)`
        assert a == 1
        return type("Lookup", (dict,), {"__missing__": _shape(core, 1, 1)})().__getitem__
    if kind == "wraps":
        inner = _shape(core, a, 0)

        @functools.wraps(inner)
        def wrapper(*args, **kwargs):
            return inner(*args, **kwargs)
        return wrapper
    if kind == "dflt":
        if a == 0:
            def f(_ignored=None):
                return core()
        else:
            def f(host, _extra=None):
                return core(host)
        return f
    if kind == "star":
        if a == 0:
            def f(*_rest):
                return core()
        else:
            def f(host, *_rest):
                return core(host)
        return f
    if kind == "kwd":
        assert a == 1

        def f(host, *, _opt=None):
            return core(host)
        return f
    raise ValueError(kind)


def make_explicit(tok, log, kind="lam"):
    """python object to assign for a dict-value token (and the kind of callable)"""
    p = tok.split(":", 2)
    if tok == "N":
        return None
    if p[0] == "p":
        return val_of(p[1])
    ident = int(p[1])
    if kind not in KINDS[p[0]]:
        raise ValueError(f"callable kind {kind} for {p[0]}")
    if p[0] == "c0":
        v = val_of(p[2])

        def core():
            log.append(ident)
            return v
        return make_callable(core, 0, kind)
    if p[0] == "c1":
        return make_callable(make_function(p[2], log, ident), 1, kind)

    def core2(host, other):          # c2: malformed, two required parameters
        log.append(ident)
        return 1
    return make_callable(core2, 2, kind)


# ---------------------------------------------------------------------------------------------------------------
# the real implementation
# ---------------------------------------------------------------------------------------------------------------
class Real:
    def __init__(self, mode, nhooks):
        from pyroll.core import HookHost, Hook, Unit, Profile, root_hooks
        self.HookHost, self.Hook, self.Unit, self.Profile, self.root_hooks = HookHost, Hook, Unit, Profile, root_hooks
        self.mode = mode
        self.nhooks = nhooks
        self.classes = {}
        self.insts = []
        self.hfs = {}            # registration key -> HookFunction (kept after removal: removing twice must be harmless)
        self.funcs = {}          # function id -> python function (one function may be registered several times)
        self.log = []
        self.rootlist = type(root_hooks)()     # a real `_RootHooksList` of our own, edited through its API
        self.hook_ids = {}       # id(Hook object) -> (class, hook number)
        self.explicit = []       # (object assigned, token): bound methods / builtins cannot carry an attribute
        self.unit = Unit(label="c02") if mode == "profile" else None

    def hookobj(self, c, n):
        h = getattr(self.classes[c], f"h{n}")
        self.hook_ids[id(h)] = (c, n)
        return h

    def register(self, key, fn, c, n, btok, tier, via):
        """one registration of function `fn` (created on first use) on hook `n` of class `c`"""
        f = self.funcs.get(fn)
        if f is None:
            f = self.funcs[fn] = make_function(btok, self.log, fn)
        hook = getattr(self.classes[c], f"h{n}")
        flags = dict(tryfirst=tier == "first", trylast=tier == "last")
        if via == "hf":
            # the HookFunction of an earlier registration of this function is handed in (add_function unwraps it)
            old = [h for h in self.hfs.values() if h.function is f]
            hf = hook.add_function(old[-1] if old else f, **flags)
        elif via == "call":
            hf = hook(f, **flags)                       # Hook.__call__ with the function
        elif via == "deco":
            hf = hook(**flags)(f)                       # decorator form with flags
        elif via == "with":
            hf = hook(f, **flags)                       # `with hook(f, tryfirst=True):` - the block is left by `exit`
            hf.__enter__()
        else:
            hf = hook.add_function(f, **flags)
        self.hfs[key] = hf
        return "ok"

    def idx(self, o):
        for k, x in enumerate(self.insts):
            if x is o:
                return k
        return None

    def cidx(self, cls):
        for k, x in self.classes.items():
            if x is cls:
                return k
        raise AssertionError("unknown class")

    def tok_explicit(self, v):
        for o, t in self.explicit:
            if o is v:
                return t
        return tok_of(v) if v is None else "p:" + tok_of(v)

    def guarded(self, fn):
        """run a call into pyroll; exceptions are outcomes"""
        try:
            return tok_res(fn())
        except AttributeError:
            return "AttributeError"
        except TypeError:
            return "TypeError"
        except Exception as e:
            return type(e).__name__

    def apply(self, op):
        self.log.clear()
        name = op[0]
        if name == "class":
            c, mro = op[1], op[2]
            if len(mro) == 1:
                def root_hook_fallback(self_, hook):
                    o = self_.__dict__.get("_fb")
                    if o is None:
                        return None
                    return getattr(o, hook.name, None)
                dct = {f"h{k}": self.Hook[float]() for k in range(self.nhooks)}
                dct["root_hook_fallback"] = root_hook_fallback
                base = self.HookHost if self.mode == "host" else self.Unit.Profile
            else:
                dct = {}
                base = self.classes[mro[1]]
            try:
                cls = type(f"C{c}", (base,), dct)
            except Exception as e:          # class creation runs pyroll's metaclass / __init_subclass__
                return type(e).__name__
            self.classes[c] = cls
            real_mro = [self.cidx(k) for k in cls.__mro__ if any(k is x for x in self.classes.values())]
            assert real_mro == list(mro), (real_mro, mro)
            return "ok"
        if name == "inst":
            cls = self.classes[op[1]]
            try:
                o = cls() if self.mode == "host" else cls(self.unit, self.Profile())
            except Exception as e:
                return type(e).__name__
            self.insts.append(o)
            return "ok"
        if name == "handover":
            cls = self.classes[op[2]]
            try:
                o = cls(self.unit, self.insts[op[1]])          # the real Unit.Profile.__init__
            except Exception as e:
                return type(e).__name__
            self.insts.append(o)
            return "ok"
        if name == "read":
            o = self.insts[op[1]]
            return self.guarded(lambda: getattr(o, f"h{op[2]}"))
        if name == "assign":
            v = make_explicit(op[3], self.log, op[4] if len(op) > 4 else "lam")
            if callable(v):
                self.explicit.append((v, op[3]))
            o = self.insts[op[1]]
            return self.guarded(lambda: setattr(o, f"h{op[2]}", v) or "ok")
        if name == "delete":
            o = self.insts[op[1]]
            return self.guarded(lambda: delattr(o, f"h{op[2]}") or "ok")
        if name == "reeval":
            o = self.insts[op[1]]
            return self.guarded(lambda: o.reevaluate_cache())
        if name == "clear":
            o = self.insts[op[1]]
            return self.guarded(lambda: o.__cache__.clear() or "ok")
        if name == "add":
            ident, c, n, btok = op[1:]
            return self.guarded(lambda: self.register(ident, ident, c, n, btok, "normal", "add"))
        if name == "reg":
            key, fn, c, n, btok, tier, via = op[1:]
            return self.guarded(lambda: self.register(key, fn, c, n, btok, tier, via))
        if name == "remove":
            hf = self.hfs.get(op[1])
            if hf is None:
                return "not-registered"
            return self.guarded(lambda: (hf.hook.remove_function(hf), "ok")[1])
        if name == "exit":
            hf = self.hfs.get(op[1])
            if hf is None:
                return "not-registered"
            return self.guarded(lambda: (hf.__exit__(None, None, None), "ok")[1])
        if name == "radd":
            return self.guarded(lambda: (self.rootlist.add(self.hookobj(*op[1])), "ok")[1])
        if name == "rbefore":
            return self.guarded(lambda: (self.rootlist.insert_before(self.hookobj(*op[1]), self.hookobj(*op[2])), "ok")[1])
        if name == "rafter":
            return self.guarded(lambda: (self.rootlist.insert_after(self.hookobj(*op[1]), self.hookobj(*op[2])), "ok")[1])
        if name == "rremove":
            return self.guarded(lambda: (self.rootlist.remove_last(self.hookobj(*op[1])), "ok")[1])
        if name in ("hasset", "hascached", "hassoc", "hasvalue"):
            o = self.insts[op[1]]
            meth = {"hasset": "has_set", "hascached": "has_cached", "hassoc": "has_set_or_cached",
                    "hasvalue": "has_value"}[name]
            return self.guarded(lambda: bool(getattr(o, meth)(f"h{op[2]}")) and "True" or "False")
        if name == "roots":
            def fill():
                self.rootlist = type(self.root_hooks)()
                for e in op[1]:
                    self.rootlist.add(self.hookobj(*e))
                return "ok"
            return self.guarded(fill)
        if name == "fb":
            self.insts[op[1]].__dict__["_fb"] = None if op[2] is None else self.insts[op[2]]
            return "ok"
        if name == "evalroot":
            o = self.insts[op[1]]
            saved = list(self.root_hooks)
            try:
                self.root_hooks.extend(self.rootlist)
                try:
                    res = o.evaluate_and_set_hooks()
                    return "vals:None:" + comma([tok_of(x) for x in res])
                except AttributeError:
                    return "vals:AttributeError:-"
                except TypeError:
                    return "vals:TypeError:-"
                except Exception as e:
                    return f"vals:{type(e).__name__}:-"
            finally:
                self.root_hooks[:] = saved
                assert len(self.root_hooks) == len(saved) and all(a is b for a, b in zip(self.root_hooks, saved))
        raise ValueError(op)

    def state(self):
        """[(cls, [(n, tok)], [(n, tok)], fb)] in python dict order, restricted to the hook names"""
        out = []
        for o in self.insts:
            d = []
            for k, v in o.__dict__.items():
                m = HOOK_RE.match(k)
                if m:
                    d.append((int(m.group(1)), self.tok_explicit(v)))
            c = []
            for k, v in o.__cache__.items():
                m = HOOK_RE.match(k)
                c.append((int(m.group(1)) if m else k, tok_of(v)))
            fb = o.__dict__.get("_fb")
            out.append((self.cidx(type(o)), d, c, None if fb is None else self.idx(fb)))
        return out

    def marks(self):
        """the executing marks that are set at this moment: `key@instance` for every registration made by the harness"""
        out = []
        for key, hf in self.hfs.items():
            act = getattr(hf, "_active_instances", None)
            if not act:
                continue
            for k, o in enumerate(self.insts):
                if id(o) in act:
                    out.append((key, k))
            if not any(id(o) in act for o in self.insts):
                out.append((key, "?"))
        return comma([f"{a}@{b}" for a, b in sorted(out, key=str)])

    def roots(self):
        return [self.hook_ids.get(id(h), ("?", "?")) for h in self.rootlist]


def tok_res(v):
    if isinstance(v, str):
        return v
    return "None" if v is None else "val:" + tok_of(v)


def comma(l):
    return ",".join(str(x) for x in l) if l else "-"


def dump(state, ordered=True):
    parts = []
    for (c, d, ca, fb) in state:
        if not ordered:
            d, ca = sorted(d), sorted(ca, key=str)
        parts.append(f"c{c}[{comma(f'{n}={t}' for n, t in d) if d else '-'}]"
                     f"[{comma(f'{n}={t}' for n, t in ca) if ca else '-'}]fb{'_' if fb is None else fb}")
    return " ".join(parts)


# ---------------------------------------------------------------------------------------------------------------
# the oracle: reference state machine written from the property text
#   read    = the explicit value if there is one (a callable is invoked: no argument if it takes none, else the
#             object), otherwise the remembered value, otherwise compute (first non-None implementation, most derived
#             class first, latest registration first), remember and return it; nothing available -> AttributeError
#   assign / delete touch only the explicit value; re-evaluation recomputes exactly the remembered names from the
#   current implementations; root-hook evaluation computes and stores the result as an EXPLICIT value; hand-over
#   passes the explicit values on and none of the remembered ones.
#   (explicit None counts as "set" for has_set and as absent for reads - DESIGN.md, C02)
# ---------------------------------------------------------------------------------------------------------------
class Ref:
    def __init__(self):
        self.mro = {}
        self.objs = []           # dict(cls, ex: {n: tok}, mem: {n: value-or-None}, fb)
        self.regs = []           # (registration key, function id, cls, hook, body, tier) in registration order
        self.roots = []
        self.trace = []

    def compute(self, i, n):
        """the implementations registered at this moment, highest priority first: `tryfirst` registrations, then the
        ordinary ones, then `trylast` (documented meaning of the flags); within a priority the most derived class first,
        the latest registration first.  A function registered several times is consulted once per registration."""
        o = self.objs[i]
        for tier in ("first", "normal", "last"):
            for k in self.mro[o["cls"]]:
                for (key, fn, c, h, b, t) in reversed([r for r in self.regs if r[2] == k and r[3] == n and r[5] == tier]):
                    self.trace.append(fn)
                    v = self.body(i, b)
                    if v is not None:
                        return v
        return None

    def body(self, i, b):
        if b[0] == "const":
            return b[1]
        if b[0] == "none":
            return None
        _, m, k, c = b
        # `cread` / `ctry`: implementations that take `cycle`; a fresh computation is no cycle, so they are `read` / `try`
        if b[0] in ("try", "ctry"):
            try:
                self.read(i, m)
            except RefAttr:
                return None
        x = self.read(i, m)
        if x is None:
            raise RefType()
        return x * k + c

    def read(self, i, n):
        o = self.objs[i]
        tok = o["ex"].get(n, "N")
        if tok != "N":
            p = tok.split(":", 2)
            if p[0] == "p":
                return val_of(p[1])
            if p[0] == "c2":
                raise RefType()
            self.trace.append(int(p[1]))
            if p[0] == "c0":
                return val_of(p[2])
            return self.body(i, body_of(p[2]))
        if o["mem"].get(n) is not None:
            return o["mem"][n]
        v = self.compute(i, n)
        if v is None:
            raise RefAttr()
        o["mem"][n] = v
        return v

    def guarded(self, fn):
        try:
            return tok_res(fn())
        except RefAttr:
            return "AttributeError"
        except RefType:
            return "TypeError"

    def apply(self, op, cache_order=None):
        self.trace = []
        name = op[0]
        if name == "class":
            self.mro[op[1]] = list(op[2])
        elif name == "inst":
            self.objs.append(dict(cls=op[1], ex={}, mem={}, fb=None))
        elif name == "handover":
            self.objs.append(dict(cls=op[2], ex=dict(self.objs[op[1]]["ex"]), mem={}, fb=None))
        elif name == "read":
            return self.guarded(lambda: self.read(op[1], op[2]))
        elif name == "assign":
            self.objs[op[1]]["ex"][op[2]] = op[3]
        elif name == "delete":
            self.objs[op[1]]["ex"].pop(op[2], None)
        elif name == "reeval":
            o = self.objs[op[1]]
            names = list(cache_order) if cache_order is not None else list(o["mem"])
            if sorted(names) != sorted(o["mem"]):
                names = list(o["mem"])

            def go():
                for n in names:
                    o["mem"][n] = self.compute(op[1], n)
            return self.guarded(go)
        elif name == "clear":
            self.objs[op[1]]["mem"].clear()
        elif name == "add":
            self.regs.append((op[1], op[1], op[2], op[3], body_of(op[4]), "normal"))
        elif name == "reg":
            # one MORE registration (a function may be registered several times; each registration is removed on its own)
            self.regs.append((op[1], op[2], op[3], op[4], body_of(op[5]), op[6]))
        elif name in ("remove", "exit"):
            # exactly the registration given (leaving a `with` block = removing the registration the block made)
            self.regs = [r for r in self.regs if r[0] != op[1]]
        elif name == "radd":
            self.roots.append(tuple(op[1]))
        elif name in ("rbefore", "rafter"):
            pos, item = tuple(op[1]), tuple(op[2])
            if pos not in self.roots:
                return "ValueError"
            k = self.roots.index(pos) + (1 if name == "rafter" else 0)
            self.roots = self.roots[:k] + [item] + self.roots[k:]
        elif name == "rremove":
            item = tuple(op[1])
            if item not in self.roots:
                return "ValueError"
            k = max(j for j, e in enumerate(self.roots) if e == item)
            self.roots = self.roots[:k] + self.roots[k + 1:]
        elif name == "hasset":
            return "True" if op[2] in self.objs[op[1]]["ex"] else "False"
        elif name == "hascached":
            return "True" if op[2] in self.objs[op[1]]["mem"] else "False"
        elif name == "hassoc":
            o = self.objs[op[1]]
            return "True" if (op[2] in o["ex"] or op[2] in o["mem"]) else "False"
        elif name == "hasvalue":
            def go():
                try:
                    self.read(op[1], op[2])
                    return "True"
                except RefAttr:
                    return "False"
            return self.guarded(go)
        elif name == "roots":
            self.roots = [tuple(e) for e in op[1]]
        elif name == "fb":
            self.objs[op[1]]["fb"] = op[2]
        elif name == "evalroot":
            i = op[1]
            o = self.objs[i]
            acc = []
            try:
                for (c, n) in self.roots:
                    if c not in self.mro[o["cls"]]:
                        continue
                    v = self.compute(i, n)
                    if v is None and o["fb"] is not None:
                        try:
                            v = self.read(o["fb"], n)
                        except RefAttr:
                            v = None
                    if v is None:
                        raise RefAttr()
                    o["ex"][n] = "p:" + tok_of(v)
                    acc.append(tok_of(v))
            except RefAttr:
                return "vals:AttributeError:-"
            except RefType:
                return "vals:TypeError:-"
            return "vals:None:" + comma(acc)
        else:
            raise ValueError(op)
        return "ok"

    def state(self):
        return [(o["cls"], list(o["ex"].items()), [(n, tok_of(v)) for n, v in o["mem"].items()], o["fb"])
                for o in self.objs]

    def source(self, i, n):
        """where a read of (i, n) is served from, according to the text"""
        o = self.objs[i]
        tok = o["ex"].get(n, "N")
        if tok != "N":
            return "explicit-" + {"p": "plain", "c0": "callable0", "c1": "callable1", "c2": "callable2"}[tok.split(":")[0]]
        if o["mem"].get(n) is not None:
            return "remembered"
        return "computed"


# ---------------------------------------------------------------------------------------------------------------
# op lines
# ---------------------------------------------------------------------------------------------------------------
def to_line(op):
    n = op[0]
    if n == "class":
        return f"class {op[1]} {comma(op[2])}"
    if n == "roots":
        return "roots " + comma([f"{c}:{h}" for c, h in op[1]])
    if n == "fb":
        return f"fb {op[1]} {'_' if op[2] is None else op[2]}"
    if n in ("radd", "rremove"):
        return f"{n} {op[1][0]}:{op[1][1]}"
    if n in ("rbefore", "rafter"):
        return f"{n} {op[1][0]}:{op[1][1]} {op[2][0]}:{op[2][1]}"
    return " ".join(str(x) for x in op)


def parse_line(line):
    t = line.split()
    n = t[0]
    if n == "class":
        return ("class", int(t[1]), [int(x) for x in t[2].split(",")])
    if n == "roots":
        return ("roots", [] if t[1] == "-" else [tuple(int(y) for y in x.split(":")) for x in t[1].split(",")])
    if n == "fb":
        return ("fb", int(t[1]), None if t[2] == "_" else int(t[2]))
    if n == "assign":        # optional 5th token: the kind of callable (the model ignores it: its arity is in the value token)
        return ("assign", int(t[1]), int(t[2]), t[3]) + tuple(t[4:5])
    if n == "add":
        return ("add", int(t[1]), int(t[2]), int(t[3]), t[4])
    if n == "reg":           # reg <registration key> <function id> <class> <hook> <body> <first|normal|last> <via>
        return ("reg", int(t[1]), int(t[2]), int(t[3]), int(t[4]), t[5], t[6], t[7])
    if n in ("radd", "rremove"):
        return (n, tuple(int(y) for y in t[1].split(":")))
    if n in ("rbefore", "rafter"):
        return (n, tuple(int(y) for y in t[1].split(":")), tuple(int(y) for y in t[2].split(":")))
    return (n,) + tuple(int(x) for x in t[1:])


# ---------------------------------------------------------------------------------------------------------------
# generator
# ---------------------------------------------------------------------------------------------------------------
VALS = ["i0", "bF", "bT", "i1", "i2", "i5", "i-3", "i7", "i0", "bF"]


def gen_body(rng, n, allow_none=True, cycle_ok=False):
    """body of an implementation of hook n (or of a one-parameter explicit callable): a constant, None, or a read of a
    LOWER-numbered hook (so the dependencies are acyclic); with `cycle_ok` (registered implementations only - an explicit
    callable with a second parameter would not be a one-argument callable) a third of the reading bodies take the `cycle`
    parameter and return None when it is true, as the implementations of pyroll.core do"""
    r = rng.random()
    if n == 0 or r < 0.45:
        if allow_none and rng.random() < 0.25:
            return "none"
        return "const:" + rng.choice(VALS)
    m = rng.randrange(n)
    k, c = rng.choice([1, 2, 3, -1, 10]), rng.choice([0, 1, 100, -7])
    kind = "read" if r < 0.75 else "try"
    if cycle_ok and rng.random() < 0.35:
        kind = {"read": "cread", "try": "ctry"}[kind]
    return f"{kind}:{m}:{k}:{c}"


TIERS = ["normal", "normal", "normal", "first", "last"]
VIAS = ["add", "add", "call", "deco"]


def gen_case(rng, max_ops):
    mode = "profile" if rng.random() < 0.6 else "host"
    nh = rng.randrange(2, 6)
    ncls = rng.choice([1, 2, 2, 3, 3])
    ops = []
    mros = {}
    for c in range(ncls):
        if c == 0 or rng.random() < 0.25:
            mros[c] = [c]
        else:
            mros[c] = [c] + mros[rng.randrange(c)]
        ops.append(("class", c, mros[c]))
    ninst = rng.randrange(1, 4)
    inst_cls = []
    for _ in range(ninst):
        # prefer the most derived classes
        c = rng.choice(list(range(ncls)) + [ncls - 1])
        inst_cls.append(c)
        ops.append(("inst", c))
    next_id = [0]
    live = {}            # registration key -> (function id, class, hook, body, tier, via)
    dead = []            # keys of removed registrations
    roots_now = []       # what the root list holds (to draw positions that exist)

    def fresh():
        next_id[0] += 1
        return next_id[0] - 1

    def a_class_of_an_instance():
        return rng.choice(mros[rng.choice(inst_cls)])

    def add_impl():
        n = rng.randrange(nh)
        # register on a class that some instance actually resolves through (mostly)
        if rng.random() < 0.85:
            c = a_class_of_an_instance()
        else:
            c = rng.randrange(ncls)
        ident = fresh()
        body = gen_body(rng, n, cycle_ok=True)
        if rng.random() < 0.3:
            # through the other registration APIs / into the tryfirst or trylast store
            tier, via = rng.choice(TIERS), rng.choice(VIAS)
            live[ident] = (ident, c, n, body, tier, via)
            return ("reg", ident, ident, c, n, body, tier, via)
        live[ident] = (ident, c, n, body, "normal", "add")
        return ("add", ident, c, n, body)

    def removal(key):
        live.pop(key, None)
        dead.append(key)

    def inst_through(c):
        """an instance whose class resolves through class c (else any)"""
        cands = [k for k, ic in enumerate(inst_cls) if c in mros[ic]]
        return rng.choice(cands) if cands else rng.randrange(len(inst_cls))

    def fail_first():
        """a read that FAILS first: an implementation (mostly one taking `cycle`) of hook n reads hook m, which has no
        value yet; the hook is probed (read / has_value / re-evaluation / root evaluation), then the input is supplied (an
        explicit value or an implementation) and the hook is read / re-evaluated again"""
        n = rng.randrange(1, nh)
        free = [m for m in range(n) if not any(v[2] == m for v in live.values())]
        m = rng.choice(free) if free and rng.random() < 0.8 else rng.randrange(n)
        c = a_class_of_an_instance()
        i = inst_through(c)
        kind = rng.choice(["cread", "cread", "cread", "ctry", "read"])
        body = f"{kind}:{m}:{rng.choice([1, 2, 3, -1, 10])}:{rng.choice([0, 1, 100, -7])}"
        key = fresh()
        out = []
        q = rng.random()
        if q < 0.6:
            out.append(("delete", i, m))
        elif q < 0.8:
            # the input is there but useless: an explicit callable yielding None makes `self.hm * k` a TypeError inside
            # the implementation (a failure other than AttributeError)
            out.append(("assign", i, m, f"c0:{fresh()}:N", rng.choice(KINDS["c0"])))
        tier = rng.choice(["normal", "normal", "first", "last"])
        live[key] = (key, c, n, body, tier, "add")
        out.append(("reg", key, key, c, n, body, tier, rng.choice(VIAS)))
        variant = rng.random()
        if variant < 0.25:
            # the failure happens inside reevaluate_cache: n is remembered, then its input disappears
            out += [("assign", i, m, "p:" + rng.choice(VALS)), ("clear", i), ("read", i, n), ("delete", i, m),
                    ("reeval", i)]
        else:
            if rng.random() < 0.6:
                out.append(("clear", i))
            for _ in range(rng.choice([1, 1, 2, 3])):
                probe = rng.choice(["read", "hasvalue", "hasvalue", "evalroot"])
                if probe == "evalroot":
                    roots_now[:] = [(c, n)]
                    out += [("roots", [(c, n)]), ("evalroot", i)]
                else:
                    out.append((probe, i, n))
        # supply the input
        if rng.random() < 0.6:
            out.append(("assign", i, m, "p:" + rng.choice(VALS)))
        else:
            k2 = fresh()
            c2 = a_class_of_an_instance() if rng.random() < 0.3 else rng.choice(mros[inst_cls[i]])
            b2 = "const:" + rng.choice(VALS)
            live[k2] = (k2, c2, m, b2, "normal", "add")
            out.append(("add", k2, c2, m, b2))
        for _ in range(rng.choice([1, 2, 2])):
            out.append((rng.choice(["read", "read", "hasvalue"]), i, n))
        if variant < 0.25 or rng.random() < 0.5:
            out += [("reeval", i), ("read", i, n)]
        return out, (i, n)

    def same_function_again():
        """one function registered more than once on a hook (permanently and for the extent of a `with` block, or a second
        time with another priority), then ONE of the registrations removed; re-evaluation / a fresh computation must still
        consult the other one"""
        if not live:
            return [add_impl()], None
        key0 = rng.choice(list(live))
        fn, c, n, body, _, _ = live[key0]
        key1 = fresh()
        c1 = c if rng.random() < 0.85 else rng.randrange(ncls)
        tier = rng.choice(["first", "first", "last", "normal"])
        via = rng.choice(["with", "with", "hf", "hf", "add", "call"])
        live[key1] = (fn, c1, n, body, tier, via)
        i = inst_through(c)
        out = [("reg", key1, fn, c1, n, body, tier, via)]
        if rng.random() < 0.6:
            out += [("reeval", i), ("read", i, n)] if rng.random() < 0.5 else [("clear", i), ("read", i, n)]
        victim = key1 if rng.random() < 0.6 else key0
        out.append(("exit" if live[victim][5] == "with" and rng.random() < 0.8 else "remove", victim))
        removal(victim)
        if rng.random() < 0.5:
            out += [("reeval", i), (rng.choice(["read", "read", "hasvalue", "hascached"]), i, n)]
        else:
            out += [("clear", i), (rng.choice(["read", "hasvalue"]), i, n)]
        if rng.random() < 0.3 and len(inst_cls) < 5:
            # a fresh instance computes from the same registrations
            inst_cls.append(inst_cls[i])
            out += [("inst", inst_cls[i]), ("read", len(inst_cls) - 1, n)]
        return out, (i, n)

    def root_edit(i):
        """the root-hook list is edited through its API (plugins do that at import time), then evaluated"""
        def entry():
            return (a_class_of_an_instance(), rng.randrange(nh))

        def present():
            return rng.choice(roots_now) if roots_now and rng.random() < 0.85 else entry()
        q = rng.random()
        if q < 0.3:
            e = entry()
            op = ("radd", e)
            roots_now.append(e)
        elif q < 0.8:
            pos, e = present(), entry()
            op = ("rbefore" if q < 0.55 else "rafter", pos, e)
            if pos in roots_now:
                roots_now.insert(roots_now.index(pos) + (0 if q < 0.55 else 1), e)
        else:
            e = present()
            op = ("rremove", e)
            if e in roots_now:
                k = max(j for j, x in enumerate(roots_now) if x == e)
                del roots_now[k]
        out = [op]
        if rng.random() < 0.5:
            out.append(("evalroot", i))
        return out

    for _ in range(rng.choice([0, 1, 2, 3, 3, 4, 5, 6])):
        ops.append(add_impl())
    if rng.random() < 0.5:
        # root hooks declared up front (as pyroll/core/__init__.py does), owned by classes the instances resolve through
        roots = []
        for _ in range(rng.randrange(1, 4)):
            e = (rng.choice(mros[rng.choice(inst_cls)]), rng.randrange(nh))
            if e not in roots:
                roots.append(e)
        ops.append(("roots", roots))
        roots_now[:] = roots
    n_ops = rng.randrange(5, max_ops + 1)
    count = 0
    last = None
    while count < n_ops:
        if last is not None and last[0] < len(inst_cls) and rng.random() < 0.4:
            i, n = last          # stay on the same (instance, hook): assign -> read -> delete -> read, reeval -> has_cached ...
        else:
            i = rng.randrange(len(inst_cls))
            n = rng.randrange(nh)
        last = (i, n)
        r0 = rng.random()
        if r0 < 0.10:
            # scripted histories for the life-cycle around failures, multiple registrations and the root list
            if r0 < 0.04:
                seq, tgt = fail_first()
            elif r0 < 0.075:
                seq, tgt = same_function_again()
            else:
                seq, tgt = root_edit(i), None
            ops.extend(seq)
            count += len(seq)
            if tgt is not None:
                last = tgt
            continue
        r = rng.random()
        if r < 0.27:
            op = ("read", i, n)
        elif r < 0.42:
            q = rng.random()
            if q < 0.40:
                v = "p:" + rng.choice(VALS)
            elif q < 0.6:
                v = f"c0:{fresh()}:{rng.choice(VALS + ['N'])}"
            elif q < 0.82:
                v = f"c1:{fresh()}:{gen_body(rng, n)}"
            elif q < 0.95:
                v = "N"
            else:
                v = f"c2:{fresh()}"
            op = ("assign", i, n, v)
            if v[0] == "c":
                # every kind of callable python offers for this number of parameters (lambda, def, bound method, partial, ...)
                op += (rng.choice(KINDS[v[:2]]),)
                if rng.random() < 0.5:
                    # scripted follow-up: the callable is invoked on EVERY read (its result is never remembered)
                    ops.append(op)
                    ops.append((rng.choice(["read", "read", "hasvalue"]), i, n))
                    count += 2
                    op = ("read", i, n)
        elif r < 0.49:
            op = ("delete", i, n)
        elif r < 0.58:
            op = ("reeval", i)
        elif r < 0.61:
            op = ("clear", i)
        elif r < 0.70:
            op = add_impl()
        elif r < 0.74:
            if dead and rng.random() < 0.06:
                op = ("remove", rng.choice(dead))        # removing a registration that is gone already is harmless
                ops.append(op)
                count += 1
                continue
            if not live:
                continue
            ident = rng.choice(list(live))
            n = live[ident][2]
            op = ("exit" if live[ident][5] == "with" and rng.random() < 0.7 else "remove", ident)
            removal(ident)
            if rng.random() < 0.4:
                # scripted follow-up: the registry changed - re-evaluate, then look at the hook that lost an implementation
                # (reaches the remembered-None state: has_cached stays true, reads recompute)
                ops.append(op)
                ops.append(("reeval", i))
                ops.append((rng.choice(["hascached", "hassoc", "read", "hasvalue"]), i, n))
                count += 3
                last = (i, n)
                continue
        elif r < 0.86:
            op = (rng.choice(["hasset", "hascached", "hassoc", "hasvalue", "hasvalue"]), i, n)
        elif r < 0.90:
            k = rng.randrange(0, 4)
            roots = []
            for _ in range(k):
                e = (rng.randrange(ncls), rng.randrange(nh))
                if e not in roots:
                    roots.append(e)
            op = ("roots", roots)
            roots_now[:] = roots
        elif r < 0.95:
            op = ("evalroot", i)
        elif r < 0.97:
            op = ("fb", i, None if rng.random() < 0.2 else rng.randrange(len(inst_cls)))
        elif r < 0.995:
            if len(inst_cls) >= 5:
                continue
            if mode == "profile":
                c = rng.randrange(ncls)
                op = ("handover", i, c)
            else:
                c = rng.randrange(ncls)
                op = ("inst", c)
            inst_cls.append(c)
        else:
            continue
        ops.append(op)
        count += 1
    return {"mode": mode, "nhooks": nh, "ops": ops}


# ---------------------------------------------------------------------------------------------------------------
# running one case on implementation + oracle
# ---------------------------------------------------------------------------------------------------------------
def clause_key(op, ref_before, real_out, ref_out, real_st, ref_st, real_tr, ref_tr, real_roots=None, ref_roots=None):
    """stable key naming the clause of the property that fails"""
    name = op[0]
    if real_out != ref_out:
        aspect = "result"
    elif real_tr != ref_tr:
        aspect = "invocations"
    elif real_roots != ref_roots:
        aspect = "root-list"
    else:
        dr = [(c, sorted(d)) for (c, d, _, _) in real_st]
        de = [(c, sorted(d)) for (c, d, _, _) in ref_st]
        aspect = "explicit-values" if dr != de else "remembered-values"
    if name in ("read", "hasvalue"):
        return f"{name}-{ref_before}-{aspect}"
    return f"{name}-{aspect}"


def twin_check(real, ref):
    """'otherwise a freshly computed value': what a fresh computation yields depends on the explicit values of the object
    and on the implementations registered at that moment - not on what was read, failed or remembered on the object before.
    Every instance gets a TWIN (new instance of its class, the same explicit values, never read); the remembered values
    of the original are dropped, and every hook is read on both, in the same order: outcome and invocations must agree.
    Returns (instance, hook, observed on the original, observed on the twin) of the first difference, or None."""
    for idx in range(len(real.insts)):
        o = real.insts[idx]
        cls = type(o)
        twin = cls() if real.mode == "host" else cls(real.unit, real.Profile())
        for k, v in list(o.__dict__.items()):
            if HOOK_RE.match(k):
                twin.__dict__[k] = v                      # the same explicit values (the same objects)
        o.__cache__.clear()
        for n in range(real.nhooks):
            real.log.clear()
            a = real.guarded(lambda: getattr(o, f"h{n}"))
            ta = list(real.log)
            real.log.clear()
            b = real.guarded(lambda: getattr(twin, f"h{n}"))
            tb = list(real.log)
            real.log.clear()
            if a != b or ta != tb:
                return idx, n, [a, comma(ta)], [b, comma(tb)]
    return None


def run_case(case, want_obs=False, twin=True):
    """returns (observations for the model comparison, first oracle mismatch or None, stats)"""
    real = Real(case["mode"], case["nhooks"])
    ref = Ref()
    obs = []
    bad = None
    sources = set()
    failed = set()           # (instance, hook) pairs whose evaluation failed at some time (according to the text)
    complete = True
    for k, op in enumerate(case["ops"]):
        src = None
        if op[0] in ("read", "hasvalue"):
            src = ref.source(op[1], op[2])
            if src == "computed" and ((op[1], op[2]) in failed or (op[1], None) in failed):
                src = "computed-after-failure"
        order = None
        if op[0] == "reeval":
            order = [n for n in (HOOK_RE.match(x) and int(x[1:]) for x in real.insts[op[1]].__cache__) if n is not None]
            if order:
                sources.add("reeval")
        r_out = real.apply(op)
        r_tr = list(real.log)
        r_st = real.state()
        r_roots = real.roots()
        before = copy.deepcopy(ref) if op[0] == "reeval" and order and len(order) <= 5 else None
        e_out = ref.apply(op, order)
        e_tr = list(ref.trace)
        e_st = ref.state()
        if before is not None and (r_out != e_out or r_tr != e_tr or dump(r_st, False) != dump(e_st, False)):
            # the property does not fix the ORDER in which the remembered names are recomputed (the code and the model
            # use dict order); accept any order that explains the observation - then only the tie is broken
            for perm in itertools.permutations(order):
                alt = copy.deepcopy(before)
                a_out = alt.apply(op, list(perm))
                if a_out == r_out and list(alt.trace) == r_tr and dump(alt.state(), False) == dump(r_st, False):
                    ref, e_out, e_tr, e_st = alt, a_out, list(alt.trace), alt.state()
                    sources.add("reeval-other-order")
                    break
        e_roots = list(ref.roots)
        if src and r_out.startswith("val"):
            sources.add(src.split("-")[0])
        if e_out in ("AttributeError", "TypeError") or e_out.startswith(("vals:AttributeError", "vals:TypeError")) \
                or (op[0] == "hasvalue" and e_out == "False"):
            if op[0] in ("read", "hasvalue"):
                failed.add((op[1], op[2]))
                sources.add("failed")
            elif op[0] in ("reeval", "evalroot"):
                failed.add((op[1], None))
                sources.add("failed")
        obs.append(f"{r_out} | {comma(r_tr)} | {dump(r_st)} | act:{real.marks()} | "
                   f"roots:{comma([f'{c}:{n}' for c, n in r_roots])}")
        if bad is None and (r_out != e_out or r_tr != e_tr or dump(r_st, False) != dump(e_st, False)
                            or r_roots != e_roots):
            info = {"op": to_line(op), "observed": [r_out, comma(r_tr), dump(r_st, False)],
                    "expected": [e_out, comma(e_tr), dump(e_st, False)]}
            if r_roots != e_roots:
                info["observed"].append("roots:" + comma([f"{c}:{n}" for c, n in r_roots]))
                info["expected"].append("roots:" + comma([f"{c}:{n}" for c, n in e_roots]))
            if src and src.startswith("explicit-callable"):
                # which kind of callable (lambda, bound method, partial ...) sits there: the latest assignment to (i, n)
                last = [o for o in case["ops"][:k] if o[0] == "assign" and o[1:3] == op[1:3]][-1]
                info["explicit"] = f"{last[3]} kind={last[4] if len(last) > 4 else 'lam'}"
            bad = (k, clause_key(op, src, r_out, e_out, r_st, e_st, r_tr, e_tr, r_roots, e_roots), info)
            if not want_obs:
                break
        if op[0] in STRUCTURAL and r_out != "ok":
            complete = False
            break            # the class / instance does not exist: the rest of the history cannot be applied
    if twin and bad is None and complete and real.insts:
        d = twin_check(real, ref)
        if d is not None:
            idx, n, a, b = d
            key = "fresh-computation-differs-from-twin" + ("-after-failure" if failed else "")
            bad = (len(case["ops"]) - 1, key,
                   {"op": f"(after the history) remembered values of instance {idx} dropped, h{n} read on it and on a "
                          f"twin (new instance of the same class, the same explicit values)",
                    "observed": a + ["-"], "expected": b + ["-"]})
    return obs, bad, sources


STRUCTURAL = ("class", "inst", "handover")


def shrink(case, k, key):
    ops = list(case["ops"][:k + 1])
    changed = True
    while changed:
        changed = False
        for j in range(len(ops) - 1, -1, -1):
            if ops[j][0] in STRUCTURAL:
                continue
            cand = ops[:j] + ops[j + 1:]
            if any(o[0] in ("remove", "exit") and not any(p[0] in ("add", "reg") and p[1] == o[1] for p in cand)
                   for o in cand):
                continue
            try:
                _, bad, _ = run_case({**case, "ops": cand})
            except Exception:
                continue
            if bad is not None and bad[1] == key:
                ops = cand[:bad[0] + 1]
                changed = True
                break
    return ops


REPORTED = {}


def report(ctx, case, bad):
    k, key, info = bad
    REPORTED[key] = REPORTED.get(key, 0) + 1
    if REPORTED[key] > 3:           # enough replays of this kind; keep the run short
        ctx.count("further-violations:" + key)
        return
    small = shrink(case, k, key)
    try:
        _, bad2, _ = run_case({**case, "ops": small})
    except Exception:
        small, bad2 = list(case["ops"][:k + 1]), None
    if bad2 is not None:
        info = bad2[2]
    ctx.violation(key, f"{key}: after `{info['op']}`"
                       + (f" (explicit value {info['explicit']})" if "explicit" in info else "")
                       + f" observed {info['observed'][0]} / trace {info['observed'][1]}, "
                       f"expected {info['expected'][0]} / trace {info['expected'][1]}",
                  {"mode": case["mode"], "nhooks": case["nhooks"], "ops": [to_line(o) for o in small], **info,
                   "how": "driver/props/c02.py replay: classes via type() (HookHost or Unit.Profile based), hooks h0.., "
                          "apply the op lines with Real.apply and compare with the reference machine Ref"})


CORPUS = [
    # falsy explicit values win over cache and implementations
    {"mode": "host", "nhooks": 2, "ops": [("class", 0, [0]), ("inst", 0), ("add", 0, 0, 0, "const:i5"), ("read", 0, 0),
                                         ("assign", 0, 0, "p:i0"), ("read", 0, 0), ("assign", 0, 0, "p:bF"),
                                         ("read", 0, 0), ("delete", 0, 0), ("read", 0, 0)]},
    # callables by arity, result not cached; explicit None is "set" but not a value
    {"mode": "host", "nhooks": 3, "ops": [("class", 0, [0]), ("class", 1, [1, 0]), ("inst", 1),
                                         ("add", 0, 0, 0, "const:i2"), ("assign", 0, 1, "c1:1:read:0:3:1"),
                                         ("read", 0, 1), ("hascached", 0, 1), ("assign", 0, 2, "c0:2:bF"), ("read", 0, 2),
                                         ("assign", 0, 0, "N"), ("hasset", 0, 0), ("hasvalue", 0, 0), ("read", 0, 0),
                                         ("assign", 0, 2, "c0:3:N"), ("read", 0, 2), ("hasvalue", 0, 2),
                                         ("assign", 0, 2, "c2:4"), ("read", 0, 2)]},
    # re-evaluation after a registration change on a base class, Gauss-Seidel order, cached None
    {"mode": "host", "nhooks": 3, "ops": [("class", 0, [0]), ("class", 1, [1, 0]), ("inst", 1), ("inst", 0),
                                         ("add", 0, 0, 0, "const:i1"), ("add", 1, 1, 1, "read:0:10:0"),
                                         ("read", 0, 1), ("read", 1, 0), ("add", 2, 0, 0, "const:i2"), ("read", 0, 1),
                                         ("reeval", 0), ("read", 0, 1), ("read", 1, 0), ("remove", 2), ("remove", 0),
                                         ("reeval", 0), ("hascached", 0, 0), ("read", 0, 0), ("reeval", 1),
                                         ("read", 1, 0)]},
    # root hooks become explicit, survive re-evaluation, cache clear and hand-over; the cache is not handed over
    {"mode": "profile", "nhooks": 3, "ops": [("class", 0, [0]), ("class", 1, [1, 0]), ("inst", 1), ("inst", 0),
                                            ("add", 0, 0, 0, "const:i0"), ("add", 1, 1, 1, "const:i7"),
                                            ("add", 2, 0, 2, "try:1:2:1"), ("roots", [(0, 0), (1, 1)]), ("read", 0, 2),
                                            ("evalroot", 0), ("hasset", 0, 0), ("remove", 0), ("reeval", 0),
                                            ("clear", 0), ("read", 0, 0), ("handover", 0, 0), ("read", 2, 0),
                                            ("hascached", 2, 2), ("hasset", 2, 1), ("evalroot", 1), ("fb", 1, 0),
                                            ("evalroot", 1), ("read", 1, 0)]},
    # explicit None over a remembered value: served from the cache silently; results of explicit callables are not
    # remembered; root evaluation prefers the implementations and falls back only when they give None
    {"mode": "host", "nhooks": 3, "ops": [("class", 0, [0]), ("inst", 0), ("inst", 0), ("add", 0, 0, 0, "const:i3"),
                                         ("read", 0, 0), ("assign", 0, 0, "N"), ("read", 0, 0), ("hasset", 0, 0),
                                         ("assign", 0, 1, "c1:1:read:0:2:0"), ("read", 0, 1), ("hascached", 0, 1),
                                         ("assign", 0, 2, "c0:2:i0"), ("read", 0, 2), ("hascached", 0, 2),
                                         ("roots", [(0, 0)]), ("fb", 1, 0), ("assign", 0, 0, "p:i9"), ("evalroot", 1),
                                         ("remove", 0), ("evalroot", 1), ("reeval", 1), ("read", 1, 0)]},
    # every kind of explicit callable: bound methods with 0 / 1 further parameter, classmethods, partials, callable
    # objects, builtin method-wrappers, functools.wraps wrappers, defaults / *args; over a remembered value, which
    # stays untouched; falsy and None results; invoked on every read
    {"mode": "host", "nhooks": 3, "ops":
        [("class", 0, [0]), ("inst", 0), ("add", 0, 0, 0, "const:i2"), ("add", 1, 0, 1, "const:i21"), ("read", 0, 1)]
        + [x for j, k in enumerate(KINDS["c0"])
           for x in (("assign", 0, 1, f"c0:{10 + j}:{['i0', 'i7', 'bF', 'N'][j % 4]}", k), ("read", 0, 1), ("read", 0, 1))]
        + [x for j, k in enumerate(KINDS["c1"])
           for x in (("assign", 0, 1, f"c1:{40 + j}:{['read:0:3:1', 'const:i0', 'try:0:1:0', 'none'][j % 4]}", k),
                     ("read", 0, 1), ("hasvalue", 0, 1))]
        + [x for j, k in enumerate(KINDS["c2"]) for x in (("assign", 0, 2, f"c2:{70 + j}", k), ("read", 0, 2))]
        + [("hascached", 0, 1), ("delete", 0, 1), ("read", 0, 1), ("hascached", 0, 2)]},
    # a read that FAILS first: the `cycle`-aware implementation of h1 reads the missing h0 (a trylast stand-in is registered
    # too); probed three times (read, has_value twice), then the input is supplied: the value is computed from the
    # implementation, remembered, served silently; the same through a failed re-evaluation and a failed root evaluation
    {"mode": "host", "nhooks": 3, "ops": [("class", 0, [0]), ("class", 1, [1, 0]), ("inst", 1), ("inst", 1),
                                         ("reg", 0, 0, 0, 1, "cread:0:2:1", "normal", "deco"),
                                         ("reg", 1, 1, 0, 1, "const:i7", "last", "add"),
                                         ("reg", 2, 2, 1, 2, "ctry:1:1:100", "normal", "add"),
                                         ("read", 0, 1), ("hasvalue", 0, 1), ("hasvalue", 0, 2), ("hascached", 0, 1),
                                         ("assign", 0, 0, "p:i4"), ("read", 0, 1), ("read", 0, 1), ("read", 0, 2),
                                         ("delete", 0, 0), ("reeval", 0), ("assign", 0, 0, "p:i5"), ("reeval", 0),
                                         ("read", 0, 1), ("read", 0, 2), ("roots", [(0, 1)]), ("evalroot", 1),
                                         ("add", 3, 1, 0, "const:i0"), ("evalroot", 1), ("read", 1, 1), ("read", 1, 2)]},
    # one function registered permanently and for the extent of a `with hook(f, tryfirst=True):` block (also: handing in the
    # HookFunction, a trylast duplicate); leaving the block / removing ONE registration keeps the other one in force
    {"mode": "host", "nhooks": 2, "ops": [("class", 0, [0]), ("class", 1, [1, 0]), ("inst", 0), ("inst", 1),
                                         ("add", 0, 0, 0, "const:i1"), ("add", 1, 0, 0, "const:i21"),
                                         ("add", 2, 0, 0, "const:i5"), ("read", 0, 0), ("read", 1, 0),
                                         ("reg", 3, 1, 0, 0, "const:i21", "first", "with"), ("read", 0, 0), ("reeval", 0),
                                         ("read", 0, 0), ("exit", 3), ("reeval", 0), ("read", 0, 0), ("remove", 2),
                                         ("reeval", 0), ("reeval", 1), ("read", 0, 0), ("read", 1, 0), ("inst", 0),
                                         ("read", 2, 0), ("reg", 4, 1, 0, 0, "const:i21", "last", "hf"), ("remove", 4),
                                         ("remove", 4), ("clear", 0), ("read", 0, 0), ("reg", 5, 1, 1, 0, "const:i21", "normal", "hf"),
                                         ("remove", 1), ("clear", 1), ("read", 1, 0), ("clear", 0), ("read", 0, 0)]},
    # the root-hook list edited through its API: insert_before / insert_after (first occurrence of the position), add (a
    # duplicate is appended), remove_last (last occurrence), ValueError for an absent position; evaluation in list order
    {"mode": "host", "nhooks": 3, "ops": [("class", 0, [0]), ("class", 1, [1, 0]), ("inst", 1),
                                         ("add", 0, 0, 0, "const:i5"), ("add", 1, 1, 1, "read:0:10:0"),
                                         ("add", 2, 0, 2, "try:1:1:1"), ("roots", [(1, 1)]), ("rbefore", (1, 1), (0, 0)),
                                         ("evalroot", 0), ("rafter", (1, 1), (0, 2)), ("radd", (0, 0)), ("evalroot", 0),
                                         ("rbefore", (0, 1), (0, 2)), ("rremove", (0, 0)), ("rremove", (1, 2)),
                                         ("remove", 0), ("reeval", 0), ("read", 0, 0), ("evalroot", 0), ("rremove", (0, 0)),
                                         ("evalroot", 0), ("read", 0, 1)]},
]


# ---------------------------------------------------------------------------------------------------------------
# real units: the root-hook sentences on solved pass sequences
# ---------------------------------------------------------------------------------------------------------------
def public(d):
    return {k: v for k, v in d.items() if not k.startswith("_")}


def check_solved_sequence(ctx, seq, desc):
    """oracle for 'root hooks evaluated by the solver become explicit values of their object and therefore survive
    re-evaluation and hand-over' on a solved real PassSequence; returns list of (key, text)"""
    from pyroll.core import root_hooks
    probs = []
    units = list(seq.units)
    for u in units + [seq]:
        objs = [("unit", u), ("in_profile", u.in_profile), ("out_profile", u.out_profile)]
        if hasattr(u, "roll"):
            objs.append(("roll", u.roll))
        for role, o in objs:
            for h in list(root_hooks):
                if not issubclass(type(o), h.owner):
                    continue
                if role == "in_profile" and u is seq:
                    pass
                if h.name not in o.__dict__:
                    probs.append(("solved-root-not-explicit",
                                  f"{desc}: root hook {h.owner.__qualname__}.{h.name} is not an explicit value of the "
                                  f"{role} of {u} after solve"))
                    continue
                ctx.count("unit-root-explicit")
            # survive re-evaluation: explicit values are the same objects afterwards and are what a read returns
            before = public(o.__dict__)
            try:
                o.reevaluate_cache()
            except Exception as ex:          # raised from inside pyroll on a solved unit: the explicit values did not "survive"
                probs.append(("solved-reevaluate-raised",
                              f"{desc}: reevaluate_cache of the {role} of {u} after solve raised {ex!r}"))
                continue
            after = public(o.__dict__)
            if list(before) != list(after) or any(before[k] is not after[k] for k in before):
                probs.append(("solved-reevaluate-changed-explicit",
                              f"{desc}: reevaluate_cache changed the explicit values of the {role} of {u}"))
            for h in list(root_hooks):
                if issubclass(type(o), h.owner) and h.name in o.__dict__ and not callable(o.__dict__[h.name]) \
                        and o.__dict__[h.name] is not None:
                    try:
                        got = getattr(o, h.name)
                    except Exception as ex:
                        got = ex
                    if got is not o.__dict__[h.name]:
                        probs.append(("solved-root-read-not-explicit",
                                      f"{desc}: reading root hook {h.name} of the {role} of {u} does not return the "
                                      f"explicit value"))
    # hand-over between neighbours: explicit values of the out profile arrive as explicit values, cache entries do not
    for a, b in zip(units, units[1:]):
        src = public(a.out_profile.__dict__)
        dst = b.in_profile.__dict__
        rotated = type(b).__name__ != "Transport" and any(src[k] is not dst.get(k) for k in ("cross_section",) if k in src)
        for k, v in src.items():
            if rotated and k in ("cross_section", "classifiers", "t"):
                continue          # a pre-processor (rotator) stood between the two units
            if k not in dst:
                probs.append(("solved-handover-lost-explicit",
                              f"{desc}: explicit value {k} of the out profile of {a} is not an explicit value of the "
                              f"in profile of {b}"))
            elif dst[k] is not v and not rotated:
                probs.append(("solved-handover-changed-explicit",
                              f"{desc}: explicit value {k} of the out profile of {a} arrives changed at {b}"))
            else:
                ctx.count("unit-handover-explicit")
        for k in a.out_profile.__cache__:
            if k not in a.out_profile.__dict__ and k in dst and not rotated:
                probs.append(("solved-handover-cache-entry",
                              f"{desc}: remembered (not explicit) value {k} of the out profile of {a} was handed over "
                              f"to {b} as an explicit value"))
    return probs


def real_units(ctx, n):
    from pyroll.core import PassSequence, Transport
    rng = ctx.rng
    for k in range(n):
        kinds = [rng.choice(["oval", "round", "box", "diamond", "square", "swedish"]) for _ in range(2)]
        ik = rng.choice(["round", "square", "box", "diamond"])
        size = 30e-3 * rng.uniform(0.9, 1.05)
        desc = f"{ik}({size:.5f})->{kinds[0]}|transport|{kinds[1]}"
        spec = {"in": ik, "size": size, "passes": kinds, "seed_state": None}
        try:
            p1, _ = common.make_pass(rng, kind=kinds[0], label="p1")
            p2, _ = common.make_pass(rng, kind=kinds[1], label="p2")
            seq = PassSequence([p1, Transport(label="t", duration=1.0), p2])
            ip = common.make_in_profile(rng, ik, size=size)
        except Exception as ex:
            ctx.count("unit-build-raised:" + type(ex).__name__)
            continue
        try:
            seq.solve(ip)
        except Exception as ex:        # solver failures are not this property's business
            ctx.count("unit-solve-raised:" + type(ex).__name__)
            continue
        ctx.case(["units", desc], True)
        ctx.count("unit-sequences-solved")
        for key, text in check_solved_sequence(ctx, seq, desc):
            ctx.violation(key, text, {"sequence": desc, "how": "driver/props/c02.py real_units: common.make_pass x2 with a "
                                      "Transport between, PassSequence.solve(common.make_in_profile), then "
                                      "check_solved_sequence", **spec})



# ---------------------------------------------------------------------------------------------------------------
# shallow copies (`HookHost.__copy__`): hosts whose value stores are OBJECTS WITH IDENTITY
#   model lean/PyrollModel/LifecycleCopy.lean, theorems lean/PyrollProps/C02Copy.lean.  Histories of
#   `impl n v|N` (what the implementation of hook n yields), `new`, `copy i` (copy.copy), `assign i n v`, `delete i n`,
#   `read i n`, `clear i` (`__cache__.clear()`), `rebind i` (`__cache__ = dict()`, what a constructor does) are applied to
#   real HookHost objects and to the model; compared after every op: outcome, the ordered explicit values of every
#   host, WHICH dictionary object every host refers to, and the contents of every dictionary object.
#   Oracle (from the property text): explicit values are per object - a copy starts with those of its original, and
#   an assignment / deletion on one object never shows on another; a read returns the explicit value when there is one.
#   The property text does not speak about copies of the remembered values; that `copy.copy` SHARES the remembered-value
#   dictionary (theorem `copy_not_independent`) is recorded as an observation (evidence counter), not as a violation.
# ---------------------------------------------------------------------------------------------------------------
COPY_WITNESS = ["impl 0 5", "new", "copy 0", "read 1 0"]        # `LifeCopy.witness` + the history of `copy_not_independent`


class RealCopy:
    def __init__(self, nhooks=3):
        from pyroll.core import HookHost, Hook
        self.impl = {}
        impl = self.impl
        dct = {f"h{k}": Hook[float]() for k in range(nhooks)}
        self.cls = type("K", (HookHost,), dct)
        for k in range(nhooks):
            def f(self_, k=k):
                return impl.get(k)
            getattr(self.cls, f"h{k}").add_function(f)
        self.hosts = []
        self.dicts = []          # the dictionary objects seen so far, in order of first appearance (kept alive)

    def ref(self, o):
        d = o.__dict__.get("__cache__")
        if d is None:
            return "_"
        for k, x in enumerate(self.dicts):
            if x is d:
                return k
        self.dicts.append(d)
        return len(self.dicts) - 1

    def apply(self, t):
        import copy as _copy
        name = t[0]
        try:
            if name == "impl":
                self.impl[int(t[1])] = None if t[2] == "N" else int(t[2])
                return "ok"
            if name == "new":
                self.hosts.append(self.cls())
                return "ok"
            o = self.hosts[int(t[1])]
            if name == "copy":
                self.hosts.append(_copy.copy(o))
                return "ok"
            if name == "assign":
                setattr(o, f"h{t[2]}", int(t[3]))
                return "ok"
            if name == "delete":
                delattr(o, f"h{t[2]}")
                return "ok"
            if name == "read":
                return f"val:{int(getattr(o, f'h{t[2]}'))}"
            if name == "clear":
                o.__cache__.clear()
                return "ok"
            if name == "rebind":
                o.__cache__ = dict()
                return "ok"
        except AttributeError:
            return "AttributeError"
        raise ValueError(t)

    def dump(self):
        def entries(d):
            es = [f"{int(k[1:])}={'N' if v is None else int(v)}" for k, v in d.items() if HOOK_RE.match(k)]
            return ",".join(es) if es else "-"
        hs = [f"h{k}:[{entries(o.__dict__)}]@{self.ref(o)}" for k, o in enumerate(self.hosts)]
        ds = [f"s{k}:[{entries(d)}]" for k, d in enumerate(self.dicts)]
        return f"{' '.join(hs)} | {' '.join(ds)}"


def gen_copy_case(rng):
    nh = 3
    lines = [f"impl {n} {rng.choice(['N', 5, 0, 7, -2])}" for n in range(nh) if rng.random() < 0.8]
    lines.append("new")
    hosts = 1
    for _ in range(rng.randrange(4, 25)):
        i, n = rng.randrange(hosts), rng.randrange(nh)
        r = rng.random()
        if r < 0.22 and hosts < 5:
            lines.append(f"copy {i}" if rng.random() < 0.8 else "new")
            hosts += 1
        elif r < 0.40:
            lines.append(f"assign {i} {n} {rng.choice([0, 1, 3, 9, -4])}")
        elif r < 0.48:
            lines.append(f"delete {i} {n}")
        elif r < 0.80:
            lines.append(f"read {i} {n}")
        elif r < 0.86:
            lines.append(f"clear {i}")
        elif r < 0.92:
            lines.append(f"rebind {i}")
        else:
            lines.append(f"impl {n} {rng.choice(['N', 5, 6, 0, 11])}")
    return lines


def run_copy_case(lines):
    """-> (observations, first oracle mismatch (k, key, info) or None, shared: did a value computed through one host appear
    among the remembered values of another one?)"""
    real = RealCopy()
    explicit = []            # oracle: the explicit values of every host, by value
    obs = []
    bad = None
    shared = False
    for k, line in enumerate(lines):
        t = line.split()
        before = [dict((kk, v) for kk, v in o.__dict__.get("__cache__", {}).items()) for o in real.hosts]
        out = real.apply(t)
        obs.append(f"{out} | {real.dump()}")
        if t[0] == "new":
            explicit.append({})
        elif t[0] == "copy":
            explicit.append(dict(explicit[int(t[1])]))
        elif t[0] == "assign":
            explicit[int(t[1])][int(t[2])] = int(t[3])
        elif t[0] == "delete":
            explicit[int(t[1])].pop(int(t[2]), None)
        got = [{int(kk[1:]): (None if v is None else int(v)) for kk, v in o.__dict__.items() if HOOK_RE.match(kk)}
               for o in real.hosts]
        exp_out = None
        if t[0] == "read" and int(t[2]) in explicit[int(t[1])]:
            exp_out = f"val:{explicit[int(t[1])][int(t[2])]}"
        if bad is None and (got != explicit or (exp_out is not None and out != exp_out)
                            or (t[0] in ("new", "copy", "assign", "delete") and out != "ok")):
            key = "copy-explicit-values" if got != explicit else f"copy-{t[0]}-result"
            bad = (k, key, {"op": line, "observed": [out, str(got)], "expected": [exp_out or "ok", str(explicit)]})
        if t[0] == "read":
            for j, o in enumerate(real.hosts):
                if j != int(t[1]) and j < len(before) and dict(o.__dict__.get("__cache__", {})) != before[j]:
                    shared = True
    return obs, bad, shared


def copy_histories(ctx, n):
    cases = [list(COPY_WITNESS)] + [gen_copy_case(ctx.rng) for _ in range(n)]
    lean_lines, all_obs = [], []
    for idx, lines in enumerate(cases):
        try:
            obs, bad, shared = run_copy_case(lines)
        except Exception as ex:
            # the implementation behaved in a way the harness cannot observe (never on the code as it is): broken tie
            ctx.count("harness-could-not-observe:" + type(ex).__name__)
            ctx.disagreement(f"the harness could not drive / observe the implementation on this copy history: {ex!r}",
                             {"copy_ops": lines})
            continue
        ctx.case(["copy"] + lines, nontrivial=any(x.startswith("copy") for x in lines))
        ctx.count("copy-histories")
        for x in lines:
            ctx.count("copy-op:" + x.split()[0])
        if shared:
            # recorded, not a violation: see the comment block above and notes/C02.md ("Observation: shallow copy")
            ctx.count("observed:shallow-copy-shares-remembered-values")
            if idx == 0:
                ctx.notes["copy_witness"] = {"ops": lines, "observed": obs[-1],
                                             "meaning": "hook h0 read on the copy (host 1); the original (host 0) now "
                                                        "remembers the value: both refer to dictionary object 0"}
        if bad is not None:
            k, key, info = bad
            ctx.violation(key, f"{key}: after `{info['op']}` observed {info['observed']}, expected {info['expected']}",
                          {"copy_ops": lines[:k + 1], **info,
                           "how": "driver/props/c02.py run_copy_case: one HookHost subclass with hooks h0..h2 and constant "
                                  "implementations, ops applied with RealCopy.apply"})
        lean_lines.append("reset-copy")
        lean_lines.extend(lines)
        all_obs.append((lines, obs))
    return lean_lines, all_obs


# ---------------------------------------------------------------------------------------------------------------
def run(ctx):
    REPORTED.clear()
    n_hist = ctx.budget(3000, 60000)
    max_ops = 40
    cases = [dict(c) for c in CORPUS]
    for _ in range(n_hist):
        cases.append(gen_case(ctx.rng, max_ops if ctx.rng.random() < 0.7 else 12))
    lean_lines = []
    all_obs = []
    for idx, case in enumerate(cases):
        try:
            obs, bad, sources = run_case(case, want_obs=True)
        except Exception as ex:
            # the implementation under test behaved in a way the harness cannot observe / drive any further (on the code as
            # it is this never happens): the tie is broken - not a crash of the check
            ctx.count("harness-could-not-observe:" + type(ex).__name__)
            ctx.disagreement(f"the harness could not drive / observe the implementation on this history: {ex!r}",
                             {"mode": case["mode"], "nhooks": case["nhooks"], "ops": [to_line(o) for o in case["ops"]]})
            continue
        canon = [case["mode"], case["nhooks"]] + [to_line(o) for o in case["ops"]]
        ctx.case(canon, nontrivial=len(sources - {"reeval", "reeval-other-order", "failed"}) >= 2 or "reeval" in sources)
        ctx.count("mode:" + case["mode"])
        for o in case["ops"]:
            ctx.count("op:" + o[0])
            if o[0] == "assign":
                ctx.count("assign:" + o[3].split(":")[0] + (":falsy" if o[3] in ("p:i0", "p:bF") else ""))
                if len(o) > 4:
                    ctx.count(f"callable:{o[3][:2]}:{o[4]}")
        for s in sources:
            ctx.count("served:" + s)
        for line in obs:
            out = line.split(" | ")[0]
            if not out.startswith(("val", "ok", "vals:None")):
                ctx.count("outcome:" + out.split(":")[0] + (":" + out.split(":")[1] if out.startswith("vals") else ""))
        if idx >= len(CORPUS) and len(ctx.samples) < 3 and len(sources) >= 3:
            ctx.sample({"mode": case["mode"], "nhooks": case["nhooks"], "history": canon[2:], "final": obs[-1]})
        if bad is not None:
            report(ctx, case, bad)
        lean_lines.append("reset")
        lean_lines.extend(to_line(o) for o in case["ops"][:len(obs)])
        all_obs.append((case, obs))

    # ---- shallow copies (own little model; same driver process) -------------------------------------------------
    copy_lines, copy_obs = copy_histories(ctx, ctx.budget(150, 3000))

    # ---- model side -----------------------------------------------------------------------------------------
    if getattr(ctx, "model_available", True):
        out = ctx.lean_model(MODEL, lean_lines + copy_lines)
        pos = 0
        for case, obs in all_obs:
            pos += 1
            seg = out[pos:pos + len(obs)]
            pos += len(obs)
            diff = next((k for k in range(len(obs)) if k >= len(seg) or seg[k] != obs[k]), None)
            if diff is None:
                ctx.validated()
            else:
                ctx.disagreement(f"model and implementation differ after op #{diff} ({to_line(case['ops'][diff])})",
                                 {"mode": case["mode"], "nhooks": case["nhooks"],
                                  "ops": [to_line(o) for o in case["ops"][:diff + 1]],
                                  "impl": obs[diff], "model": seg[diff] if diff < len(seg) else None})
        for lines, obs in copy_obs:
            pos += 1
            seg = out[pos:pos + len(obs)]
            pos += len(obs)
            diff = next((k for k in range(len(obs)) if k >= len(seg) or seg[k] != obs[k]), None)
            if diff is None:
                ctx.validated()
            else:
                ctx.disagreement(f"shallow-copy model and implementation differ after op #{diff} ({lines[diff]})",
                                 {"copy_ops": lines[:diff + 1], "impl": obs[diff],
                                  "model": seg[diff] if diff < len(seg) else None})
        if pos != len(out):
            ctx.disagreement("model output length mismatch", {"expected": pos, "got": len(out)})

    # ---- real units -----------------------------------------------------------------------------------------
    real_units(ctx, ctx.budget(5, 40))
    # the stream of real solved unit trees (every kind of pass class, plug-in root hooks) + K with RootUnits.lean
    c02_units.run_units(ctx, ctx.budget(120, 2000))


def replay(ctx, data):
    r = data.get("replay", data)
    if "copy_ops" in r:
        _, bad, _ = run_copy_case(list(r["copy_ops"]))
        if bad is not None:
            k, key, info = bad
            ctx.violation(data.get("key", key), f"{key}: after `{info['op']}` observed {info['observed']}, expected "
                                                f"{info['expected']}", {**r, **info})
        return
    if "units_spec" in r:
        c02_units.replay_units(ctx, r)
        return
    if "ops" not in r:
        raise ValueError("replay of a solved-sequence finding: re-run the check with the recorded seed")
    case = {"mode": r["mode"], "nhooks": r["nhooks"], "ops": [parse_line(x) for x in r["ops"]]}
    _, bad, _ = run_case(case)
    if bad is not None:
        k, key, info = bad
        ctx.violation(data.get("key", key), f"{key}: after `{info['op']}` observed {info['observed']}, expected "
                                            f"{info['expected']}", {**r, **info})
