"""C02 - hook value life-cycle: explicit value, then remembered value, then computation.

Tie: T + K (hand-written model lean/PyrollModel/Lifecycle.lean, theorems lean/PyrollProps/C02.lean).
T: `translate` re-reads pyroll/core/hooks.py (driver/translate/hooks_skeleton.py -> lean/PyrollModel/Gen/C02Hooks.lean): the
model CONSUMES where has_set / has_cached look, what reevaluate_cache does and the None check of Hook.__get__ with its
position before the store; the statements of the other mirrored functions are pinned by `hooks_source_as_modelled`.
K: the harness creates fresh HookHost subclasses with type() (plain HookHost hierarchies, or subclasses of the real
Unit.Profile so that the real hand-over constructor is used), drives them and the Lean model with the same
operation lines and compares after EVERY operation: the returned value / exception kind, the invocation trace
(which implementation or explicit callable ran, in which order), and the complete `__dict__` / `__cache__`
contents (ordered) of every instance.  The independent oracle `Ref` is a small reference state machine written
from the property text; it is compared with the implementation in the same way (unordered), and a difference is
classified by the clause of the property that fails.  A third part drives real RollPass / Transport /
PassSequence objects through `solve` and checks the root-hook sentences of the property on them.
"""
import copy
import itertools
import re

from . import common  # noqa: F401  (silences the pyroll loggers)

ID = "C02"
LEAN_MODULES = ["PyrollProps.C02"]
MODEL = "c02"
MODEL_MODULES = ["PyrollModel.LifecycleDriver"]


def translate(ctx):
    """(T) re-read pyroll/core/hooks.py of the working tree -> lean/PyrollModel/Gen/C02Hooks.lean (role lines of
    Hook.__get__/__set__/__delete__/get_result, reevaluate_cache, has_*, __attrs__, evaluate_and_set_hooks, root_hooks + the
    facts the model consumes: where has_set / has_cached look, what reevaluate_cache does, the None check and its position)"""
    from ..translate import hooks_skeleton
    info = hooks_skeleton.emit_for(ctx, ID)
    ctx.notes["hooks_source"] = {k: v for k, v in info["facts"].items() if k in hooks_skeleton.SELECTION[ID]["fact_names"]}


RULE = ("random operation histories (5-40 ops, 40% of the ops stay on the previous (instance, hook) pair; a removal is "
        "often followed by re-evaluation and a look at the hook that lost the implementation; root hooks declared up "
        "front in half of the cases) over 1-3 fresh classes (linear hierarchies and independent roots, plain HookHost or "
        "Unit.Profile based), 1-5 instances, 2-5 hooks; implementations and explicit callables are data (constant incl. "
        "0/False, None, read a lower-numbered hook and combine, read it if has_value) with invocation logging; an explicit "
        "callable is drawn from every kind python offers for its number of parameters (lambda, def, bound method, bound "
        "classmethod, staticmethod, functools.partial of a function / of a bound method, callable object and its bound "
        "__call__, builtin method-wrapper, functools.wraps wrapper of a function / of a bound method, optional second "
        "parameter, *args, keyword-only option) and is read at once in half of the cases; a case is "
        "one history, non-trivial = it contains successful reads served from at least two different sources (explicit / "
        "remembered / computed) or a re-evaluation of a non-empty cache; distinct by the canonical op list. Plus solved "
        "real pass sequences (two passes, a transport between) for the root-hook sentences.")
ASSUMPTIONS = [
    "source tie (T): pyroll/core/hooks.py is read with ast into canonical role lines and typed facts (driver/translate/hooks_skeleton.py, trusted); the facts the model consumes are also executed against the imported pyroll.core.hooks on every run (self_check), the role lines are compared with the hand-written shape lean/PyrollModel/HookSource.lean by the theorem hooks_source_as_modelled",
    "CPython dict insertion order, descriptor protocol, inspect.signature arity and hasattr/getattr-default "
    "semantics are modelled, not verified",
    "the model classifies an explicit callable only by the number of parameters inspect.signature reports for it (call0 / "
    "call1 / call2 = 0 / 1 or one required plus optional ones / two required); that python callables of every generated "
    "kind (lambda, def, bound method, classmethod, staticmethod, partial, callable object, builtin method-wrapper, "
    "functools.wraps wrapper, defaults, *args) behave as their class says is checked by the correspondence and demanded "
    "by the oracle, not proved; callables without a signature (builtin types) or with keyword-only parameters and no "
    "positional one are outside the generated domain",
    "the model is tied to the code by sampled differential runs (result, invocation trace and the ordered __dict__ / "
    "__cache__ of every instance compared after every op)",
    "outside this model (generator produces none of them; they belong to C07 / C01 / C16): non-finite results "
    "(ValueError path of Hook.__get__), cyclic hook dependencies (per-(function, instance) cycle marks, RecursionError "
    "path; the model's fuel stands for the recursion limit), wrappers and tryfirst/trylast tiers (the resolution "
    "order used here is MRO-major, latest registration first)",
    "hook values are integers and booleans (0 and False being the falsy ones); numpy values occur only in the "
    "solved-sequence part",
]

HOOK_RE = re.compile(r"^h(\d+)$")


class RefAttr(Exception):
    pass


class RefType(Exception):
    pass


# ---------------------------------------------------------------------------------------------------------------
# tokens  (values `i5 bT bF`, bodies `const:i5 none read:m:k:c try:m:k:c`, dict values `p:i5 c0:id:i5|N c1:id:<body> c2:id N`)
# ---------------------------------------------------------------------------------------------------------------
def val_of(tok):
    if tok == "bT":
        return True
    if tok == "bF":
        return False
    if tok == "N":
        return None
    assert tok[0] == "i", tok
    return int(tok[1:])


def tok_of(v):
    import numpy as np
    if v is None:
        return "N"
    if isinstance(v, (bool, np.bool_)):
        return "bT" if v else "bF"
    if isinstance(v, (int, np.integer)):
        return f"i{int(v)}"
    return f"?{type(v).__name__}"


def body_of(tok):
    p = tok.split(":")
    if p[0] == "const":
        return ("const", val_of(p[1]))
    if p[0] == "none":
        return ("none",)
    return (p[0], int(p[1]), int(p[2]), int(p[3]))


def make_function(body_tok, log, ident):
    """a python function `f(self)` for a body token; every invocation appends `ident` to `log`"""
    b = body_of(body_tok)
    if b[0] == "const":
        v = b[1]

        def f(self):
            log.append(ident)
            return v
    elif b[0] == "none":
        def f(self):
            log.append(ident)
            return None
    elif b[0] == "read":
        _, m, k, c = b

        def f(self):
            log.append(ident)
            return getattr(self, f"h{m}") * k + c
    else:
        _, m, k, c = b

        def f(self):
            log.append(ident)
            if self.has_value(f"h{m}"):
                return getattr(self, f"h{m}") * k + c
            return None
    return f


# The kinds of callables python offers, per number of parameters that `inspect.signature` reports ("arity" of the
# model: c0 / c1 / c2).  The property speaks of "an assigned callable", not of lambdas: every kind must be invoked and
# the value it produces returned.  Only kinds for which the property text fixes the outcome are generated:
#   * `dflt` / `star` zero-argument callables accept a call without and with one argument (`def f(x=None)`,
#     `def f(*a)`); they return the same value either way, so both ways of invoking them are accepted;
#   * not generated (outside "zero- or one-argument callable" or without a signature): keyword-only parameters without
#     positional ones (`partial(f, x=1)`, `lambda **kw`: one signature parameter, cannot take the instance), builtin types
#     such as `int` (inspect.signature raises ValueError), `f.__call__` method-wrappers (signature `(*args, **kwargs)`).
KINDS = {
    "c0": ["lam", "def", "bm", "cm", "sm", "part", "partbm", "obj", "objcall", "iter", "wraps", "wrapsbm", "dflt", "star"],
    "c1": ["lam", "def", "bm", "cm", "sm", "part", "partbm", "obj", "objcall", "missing", "wraps", "wrapsbm", "dflt",
           "star", "kwd"],
    "c2": ["lam", "def", "bm", "part", "obj", "wraps"],
}


def _shape(core, a, lead):
    """a `def` with `lead` ignored leading parameters followed by exactly `a` parameters handed to `core`"""
    if lead == 0:
        if a == 0:
            def f():
                return core()
        elif a == 1:
            def f(host):
                return core(host)
        else:
            def f(host, other):
                return core(host, other)
    elif lead == 1:
        if a == 0:
            def f(_x):
                return core()
        elif a == 1:
            def f(_x, host):
                return core(host)
        else:
            def f(_x, host, other):
                return core(host, other)
    else:
        if a == 0:
            def f(_x, _y):
                return core()
        elif a == 1:
            def f(_x, _y, host):
                return core(host)
        else:
            def f(_x, _y, host, other):
                return core(host, other)
    return f


def make_callable(core, a, kind):
    """wrap `core` (taking exactly `a` arguments) as a python callable of the given kind whose `inspect.signature`
    shows `a` parameters (kinds dflt/star/kwd: `a` required ones plus an optional one)"""
    import functools
    if kind == "lam":
        return [lambda: core(), lambda host: core(host), lambda host, other: core(host, other)][a]
    if kind == "def":
        return _shape(core, a, 0)
    if kind in ("bm", "cm", "sm", "partbm", "wrapsbm"):
        src_cls = type("Source", (), {"m": _shape(core, a, 1), "c": classmethod(_shape(core, a, 1)),
                                      "s": staticmethod(_shape(core, a, 0)), "p": _shape(core, a, 2)})
        src = src_cls()
        if kind == "bm":
            return src.m                                   # bound method, `a` further parameters
        if kind == "cm":
            return src_cls.c                               # classmethod bound to its class
        if kind == "sm":
            return src.s                                   # staticmethod looked up through an instance
        if kind == "partbm":
            return functools.partial(src.p, "fixed")       # partial of a bound method
        bound = src.m

        @functools.wraps(bound)
        def wrapper_bm(*args, **kwargs):
            return bound(*args, **kwargs)
        return wrapper_bm
    if kind == "part":
        return functools.partial(_shape(core, a, 1), "fixed")
    if kind in ("obj", "objcall"):
        obj = type("Provider", (), {"__call__": _shape(core, a, 1)})()
        return obj if kind == "obj" else obj.__call__
    if kind == "iter":                                     # builtin method-wrapper with the signature `()`
        assert a == 0
        return iter(_shape(core, 0, 0), object()).__next__
    if kind == "missing":                                  # builtin method-wrapper with the signature `(key, /)`
        assert a == 1
        return type("Lookup", (dict,), {"__missing__": _shape(core, 1, 1)})().__getitem__
    if kind == "wraps":
        inner = _shape(core, a, 0)

        @functools.wraps(inner)
        def wrapper(*args, **kwargs):
            return inner(*args, **kwargs)
        return wrapper
    if kind == "dflt":
        if a == 0:
            def f(_ignored=None):
                return core()
        else:
            def f(host, _extra=None):
                return core(host)
        return f
    if kind == "star":
        if a == 0:
            def f(*_rest):
                return core()
        else:
            def f(host, *_rest):
                return core(host)
        return f
    if kind == "kwd":
        assert a == 1

        def f(host, *, _opt=None):
            return core(host)
        return f
    raise ValueError(kind)


def make_explicit(tok, log, kind="lam"):
    """python object to assign for a dict-value token (and the kind of callable)"""
    p = tok.split(":", 2)
    if tok == "N":
        return None
    if p[0] == "p":
        return val_of(p[1])
    ident = int(p[1])
    if kind not in KINDS[p[0]]:
        raise ValueError(f"callable kind {kind} for {p[0]}")
    if p[0] == "c0":
        v = val_of(p[2])

        def core():
            log.append(ident)
            return v
        return make_callable(core, 0, kind)
    if p[0] == "c1":
        return make_callable(make_function(p[2], log, ident), 1, kind)

    def core2(host, other):          # c2: malformed, two required parameters
        log.append(ident)
        return 1
    return make_callable(core2, 2, kind)


# ---------------------------------------------------------------------------------------------------------------
# the real implementation
# ---------------------------------------------------------------------------------------------------------------
class Real:
    def __init__(self, mode, nhooks):
        from pyroll.core import HookHost, Hook, Unit, Profile, root_hooks
        self.HookHost, self.Hook, self.Unit, self.Profile, self.root_hooks = HookHost, Hook, Unit, Profile, root_hooks
        self.mode = mode
        self.nhooks = nhooks
        self.classes = {}
        self.insts = []
        self.hfs = {}
        self.log = []
        self.roots = []
        self.explicit = []       # (object assigned, token): bound methods / builtins cannot carry an attribute
        self.unit = Unit(label="c02") if mode == "profile" else None

    def idx(self, o):
        for k, x in enumerate(self.insts):
            if x is o:
                return k
        return None

    def cidx(self, cls):
        for k, x in self.classes.items():
            if x is cls:
                return k
        raise AssertionError("unknown class")

    def tok_explicit(self, v):
        for o, t in self.explicit:
            if o is v:
                return t
        return tok_of(v) if v is None else "p:" + tok_of(v)

    def guarded(self, fn):
        """run a call into pyroll; exceptions are outcomes"""
        try:
            return tok_res(fn())
        except AttributeError:
            return "AttributeError"
        except TypeError:
            return "TypeError"
        except Exception as e:
            return type(e).__name__

    def apply(self, op):
        self.log.clear()
        name = op[0]
        if name == "class":
            c, mro = op[1], op[2]
            if len(mro) == 1:
                def root_hook_fallback(self_, hook):
                    o = self_.__dict__.get("_fb")
                    if o is None:
                        return None
                    return getattr(o, hook.name, None)
                dct = {f"h{k}": self.Hook[float]() for k in range(self.nhooks)}
                dct["root_hook_fallback"] = root_hook_fallback
                base = self.HookHost if self.mode == "host" else self.Unit.Profile
            else:
                dct = {}
                base = self.classes[mro[1]]
            try:
                cls = type(f"C{c}", (base,), dct)
            except Exception as e:          # class creation runs pyroll's metaclass / __init_subclass__
                return type(e).__name__
            self.classes[c] = cls
            real_mro = [self.cidx(k) for k in cls.__mro__ if any(k is x for x in self.classes.values())]
            assert real_mro == list(mro), (real_mro, mro)
            return "ok"
        if name == "inst":
            cls = self.classes[op[1]]
            try:
                o = cls() if self.mode == "host" else cls(self.unit, self.Profile())
            except Exception as e:
                return type(e).__name__
            self.insts.append(o)
            return "ok"
        if name == "handover":
            cls = self.classes[op[2]]
            try:
                o = cls(self.unit, self.insts[op[1]])          # the real Unit.Profile.__init__
            except Exception as e:
                return type(e).__name__
            self.insts.append(o)
            return "ok"
        if name == "read":
            o = self.insts[op[1]]
            return self.guarded(lambda: getattr(o, f"h{op[2]}"))
        if name == "assign":
            v = make_explicit(op[3], self.log, op[4] if len(op) > 4 else "lam")
            if callable(v):
                self.explicit.append((v, op[3]))
            o = self.insts[op[1]]
            return self.guarded(lambda: setattr(o, f"h{op[2]}", v) or "ok")
        if name == "delete":
            o = self.insts[op[1]]
            return self.guarded(lambda: delattr(o, f"h{op[2]}") or "ok")
        if name == "reeval":
            o = self.insts[op[1]]
            return self.guarded(lambda: o.reevaluate_cache())
        if name == "clear":
            o = self.insts[op[1]]
            return self.guarded(lambda: o.__cache__.clear() or "ok")
        if name == "add":
            ident, c, n, btok = op[1:]
            f = make_function(btok, self.log, ident)

            def register():
                self.hfs[ident] = getattr(self.classes[c], f"h{n}").add_function(f)
                return "ok"
            return self.guarded(register)
        if name == "remove":
            hf = self.hfs.pop(op[1], None)
            if hf is None:
                return "not-registered"
            return self.guarded(lambda: (hf.hook.remove_function(hf), "ok")[1])
        if name in ("hasset", "hascached", "hassoc", "hasvalue"):
            o = self.insts[op[1]]
            meth = {"hasset": "has_set", "hascached": "has_cached", "hassoc": "has_set_or_cached",
                    "hasvalue": "has_value"}[name]
            return self.guarded(lambda: bool(getattr(o, meth)(f"h{op[2]}")) and "True" or "False")
        if name == "roots":
            self.roots = list(op[1])
            return "ok"
        if name == "fb":
            self.insts[op[1]].__dict__["_fb"] = None if op[2] is None else self.insts[op[2]]
            return "ok"
        if name == "evalroot":
            o = self.insts[op[1]]
            saved = list(self.root_hooks)
            try:
                self.root_hooks.extend(getattr(self.classes[c], f"h{n}") for (c, n) in self.roots)
                try:
                    res = o.evaluate_and_set_hooks()
                    return "vals:None:" + comma([tok_of(x) for x in res])
                except AttributeError:
                    return "vals:AttributeError:-"
                except TypeError:
                    return "vals:TypeError:-"
                except Exception as e:
                    return f"vals:{type(e).__name__}:-"
            finally:
                self.root_hooks[:] = saved
                assert len(self.root_hooks) == len(saved) and all(a is b for a, b in zip(self.root_hooks, saved))
        raise ValueError(op)

    def state(self):
        """[(cls, [(n, tok)], [(n, tok)], fb)] in python dict order, restricted to the hook names"""
        out = []
        for o in self.insts:
            d = []
            for k, v in o.__dict__.items():
                m = HOOK_RE.match(k)
                if m:
                    d.append((int(m.group(1)), self.tok_explicit(v)))
            c = []
            for k, v in o.__cache__.items():
                m = HOOK_RE.match(k)
                c.append((int(m.group(1)) if m else k, tok_of(v)))
            fb = o.__dict__.get("_fb")
            out.append((self.cidx(type(o)), d, c, None if fb is None else self.idx(fb)))
        return out


def tok_res(v):
    if isinstance(v, str):
        return v
    return "None" if v is None else "val:" + tok_of(v)


def comma(l):
    return ",".join(str(x) for x in l) if l else "-"


def dump(state, ordered=True):
    parts = []
    for (c, d, ca, fb) in state:
        if not ordered:
            d, ca = sorted(d), sorted(ca, key=str)
        parts.append(f"c{c}[{comma(f'{n}={t}' for n, t in d) if d else '-'}]"
                     f"[{comma(f'{n}={t}' for n, t in ca) if ca else '-'}]fb{'_' if fb is None else fb}")
    return " ".join(parts)


# ---------------------------------------------------------------------------------------------------------------
# the oracle: reference state machine written from the property text
#   read    = the explicit value if there is one (a callable is invoked: no argument if it takes none, else the
#             object), otherwise the remembered value, otherwise compute (first non-None implementation, most derived
#             class first, latest registration first), remember and return it; nothing available -> AttributeError
#   assign / delete touch only the explicit value; re-evaluation recomputes exactly the remembered names from the
#   current implementations; root-hook evaluation computes and stores the result as an EXPLICIT value; hand-over
#   passes the explicit values on and none of the remembered ones.
#   (explicit None counts as "set" for has_set and as absent for reads - DESIGN.md, C02)
# ---------------------------------------------------------------------------------------------------------------
class Ref:
    def __init__(self):
        self.mro = {}
        self.objs = []           # dict(cls, ex: {n: tok}, mem: {n: value-or-None}, fb)
        self.regs = []           # (id, cls, hook, body)
        self.roots = []
        self.trace = []

    def compute(self, i, n):
        o = self.objs[i]
        for k in self.mro[o["cls"]]:
            for (ident, c, h, b) in reversed([r for r in self.regs if r[1] == k and r[2] == n]):
                self.trace.append(ident)
                v = self.body(i, b)
                if v is not None:
                    return v
        return None

    def body(self, i, b):
        if b[0] == "const":
            return b[1]
        if b[0] == "none":
            return None
        _, m, k, c = b
        if b[0] == "try":
            try:
                self.read(i, m)
            except RefAttr:
                return None
        x = self.read(i, m)
        if x is None:
            raise RefType()
        return x * k + c

    def read(self, i, n):
        o = self.objs[i]
        tok = o["ex"].get(n, "N")
        if tok != "N":
            p = tok.split(":", 2)
            if p[0] == "p":
                return val_of(p[1])
            if p[0] == "c2":
                raise RefType()
            self.trace.append(int(p[1]))
            if p[0] == "c0":
                return val_of(p[2])
            return self.body(i, body_of(p[2]))
        if o["mem"].get(n) is not None:
            return o["mem"][n]
        v = self.compute(i, n)
        if v is None:
            raise RefAttr()
        o["mem"][n] = v
        return v

    def guarded(self, fn):
        try:
            return tok_res(fn())
        except RefAttr:
            return "AttributeError"
        except RefType:
            return "TypeError"

    def apply(self, op, cache_order=None):
        self.trace = []
        name = op[0]
        if name == "class":
            self.mro[op[1]] = list(op[2])
        elif name == "inst":
            self.objs.append(dict(cls=op[1], ex={}, mem={}, fb=None))
        elif name == "handover":
            self.objs.append(dict(cls=op[2], ex=dict(self.objs[op[1]]["ex"]), mem={}, fb=None))
        elif name == "read":
            return self.guarded(lambda: self.read(op[1], op[2]))
        elif name == "assign":
            self.objs[op[1]]["ex"][op[2]] = op[3]
        elif name == "delete":
            self.objs[op[1]]["ex"].pop(op[2], None)
        elif name == "reeval":
            o = self.objs[op[1]]
            names = list(cache_order) if cache_order is not None else list(o["mem"])
            if sorted(names) != sorted(o["mem"]):
                names = list(o["mem"])

            def go():
                for n in names:
                    o["mem"][n] = self.compute(op[1], n)
            return self.guarded(go)
        elif name == "clear":
            self.objs[op[1]]["mem"].clear()
        elif name == "add":
            self.regs.append((op[1], op[2], op[3], body_of(op[4])))
        elif name == "remove":
            self.regs = [r for r in self.regs if r[0] != op[1]]
        elif name == "hasset":
            return "True" if op[2] in self.objs[op[1]]["ex"] else "False"
        elif name == "hascached":
            return "True" if op[2] in self.objs[op[1]]["mem"] else "False"
        elif name == "hassoc":
            o = self.objs[op[1]]
            return "True" if (op[2] in o["ex"] or op[2] in o["mem"]) else "False"
        elif name == "hasvalue":
            def go():
                try:
                    self.read(op[1], op[2])
                    return "True"
                except RefAttr:
                    return "False"
            return self.guarded(go)
        elif name == "roots":
            self.roots = list(op[1])
        elif name == "fb":
            self.objs[op[1]]["fb"] = op[2]
        elif name == "evalroot":
            i = op[1]
            o = self.objs[i]
            acc = []
            try:
                for (c, n) in self.roots:
                    if c not in self.mro[o["cls"]]:
                        continue
                    v = self.compute(i, n)
                    if v is None and o["fb"] is not None:
                        try:
                            v = self.read(o["fb"], n)
                        except RefAttr:
                            v = None
                    if v is None:
                        raise RefAttr()
                    o["ex"][n] = "p:" + tok_of(v)
                    acc.append(tok_of(v))
            except RefAttr:
                return "vals:AttributeError:-"
            except RefType:
                return "vals:TypeError:-"
            return "vals:None:" + comma(acc)
        else:
            raise ValueError(op)
        return "ok"

    def state(self):
        return [(o["cls"], list(o["ex"].items()), [(n, tok_of(v)) for n, v in o["mem"].items()], o["fb"])
                for o in self.objs]

    def source(self, i, n):
        """where a read of (i, n) is served from, according to the text"""
        o = self.objs[i]
        tok = o["ex"].get(n, "N")
        if tok != "N":
            return "explicit-" + {"p": "plain", "c0": "callable0", "c1": "callable1", "c2": "callable2"}[tok.split(":")[0]]
        if o["mem"].get(n) is not None:
            return "remembered"
        return "computed"


# ---------------------------------------------------------------------------------------------------------------
# op lines
# ---------------------------------------------------------------------------------------------------------------
def to_line(op):
    n = op[0]
    if n == "class":
        return f"class {op[1]} {comma(op[2])}"
    if n == "roots":
        return "roots " + comma([f"{c}:{h}" for c, h in op[1]])
    if n == "fb":
        return f"fb {op[1]} {'_' if op[2] is None else op[2]}"
    return " ".join(str(x) for x in op)


def parse_line(line):
    t = line.split()
    n = t[0]
    if n == "class":
        return ("class", int(t[1]), [int(x) for x in t[2].split(",")])
    if n == "roots":
        return ("roots", [] if t[1] == "-" else [tuple(int(y) for y in x.split(":")) for x in t[1].split(",")])
    if n == "fb":
        return ("fb", int(t[1]), None if t[2] == "_" else int(t[2]))
    if n == "assign":        # optional 5th token: the kind of callable (the model ignores it: its arity is in the value token)
        return ("assign", int(t[1]), int(t[2]), t[3]) + tuple(t[4:5])
    if n == "add":
        return ("add", int(t[1]), int(t[2]), int(t[3]), t[4])
    return (n,) + tuple(int(x) for x in t[1:])


# ---------------------------------------------------------------------------------------------------------------
# generator
# ---------------------------------------------------------------------------------------------------------------
VALS = ["i0", "bF", "bT", "i1", "i2", "i5", "i-3", "i7", "i0", "bF"]


def gen_body(rng, n, allow_none=True):
    r = rng.random()
    if n == 0 or r < 0.45:
        if allow_none and rng.random() < 0.25:
            return "none"
        return "const:" + rng.choice(VALS)
    m = rng.randrange(n)
    k, c = rng.choice([1, 2, 3, -1, 10]), rng.choice([0, 1, 100, -7])
    return f"{'read' if r < 0.75 else 'try'}:{m}:{k}:{c}"


def gen_case(rng, max_ops):
    mode = "profile" if rng.random() < 0.6 else "host"
    nh = rng.randrange(2, 6)
    ncls = rng.choice([1, 2, 2, 3, 3])
    ops = []
    mros = {}
    for c in range(ncls):
        if c == 0 or rng.random() < 0.25:
            mros[c] = [c]
        else:
            mros[c] = [c] + mros[rng.randrange(c)]
        ops.append(("class", c, mros[c]))
    ninst = rng.randrange(1, 4)
    inst_cls = []
    for _ in range(ninst):
        # prefer the most derived classes
        c = rng.choice(list(range(ncls)) + [ncls - 1])
        inst_cls.append(c)
        ops.append(("inst", c))
    next_id = [0]
    live = []
    hook_of = {}

    def fresh():
        next_id[0] += 1
        return next_id[0] - 1

    def add_impl():
        n = rng.randrange(nh)
        # register on a class that some instance actually resolves through (mostly)
        if rng.random() < 0.85:
            c = rng.choice(mros[rng.choice(inst_cls)])
        else:
            c = rng.randrange(ncls)
        ident = fresh()
        live.append(ident)
        hook_of[ident] = n
        return ("add", ident, c, n, gen_body(rng, n))

    for _ in range(rng.choice([0, 1, 2, 3, 3, 4, 5, 6])):
        ops.append(add_impl())
    if rng.random() < 0.5:
        # root hooks declared up front (as pyroll/core/__init__.py does), owned by classes the instances resolve through
        roots = []
        for _ in range(rng.randrange(1, 4)):
            e = (rng.choice(mros[rng.choice(inst_cls)]), rng.randrange(nh))
            if e not in roots:
                roots.append(e)
        ops.append(("roots", roots))
    n_ops = rng.randrange(5, max_ops + 1)
    count = 0
    last = None
    while count < n_ops:
        if last is not None and last[0] < len(inst_cls) and rng.random() < 0.4:
            i, n = last          # stay on the same (instance, hook): assign -> read -> delete -> read, reeval -> has_cached ...
        else:
            i = rng.randrange(len(inst_cls))
            n = rng.randrange(nh)
        last = (i, n)
        r = rng.random()
        if r < 0.27:
            op = ("read", i, n)
        elif r < 0.42:
            q = rng.random()
            if q < 0.40:
                v = "p:" + rng.choice(VALS)
            elif q < 0.6:
                v = f"c0:{fresh()}:{rng.choice(VALS + ['N'])}"
            elif q < 0.82:
                v = f"c1:{fresh()}:{gen_body(rng, n)}"
            elif q < 0.95:
                v = "N"
            else:
                v = f"c2:{fresh()}"
            op = ("assign", i, n, v)
            if v[0] == "c":
                # every kind of callable python offers for this number of parameters (lambda, def, bound method, partial, ...)
                op += (rng.choice(KINDS[v[:2]]),)
                if rng.random() < 0.5:
                    # scripted follow-up: the callable is invoked on EVERY read (its result is never remembered)
                    ops.append(op)
                    ops.append((rng.choice(["read", "read", "hasvalue"]), i, n))
                    count += 2
                    op = ("read", i, n)
        elif r < 0.49:
            op = ("delete", i, n)
        elif r < 0.58:
            op = ("reeval", i)
        elif r < 0.61:
            op = ("clear", i)
        elif r < 0.70:
            op = add_impl()
        elif r < 0.74:
            if not live:
                continue
            ident = rng.choice(live)
            live.remove(ident)
            op = ("remove", ident)
            if rng.random() < 0.4:
                # scripted follow-up: the registry changed - re-evaluate, then look at the hook that lost an implementation
                # (reaches the remembered-None state: has_cached stays true, reads recompute)
                n = hook_of[ident]
                ops.append(op)
                ops.append(("reeval", i))
                ops.append((rng.choice(["hascached", "hassoc", "read", "hasvalue"]), i, n))
                count += 3
                last = (i, n)
                continue
        elif r < 0.86:
            op = (rng.choice(["hasset", "hascached", "hassoc", "hasvalue", "hasvalue"]), i, n)
        elif r < 0.90:
            k = rng.randrange(0, 4)
            roots = []
            for _ in range(k):
                e = (rng.randrange(ncls), rng.randrange(nh))
                if e not in roots:
                    roots.append(e)
            op = ("roots", roots)
        elif r < 0.95:
            op = ("evalroot", i)
        elif r < 0.97:
            op = ("fb", i, None if rng.random() < 0.2 else rng.randrange(len(inst_cls)))
        elif r < 0.995:
            if len(inst_cls) >= 5:
                continue
            if mode == "profile":
                c = rng.randrange(ncls)
                op = ("handover", i, c)
            else:
                c = rng.randrange(ncls)
                op = ("inst", c)
            inst_cls.append(c)
        else:
            continue
        ops.append(op)
        count += 1
    return {"mode": mode, "nhooks": nh, "ops": ops}


# ---------------------------------------------------------------------------------------------------------------
# running one case on implementation + oracle
# ---------------------------------------------------------------------------------------------------------------
def clause_key(op, ref_before, real_out, ref_out, real_st, ref_st, real_tr, ref_tr):
    """stable key naming the clause of the property that fails"""
    name = op[0]
    if real_out != ref_out:
        aspect = "result"
    elif real_tr != ref_tr:
        aspect = "invocations"
    else:
        dr = [(c, sorted(d)) for (c, d, _, _) in real_st]
        de = [(c, sorted(d)) for (c, d, _, _) in ref_st]
        aspect = "explicit-values" if dr != de else "remembered-values"
    if name in ("read", "hasvalue"):
        return f"{name}-{ref_before}-{aspect}"
    return f"{name}-{aspect}"


def run_case(case, want_obs=False):
    """returns (observations for the model comparison, first oracle mismatch or None, stats)"""
    real = Real(case["mode"], case["nhooks"])
    ref = Ref()
    obs = []
    bad = None
    sources = set()
    for k, op in enumerate(case["ops"]):
        src = None
        if op[0] in ("read", "hasvalue"):
            src = ref.source(op[1], op[2])
        order = None
        if op[0] == "reeval":
            order = [n for n in (HOOK_RE.match(x) and int(x[1:]) for x in real.insts[op[1]].__cache__) if n is not None]
            if order:
                sources.add("reeval")
        r_out = real.apply(op)
        r_tr = list(real.log)
        r_st = real.state()
        before = copy.deepcopy(ref) if op[0] == "reeval" and order and len(order) <= 5 else None
        e_out = ref.apply(op, order)
        e_tr = list(ref.trace)
        e_st = ref.state()
        if before is not None and (r_out != e_out or r_tr != e_tr or dump(r_st, False) != dump(e_st, False)):
            # the property does not fix the ORDER in which the remembered names are recomputed (the code and the model
            # use dict order); accept any order that explains the observation - then only the tie is broken
            for perm in itertools.permutations(order):
                alt = copy.deepcopy(before)
                a_out = alt.apply(op, list(perm))
                if a_out == r_out and list(alt.trace) == r_tr and dump(alt.state(), False) == dump(r_st, False):
                    ref, e_out, e_tr, e_st = alt, a_out, list(alt.trace), alt.state()
                    sources.add("reeval-other-order")
                    break
        if src and r_out.startswith("val"):
            sources.add(src.split("-")[0])
        obs.append(f"{r_out} | {comma(r_tr)} | {dump(r_st)}")
        if bad is None and (r_out != e_out or r_tr != e_tr or dump(r_st, False) != dump(e_st, False)):
            info = {"op": to_line(op), "observed": [r_out, comma(r_tr), dump(r_st, False)],
                    "expected": [e_out, comma(e_tr), dump(e_st, False)]}
            if src and src.startswith("explicit-callable"):
                # which kind of callable (lambda, bound method, partial ...) sits there: the latest assignment to (i, n)
                last = [o for o in case["ops"][:k] if o[0] == "assign" and o[1:3] == op[1:3]][-1]
                info["explicit"] = f"{last[3]} kind={last[4] if len(last) > 4 else 'lam'}"
            bad = (k, clause_key(op, src, r_out, e_out, r_st, e_st, r_tr, e_tr), info)
            if not want_obs:
                break
        if op[0] in STRUCTURAL and r_out != "ok":
            break            # the class / instance does not exist: the rest of the history cannot be applied
    return obs, bad, sources


STRUCTURAL = ("class", "inst", "handover")


def shrink(case, k, key):
    ops = list(case["ops"][:k + 1])
    changed = True
    while changed:
        changed = False
        for j in range(len(ops) - 1, -1, -1):
            if ops[j][0] in STRUCTURAL:
                continue
            cand = ops[:j] + ops[j + 1:]
            if any(o[0] == "remove" and not any(p[0] == "add" and p[1] == o[1] for p in cand) for o in cand):
                continue
            try:
                _, bad, _ = run_case({**case, "ops": cand})
            except Exception:
                continue
            if bad is not None and bad[1] == key:
                ops = cand[:bad[0] + 1]
                changed = True
                break
    return ops


REPORTED = {}


def report(ctx, case, bad):
    k, key, info = bad
    REPORTED[key] = REPORTED.get(key, 0) + 1
    if REPORTED[key] > 3:           # enough replays of this kind; keep the run short
        ctx.count("further-violations:" + key)
        return
    small = shrink(case, k, key)
    try:
        _, bad2, _ = run_case({**case, "ops": small})
    except Exception:
        small, bad2 = list(case["ops"][:k + 1]), None
    if bad2 is not None:
        info = bad2[2]
    ctx.violation(key, f"{key}: after `{info['op']}`"
                       + (f" (explicit value {info['explicit']})" if "explicit" in info else "")
                       + f" observed {info['observed'][0]} / trace {info['observed'][1]}, "
                       f"expected {info['expected'][0]} / trace {info['expected'][1]}",
                  {"mode": case["mode"], "nhooks": case["nhooks"], "ops": [to_line(o) for o in small], **info,
                   "how": "driver/props/c02.py replay: classes via type() (HookHost or Unit.Profile based), hooks h0.., "
                          "apply the op lines with Real.apply and compare with the reference machine Ref"})


CORPUS = [
    # falsy explicit values win over cache and implementations
    {"mode": "host", "nhooks": 2, "ops": [("class", 0, [0]), ("inst", 0), ("add", 0, 0, 0, "const:i5"), ("read", 0, 0),
                                         ("assign", 0, 0, "p:i0"), ("read", 0, 0), ("assign", 0, 0, "p:bF"),
                                         ("read", 0, 0), ("delete", 0, 0), ("read", 0, 0)]},
    # callables by arity, result not cached; explicit None is "set" but not a value
    {"mode": "host", "nhooks": 3, "ops": [("class", 0, [0]), ("class", 1, [1, 0]), ("inst", 1),
                                         ("add", 0, 0, 0, "const:i2"), ("assign", 0, 1, "c1:1:read:0:3:1"),
                                         ("read", 0, 1), ("hascached", 0, 1), ("assign", 0, 2, "c0:2:bF"), ("read", 0, 2),
                                         ("assign", 0, 0, "N"), ("hasset", 0, 0), ("hasvalue", 0, 0), ("read", 0, 0),
                                         ("assign", 0, 2, "c0:3:N"), ("read", 0, 2), ("hasvalue", 0, 2),
                                         ("assign", 0, 2, "c2:4"), ("read", 0, 2)]},
    # re-evaluation after a registration change on a base class, Gauss-Seidel order, cached None
    {"mode": "host", "nhooks": 3, "ops": [("class", 0, [0]), ("class", 1, [1, 0]), ("inst", 1), ("inst", 0),
                                         ("add", 0, 0, 0, "const:i1"), ("add", 1, 1, 1, "read:0:10:0"),
                                         ("read", 0, 1), ("read", 1, 0), ("add", 2, 0, 0, "const:i2"), ("read", 0, 1),
                                         ("reeval", 0), ("read", 0, 1), ("read", 1, 0), ("remove", 2), ("remove", 0),
                                         ("reeval", 0), ("hascached", 0, 0), ("read", 0, 0), ("reeval", 1),
                                         ("read", 1, 0)]},
    # root hooks become explicit, survive re-evaluation, cache clear and hand-over; the cache is not handed over
    {"mode": "profile", "nhooks": 3, "ops": [("class", 0, [0]), ("class", 1, [1, 0]), ("inst", 1), ("inst", 0),
                                            ("add", 0, 0, 0, "const:i0"), ("add", 1, 1, 1, "const:i7"),
                                            ("add", 2, 0, 2, "try:1:2:1"), ("roots", [(0, 0), (1, 1)]), ("read", 0, 2),
                                            ("evalroot", 0), ("hasset", 0, 0), ("remove", 0), ("reeval", 0),
                                            ("clear", 0), ("read", 0, 0), ("handover", 0, 0), ("read", 2, 0),
                                            ("hascached", 2, 2), ("hasset", 2, 1), ("evalroot", 1), ("fb", 1, 0),
                                            ("evalroot", 1), ("read", 1, 0)]},
    # explicit None over a remembered value: served from the cache silently; results of explicit callables are not
    # remembered; root evaluation prefers the implementations and falls back only when they give None
    {"mode": "host", "nhooks": 3, "ops": [("class", 0, [0]), ("inst", 0), ("inst", 0), ("add", 0, 0, 0, "const:i3"),
                                         ("read", 0, 0), ("assign", 0, 0, "N"), ("read", 0, 0), ("hasset", 0, 0),
                                         ("assign", 0, 1, "c1:1:read:0:2:0"), ("read", 0, 1), ("hascached", 0, 1),
                                         ("assign", 0, 2, "c0:2:i0"), ("read", 0, 2), ("hascached", 0, 2),
                                         ("roots", [(0, 0)]), ("fb", 1, 0), ("assign", 0, 0, "p:i9"), ("evalroot", 1),
                                         ("remove", 0), ("evalroot", 1), ("reeval", 1), ("read", 1, 0)]},
    # every kind of explicit callable: bound methods with 0 / 1 further parameter, classmethods, partials, callable
    # objects, builtin method-wrappers, functools.wraps wrappers, defaults / *args; over a remembered value, which
    # stays untouched; falsy and None results; invoked on every read
    {"mode": "host", "nhooks": 3, "ops":
        [("class", 0, [0]), ("inst", 0), ("add", 0, 0, 0, "const:i2"), ("add", 1, 0, 1, "const:i21"), ("read", 0, 1)]
        + [x for j, k in enumerate(KINDS["c0"])
           for x in (("assign", 0, 1, f"c0:{10 + j}:{['i0', 'i7', 'bF', 'N'][j % 4]}", k), ("read", 0, 1), ("read", 0, 1))]
        + [x for j, k in enumerate(KINDS["c1"])
           for x in (("assign", 0, 1, f"c1:{40 + j}:{['read:0:3:1', 'const:i0', 'try:0:1:0', 'none'][j % 4]}", k),
                     ("read", 0, 1), ("hasvalue", 0, 1))]
        + [x for j, k in enumerate(KINDS["c2"]) for x in (("assign", 0, 2, f"c2:{70 + j}", k), ("read", 0, 2))]
        + [("hascached", 0, 1), ("delete", 0, 1), ("read", 0, 1), ("hascached", 0, 2)]},
]


# ---------------------------------------------------------------------------------------------------------------
# real units: the root-hook sentences on solved pass sequences
# ---------------------------------------------------------------------------------------------------------------
def public(d):
    return {k: v for k, v in d.items() if not k.startswith("_")}


def check_solved_sequence(ctx, seq, desc):
    """oracle for 'root hooks evaluated by the solver become explicit values of their object and therefore survive
    re-evaluation and hand-over' on a solved real PassSequence; returns list of (key, text)"""
    from pyroll.core import root_hooks
    probs = []
    units = list(seq.units)
    for u in units + [seq]:
        objs = [("unit", u), ("in_profile", u.in_profile), ("out_profile", u.out_profile)]
        if hasattr(u, "roll"):
            objs.append(("roll", u.roll))
        for role, o in objs:
            for h in list(root_hooks):
                if not issubclass(type(o), h.owner):
                    continue
                if role == "in_profile" and u is seq:
                    pass
                if h.name not in o.__dict__:
                    probs.append(("solved-root-not-explicit",
                                  f"{desc}: root hook {h.owner.__qualname__}.{h.name} is not an explicit value of the "
                                  f"{role} of {u} after solve"))
                    continue
                ctx.count("unit-root-explicit")
            # survive re-evaluation: explicit values are the same objects afterwards and are what a read returns
            before = public(o.__dict__)
            try:
                o.reevaluate_cache()
            except Exception as ex:          # raised from inside pyroll on a solved unit: the explicit values did not "survive"
                probs.append(("solved-reevaluate-raised",
                              f"{desc}: reevaluate_cache of the {role} of {u} after solve raised {ex!r}"))
                continue
            after = public(o.__dict__)
            if list(before) != list(after) or any(before[k] is not after[k] for k in before):
                probs.append(("solved-reevaluate-changed-explicit",
                              f"{desc}: reevaluate_cache changed the explicit values of the {role} of {u}"))
            for h in list(root_hooks):
                if issubclass(type(o), h.owner) and h.name in o.__dict__ and not callable(o.__dict__[h.name]) \
                        and o.__dict__[h.name] is not None:
                    try:
                        got = getattr(o, h.name)
                    except Exception as ex:
                        got = ex
                    if got is not o.__dict__[h.name]:
                        probs.append(("solved-root-read-not-explicit",
                                      f"{desc}: reading root hook {h.name} of the {role} of {u} does not return the "
                                      f"explicit value"))
    # hand-over between neighbours: explicit values of the out profile arrive as explicit values, cache entries do not
    for a, b in zip(units, units[1:]):
        src = public(a.out_profile.__dict__)
        dst = b.in_profile.__dict__
        rotated = type(b).__name__ != "Transport" and any(src[k] is not dst.get(k) for k in ("cross_section",) if k in src)
        for k, v in src.items():
            if rotated and k in ("cross_section", "classifiers", "t"):
                continue          # a pre-processor (rotator) stood between the two units
            if k not in dst:
                probs.append(("solved-handover-lost-explicit",
                              f"{desc}: explicit value {k} of the out profile of {a} is not an explicit value of the "
                              f"in profile of {b}"))
            elif dst[k] is not v and not rotated:
                probs.append(("solved-handover-changed-explicit",
                              f"{desc}: explicit value {k} of the out profile of {a} arrives changed at {b}"))
            else:
                ctx.count("unit-handover-explicit")
        for k in a.out_profile.__cache__:
            if k not in a.out_profile.__dict__ and k in dst and not rotated:
                probs.append(("solved-handover-cache-entry",
                              f"{desc}: remembered (not explicit) value {k} of the out profile of {a} was handed over "
                              f"to {b} as an explicit value"))
    return probs


def real_units(ctx, n):
    from pyroll.core import PassSequence, Transport
    rng = ctx.rng
    for k in range(n):
        kinds = [rng.choice(["oval", "round", "box", "diamond", "square", "swedish"]) for _ in range(2)]
        ik = rng.choice(["round", "square", "box", "diamond"])
        size = 30e-3 * rng.uniform(0.9, 1.05)
        desc = f"{ik}({size:.5f})->{kinds[0]}|transport|{kinds[1]}"
        spec = {"in": ik, "size": size, "passes": kinds, "seed_state": None}
        try:
            p1, _ = common.make_pass(rng, kind=kinds[0], label="p1")
            p2, _ = common.make_pass(rng, kind=kinds[1], label="p2")
            seq = PassSequence([p1, Transport(label="t", duration=1.0), p2])
            ip = common.make_in_profile(rng, ik, size=size)
        except Exception as ex:
            ctx.count("unit-build-raised:" + type(ex).__name__)
            continue
        try:
            seq.solve(ip)
        except Exception as ex:        # solver failures are not this property's business
            ctx.count("unit-solve-raised:" + type(ex).__name__)
            continue
        ctx.case(["units", desc], True)
        ctx.count("unit-sequences-solved")
        for key, text in check_solved_sequence(ctx, seq, desc):
            ctx.violation(key, text, {"sequence": desc, "how": "driver/props/c02.py real_units: common.make_pass x2 with a "
                                      "Transport between, PassSequence.solve(common.make_in_profile), then "
                                      "check_solved_sequence", **spec})


# ---------------------------------------------------------------------------------------------------------------
def run(ctx):
    REPORTED.clear()
    n_hist = ctx.budget(3000, 60000)
    max_ops = 40
    cases = [dict(c) for c in CORPUS]
    for _ in range(n_hist):
        cases.append(gen_case(ctx.rng, max_ops if ctx.rng.random() < 0.7 else 12))
    lean_lines = []
    all_obs = []
    for idx, case in enumerate(cases):
        try:
            obs, bad, sources = run_case(case, want_obs=True)
        except Exception as ex:
            # the implementation under test behaved in a way the harness cannot observe / drive any further (on the code as
            # it is this never happens): the tie is broken - not a crash of the check
            ctx.count("harness-could-not-observe:" + type(ex).__name__)
            ctx.disagreement(f"the harness could not drive / observe the implementation on this history: {ex!r}",
                             {"mode": case["mode"], "nhooks": case["nhooks"], "ops": [to_line(o) for o in case["ops"]]})
            continue
        canon = [case["mode"], case["nhooks"]] + [to_line(o) for o in case["ops"]]
        ctx.case(canon, nontrivial=len(sources - {"reeval", "reeval-other-order"}) >= 2 or "reeval" in sources)
        ctx.count("mode:" + case["mode"])
        for o in case["ops"]:
            ctx.count("op:" + o[0])
            if o[0] == "assign":
                ctx.count("assign:" + o[3].split(":")[0] + (":falsy" if o[3] in ("p:i0", "p:bF") else ""))
                if len(o) > 4:
                    ctx.count(f"callable:{o[3][:2]}:{o[4]}")
        for s in sources:
            ctx.count("served:" + s)
        for line in obs:
            out = line.split(" | ")[0]
            if not out.startswith(("val", "ok", "vals:None")):
                ctx.count("outcome:" + out.split(":")[0] + (":" + out.split(":")[1] if out.startswith("vals") else ""))
        if idx >= len(CORPUS) and len(ctx.samples) < 3 and len(sources) >= 3:
            ctx.sample({"mode": case["mode"], "nhooks": case["nhooks"], "history": canon[2:], "final": obs[-1]})
        if bad is not None:
            report(ctx, case, bad)
        lean_lines.append("reset")
        lean_lines.extend(to_line(o) for o in case["ops"][:len(obs)])
        all_obs.append((case, obs))

    # ---- model side -----------------------------------------------------------------------------------------
    if getattr(ctx, "model_available", True):
        out = ctx.lean_model(MODEL, lean_lines)
        pos = 0
        for case, obs in all_obs:
            pos += 1
            seg = out[pos:pos + len(obs)]
            pos += len(obs)
            diff = next((k for k in range(len(obs)) if k >= len(seg) or seg[k] != obs[k]), None)
            if diff is None:
                ctx.validated()
            else:
                ctx.disagreement(f"model and implementation differ after op #{diff} ({to_line(case['ops'][diff])})",
                                 {"mode": case["mode"], "nhooks": case["nhooks"],
                                  "ops": [to_line(o) for o in case["ops"][:diff + 1]],
                                  "impl": obs[diff], "model": seg[diff] if diff < len(seg) else None})
        if pos != len(out):
            ctx.disagreement("model output length mismatch", {"expected": pos, "got": len(out)})

    # ---- real units -----------------------------------------------------------------------------------------
    real_units(ctx, ctx.budget(5, 40))


def replay(ctx, data):
    r = data.get("replay", data)
    if "ops" not in r:
        raise ValueError("replay of a solved-sequence finding: re-run the check with the recorded seed")
    case = {"mode": r["mode"], "nhooks": r["nhooks"], "ops": [parse_line(x) for x in r["ops"]]}
    _, bad, _ = run_case(case)
    if bad is not None:
        k, key, info = bad
        ctx.violation(data.get("key", key), f"{key}: after `{info['op']}` observed {info['observed']}, expected "
                                            f"{info['expected']}", {**r, **info})
