"""C05 - solve is bounded, reports convergence honestly and is reproducible.

Tie: T (driver/translate/c05_loop.py re-reads `Unit.solve`, `Unit.__init__`, `init_solve`, `get_root_hook_results` and its
overrides, `reevaluate_cache` overrides, `_solve_subunits`, `HookFunction.__call__` and the defaults on every run ->
lean/PyrollModel/Gen/C05.lean: statement roles as `Solve.Shape`, the `range` bounds, the element-wise comparison as
`Expr`s, the defaults; the theorems of lean/PyrollProps/C05.lean are re-checked against them)
  +  K (`Unit.solve` and every `get_root_hook_results` are wrapped from OUTSIDE, the log records of the loop are captured;
every solve call of every unit of real runs - and of throw-away `Unit` subclasses playing back adversarial vector
sequences through the REAL loop - is fed to the Lean model SolveGen.solve as carried `_old_results` + recorded vectors:
iteration count, warned/quiet, logged index, exception kind, out-profile reuse and `_old_results` afterwards must agree;
the generated comparison is evaluated over Float against numpy; the real `Unit.init_solve` is run on units that already
have an out profile and the public entries it leaves are compared, in order, with `SolveGen.initOut`;

(D) the real `get_root_hook_results` / `reevaluate_cache` of real two- and three-roll passes (hosts answering with tags,
memos set to sentinels, gap / roll contour changed between consecutive `reevaluate_cache` calls) vs `SolveGen.evalParts`,
`resultParts`, `cacheEffects`, `SolveBody.usedGeometries`; the translator's resolution orders vs `cls.__mro__`.
(E) nested hook evaluations - implementations taking `cycle` that read the same / another hook on ANOTHER instance, lines,
rings, two hooks - on throw-away hook hosts through the real `Hook.__get__` / `HookFunction.__call__`: value or
AttributeError and the re-entrancy marks every hook function holds after each top-level read vs `SolveGen.runReads`
(`SolveMarks.read` with the policy generated from `HookFunction.__init__` / `__call__`); on real sequences whose model
implementations read their own hook on neighbouring units / profiles the marks after every completed solve vs the model's
"none" (`solve_leaves_no_mark`).
The oracle is written from the property text and only looks at what the real calls did.

What is a violation: more iterations than the limit; a quiet end although the last two iterates differ by more than the
precision / nothing to compare with - on the vector the unit compares (`quiet-but-iterates-differ`) AND on the persisted
values read independently of it from every hook host of the unit (`quiet-but-persisted-value-moves`: every registered root
hook on the unit, its profiles, its roll, as held after each loop body); a warning without a returned profile; fresh vs
fresh vs deep copy not bit-identical; an identical fresh sequence solved AFTER other sequences had been solved in the same
process (same registered implementations) not bit-identical to the first one (`fresh-after-other-differs-from-fresh`), the
sequence solved again after them raising / not within WITHIN_K x precision of its previous solve
(`resolve-after-other-raises`, `resolve-after-other-not-within-precision`);
the same sequence solved again with the same input raising or differing by more than WITHIN_K x precision; after an
aborted solve: a re-entrancy mark left, the retry (cause removed) raising or differing from a fresh sequence by more than
WITHIN_K x precision.  What is only counted (`info:*`): a used sequence solved with ANOTHER input vs a fresh one - the
statement does not claim it (see notes/C05.md, finding 2).
"""
import copy
import json
import logging
import math
import random
import re

from ..translate import c05_loop
from .. import stub

ID = "C05"
LEAN_MODULES = ["PyrollProps.C05"]
MODEL = "c05"
MODEL_MODULES = ["PyrollModel.SolveDriver"]
RULE = ("(A) scripted units: throw-away Unit subclasses whose get_root_hook_results plays back a vector sequence (0-5 "
        "components; geometric / monotone / oscillating / boundary-of-the-tolerance / constant / zero and negative "
        "components / NaN and inf entries / changing length / an exception at the k-th call) through the real Unit.solve, "
        "1-3 consecutive solve calls with limits 1,2,3,5,100 and precisions 1e-1..1e-9; (B) real sequences of 1-6 units "
        "(two-/three-roll passes, transports, cooling pipes, rotators, nested sequences, 0-4 disk elements), 4 incoming "
        "shapes, feedback models flow stress / spread / temperature registered as extra hook implementations (removed in "
        "finally), precision and limit set through Config or per unit; every case: fresh vs fresh vs deep copy, solve twice, "
        "deep copy of the solved sequence, a fault (8 exception types, k uniform over the clean call count of the chosen "
        "hook, or a value - flow_stress / temperature - missing on the incoming profile, or an unusable explicit "
        "flow_stress on it) then retry with the cause removed "
        "vs fresh; the solved object is a pass sequence or (1 in 4) ONE unit on its own; further feedback models: the roll gap "
        "as a result (mill spring: nominal gap + roll force / stiffness, two-roll passes) and a result persisted on the ROLL "
        "(temperature / surface_temperature / core_temperature - hooks the core has no implementation of - registered as root "
        "hook, under-relaxed with 0.5-0.75, read by the pass or by nobody); after every completed solve the registered root "
        "hooks of every host are read as a user reads them; (C) histories of init_solve calls with generated incoming entries (root-hook and other names, values "
        "changing / vanishing / new) on a plain unit, a transport and a roll pass, interleaved with writes to / deletions "
        "from the out profile; (D) get_root_hook_results / reevaluate_cache of real two-/three-roll passes with tagged hosts, "
        "sentinel memos and a gap / roll contour changing between loop bodies; (E) nested hook evaluations on throw-away hook "
        "hosts (1-2 hooks, 2-5 instances; lines towards the next / previous instance, rings, hook 0 asking hook 1, random asks; "
        "explicit values, trylast defaults; 1-9 top-level reads, short reads before and after long ones); in (B) 3 of 10 "
        "sequences get model implementations taking `cycle` that read their OWN hook on a neighbouring object - a transport "
        "without ambient temperature asks the next / previous transport (rows of 1-4 transports, each with or without a value of "
        "its own; the cooled workpiece temperature a persisted result), a profile without grain size asks the profile before it "
        "(out <- in <- previous out / the parent's in profile; refined by passes, persisted) - and 1-2 OTHER sequences (other "
        "rows of transports, other objects holding values, a unit dropped) that are solved in between: fresh after other vs "
        "fresh, solve again after other vs the previous solve, marks after every completed solve; 3 of 10 cases carry a plug-in "
        "root hook that feeds back into itself (scalar / numpy array / python list of 1-6 components, on the out profile of the "
        "passes or transports - hook declared by the harness like extension_class does - or the roll's temperature_field), half "
        "of the spread models persist the width as root hook (pass and rotator out profiles), 4 of 10 cases are also solved "
        "with a stock 10-60 % too large until the core or a validity-range model on a later unit refuses it, then with the right "
        "stock on the same sequence vs fresh. non-trivial = some unit needed >= 2 iterations after its first one / a scripted history "
        "with >= 2 vectors / >= 2 init_solve calls; distinct by the rounded case description.")
ASSUMPTIONS = [
    "what one loop body does to the unit (caches, sub-units, hook evaluation) is a parameter of the model (step); the "
    "correspondence feeds the vectors recorded from the real run",
    "`abort_then_retry_*_partial` assume that the failing loop body leaves the unit's state where it found it; of the state "
    "the core keeps across solves only `_old_results` and the public entries of the re-used out profile are modelled "
    "(`reused_out_profile_up_to_date`); caches of the unit and its roll are re-evaluated by every loop body (not modelled), "
    "hook implementations with a memory of their own are outside the statement",
    "contractivity of the feedback models is a hypothesis of `resolve_within_prec`; on the real code 'within precision' is "
    "checked numerically with the tolerance WITHIN_K * precision (relative), the harness's models having contraction "
    "factors well below 1/2",
    "which hosts make up the result vector and which memos `reevaluate_cache` clears is modelled for the two concrete roll-pass "
    "classes (method tables and resolution orders generated, `pass_vector_covers_all_hosts`, `geometry_rebuilt_every_iteration`); "
    "what the hosts' hook functions compute stays a parameter (`vals`, `build`)",
    "non-numeric persisted results (the cross-section polygon, classifiers) take no part in the stop test of the code and are "
    "not demanded by the oracle's 'all persisted values' clause either (agreement 'within a relative precision' is read for numbers)",
    "nested hook evaluations are modelled from clean caches with at most one nested read per implementation (SolveMarks.Impl); "
    "which hook functions of a real loop body nest on which instances is not derived from the source - the correspondence runs "
    "generated worlds through the real Hook.__get__ / HookFunction.__call__, the oracle solves real sequences with "
    "neighbour-reading implementations before and after other sequences",
    "bit-reproducibility of numpy/GEOS floating point (fresh vs fresh vs deep copy) is measured, not proved",
    "IEEE: a comparison with a NaN operand is false (the model treats the scalar NaN of a fresh unit symbolically); checked "
    "by evaluating the generated comparison over Float on NaN / inf / 0 operands against numpy",
]
TRUSTED_EXTRA = ["AST pattern matcher for Unit.solve & friends (driver/translate/c05_loop.py); its output is pinned by "
                 "`loop_shape_as_modelled`, used by `SolveGen.solve`/`budget`/`within` and exercised by the per-call correspondence"]

# 'within the precision': two runs that both stopped when consecutive iterates agreed within prec (relative) end within
# q/(1-q)*prec of the fixed point each (contraction factor q); nested loops and the sensitivity of one unit to the values
# handed over by its predecessors amplify this.  The feedback models used here have q <= 0.3: 2q/(1-q) <= 0.86; measured
# over 900 generated sequences on the repaired tree the worst ratio was 1.1 (printed in the evidence as
# `within-ratio-max`); 10 leaves a factor 9.
WITHIN_K = 10.0

PRECS = [1e-1, 1e-2, 1e-3, 1e-3, 1e-4, 1e-5, 1e-6, 1e-7, 1e-9]
LIMITS = [1, 2, 3, 5, 100, 100, 100, 100]


class Interrupt(BaseException):
    """a fault that is not an `Exception` (like KeyboardInterrupt): `_solve_subunits` does not wrap it"""


class CustomError(Exception):
    pass


class ValidityRange(ValueError):
    """raised by a model implementation of the harness that refuses inputs outside its validity range"""


FAULT_TYPES = {"ZeroDivisionError": ZeroDivisionError, "ValueError": ValueError, "TypeError": TypeError,
               "KeyError": KeyError, "RuntimeError": RuntimeError, "CustomError": CustomError, "Interrupt": Interrupt,
               "AttributeError": AttributeError}


# ---------------------------------------------------------------------------------------------------------------
# recording from outside
# ---------------------------------------------------------------------------------------------------------------

class Frame:
    """one call of Unit.solve"""

    def __init__(self, unit, parent):
        self.unit = unit
        self.parent = parent
        self.children = []
        self.vectors = []        # what get_root_hook_results returned, per loop body
        self.logs = []           # (kind, number, levelno) of the records emitted by this unit's loop
        self.outcome = None      # "returned" | exception class name
        self.error = None
        self.result = None
        self.body_raised = False
        self.own = []            # independent reading of the persisted values after every loop body (`persisted_values`)
        self.own_before = []     # the reading taken when the vector the unit carries as `_old_results` was produced (<= 1)
        self.init_raised = False  # the exception came out of `init_solve` (pre-processors ...), not out of a loop body


def persisted_values(u):
    """The persisted result values of a unit as the property statement means them, read WITHOUT asking the unit for its
    result vector and without evaluating anything: for the unit and every hook host it owns (in / out profile, roll, whatever
    else a unit class holds as a direct attribute) the numeric value of every registered root hook that applies to the host,
    as the host holds it right now (explicitly set, else cached).  -> {(host attribute, hook name): [floats]}"""
    import numpy as np
    from pyroll.core import HookHost, Unit, root_hooks
    hosts = [("self", u)] + [(k, v) for k, v in list(u.__dict__.items()) if isinstance(v, HookHost) and not isinstance(v, Unit)]
    out = {}
    for hname, host in hosts:
        cache = getattr(host, "__cache__", None) or {}
        for h in list(root_hooks):
            if (hname, h.name) in out or not isinstance(host, h.owner):
                continue
            v = host.__dict__.get(h.name)
            if v is None:
                v = cache.get(h.name)
            if v is None or isinstance(v, (str, bytes, set, frozenset, dict)) or callable(v):
                continue
            try:
                a = np.asarray(v, dtype=float).ravel()
            except (TypeError, ValueError):
                continue
            out[(hname, h.name)] = [float(x) for x in a]
    return out


def _snap_old(x):
    """`_old_results` -> None (scalar NaN) | list of floats"""
    import numpy as np
    a = np.asarray(x, dtype=float)
    if a.ndim == 0:
        return None if math.isnan(float(a)) else [float(a)]
    return [float(v) for v in a.ravel()]


def _all_subclasses(cls):
    out, todo = [], [cls]
    while todo:
        c = todo.pop()
        for s in c.__subclasses__():
            if s not in out:
                out.append(s)
                todo.append(s)
    return out


class Recorder(logging.Handler):
    """Wraps `Unit.solve` and every `get_root_hook_results` of the Unit class tree from outside and listens to the
    loop's log records.  Everything is restored on exit."""

    FIN = re.compile(r"Finished solving of .* after (-?\d+) iterations")
    EXC = re.compile(r"exceeded the maximum iteration count")

    def __init__(self):
        super().__init__(level=logging.DEBUG)
        self.frames = []
        self.stack = []
        self.depth = {}
        self.patched = []
        self.stray = 0
        self.own_hist = {}       # id(unit) -> (unit, reading of its persisted values belonging to its `_old_results`)

    def emit(self, record):
        if not self.stack:
            return
        try:
            msg = record.getMessage()
        except Exception:
            return
        fr = self.stack[-1]
        m = self.FIN.search(msg)
        if m:
            fr.logs.append(("finished", int(m.group(1)), record.levelno))
        elif self.EXC.search(msg):
            fr.logs.append(("exceeded", None, record.levelno))
        elif record.levelno >= logging.WARNING:
            fr.logs.append(("other", None, record.levelno))

    def __enter__(self):
        from pyroll.core import Unit
        rec = self
        orig_solve = Unit.__dict__["solve"]

        def solve(u, in_profile):
            fr = Frame(u, rec.stack[-1] if rec.stack else None)
            fr.old_before = _snap_old(u._old_results)
            fr.out_before = u.out_profile            # keeps the object alive: identity comparison stays meaningful
            h = rec.own_hist.get(id(u))
            fr.own_before = [h[1]] if h is not None and h[0] is u else []
            if fr.parent is not None:
                fr.parent.children.append(fr)
            rec.frames.append(fr)
            rec.stack.append(fr)
            try:
                r = orig_solve(u, in_profile)
                fr.outcome, fr.result = "returned", r
                return r
            except BaseException as e:
                fr.outcome, fr.error = type(e).__name__, e
                raise
            finally:
                rec.stack.pop()
                fr.old_after = _snap_old(u._old_results)
                fr.out_after = u.out_profile
                # which of this call's iterates the unit now carries as `_old_results` (none: it still carries an older one)
                for v, own in zip(reversed(fr.vectors), reversed(fr.own)):
                    if _same_vec(v, fr.old_after):
                        rec.own_hist[id(u)] = (u, own)
                        break
                else:
                    if not _same_vec(fr.old_after, fr.old_before):
                        rec.own_hist.pop(id(u), None)
        Unit.solve = solve
        self.patched.append((Unit, "solve", orig_solve))
        for cls in [Unit] + _all_subclasses(Unit):
            f = cls.__dict__.get("get_root_hook_results")
            if f is None or getattr(cls, "_c05_scripted", False):
                continue

            def grr(u, _f=f):
                d = rec.depth.get(id(u), 0)
                rec.depth[id(u)] = d + 1
                try:
                    r = _f(u)
                except BaseException:
                    if d == 0 and rec.stack and rec.stack[-1].unit is u:
                        rec.stack[-1].body_raised = True
                    raise
                finally:
                    rec.depth[id(u)] = d
                if d == 0:
                    rec.record_vector(u, r)
                    rec.record_own(u)
                return r
            setattr(cls, "get_root_hook_results", grr)
            self.patched.append((cls, "get_root_hook_results", f))
        for cls in [Unit] + _all_subclasses(Unit):
            f = cls.__dict__.get("init_solve")
            if f is None:
                continue

            def init_solve(u, in_profile, _f=f):
                try:
                    return _f(u, in_profile)
                except BaseException:
                    if rec.stack and rec.stack[-1].unit is u:
                        rec.stack[-1].init_raised = True
                    raise
            setattr(cls, "init_solve", init_solve)
            self.patched.append((cls, "init_solve", f))
        self.logger = logging.getLogger("pyroll")
        self.old_level = self.logger.level
        self.logger.setLevel(logging.INFO)
        self.logger.addHandler(self)
        return self

    def record_vector(self, u, r):
        import numpy as np
        if self.stack and self.stack[-1].unit is u:
            self.stack[-1].vectors.append([float(v) for v in np.asarray(r, dtype=float).ravel()])
        else:
            self.stray += 1

    def record_own(self, u):
        if self.stack and self.stack[-1].unit is u:
            self.stack[-1].own.append(persisted_values(u))

    def __exit__(self, *a):
        self.logger.removeHandler(self)
        self.logger.setLevel(self.old_level)
        for cls, name, f in reversed(self.patched):
            setattr(cls, name, f)
        self.patched = []
        return False

    def take(self):
        fr, self.frames = self.frames, []
        return fr


def frame_limits(fr):
    """max_iteration_count / iteration_precision of the frame's unit, read after the call (None when unreadable)"""
    try:
        return int(fr.unit.max_iteration_count), float(fr.unit.iteration_precision)
    except Exception:
        return None, None


# ---------------------------------------------------------------------------------------------------------------
# (B) real sequences: specs -> objects
# ---------------------------------------------------------------------------------------------------------------

def _groove(spec):
    from pyroll.core import CircularOvalGroove, RoundGroove, BoxGroove, DiamondGroove, SquareGroove, SwedishOvalGroove
    k, s, j = spec["groove"], spec["scale"], spec.get("j", [1.0, 1.0])
    if spec.get("three"):
        if k == "oval":
            return CircularOvalGroove(depth=8e-3 * s, r1=6e-3 * s, r2=40e-3 * s * j[0], pad_angle=30)
        return RoundGroove(r1=3e-3 * s, r2=12.5e-3 * s * j[0], depth=5e-3 * s, pad_angle=30)
    if k == "oval":
        return CircularOvalGroove(depth=8e-3 * s * j[0], r1=6e-3 * s, r2=40e-3 * s * j[1])
    if k == "round":
        return RoundGroove(r1=1e-3 * s, r2=12.5e-3 * s * j[0], depth=11.5e-3 * s)
    if k == "box":
        return BoxGroove(r1=2e-3 * s, r2=4e-3 * s, depth=10e-3 * s * j[0], usable_width=30e-3 * s, ground_width=24e-3 * s)
    if k == "diamond":
        return DiamondGroove(r1=3e-3 * s, r2=5e-3 * s, usable_width=38e-3 * s * j[0], tip_depth=12e-3 * s)
    if k == "square":
        return SquareGroove(r1=3e-3 * s, r2=4e-3 * s, usable_width=30e-3 * s * (0.97 + 0.06 * (j[0] - 0.9) / 0.3),
                            tip_depth=15e-3 * s)
    return SwedishOvalGroove(r1=3e-3 * s, r2=6e-3 * s, depth=7e-3 * s, usable_width=36e-3 * s, ground_width=20e-3 * s)


def build_unit(spec, label, kw0):
    from pyroll.core import Roll, RollPass, ThreeRollPass, Transport, CoolingPipe, Rotator, PassSequence
    t = spec["type"]
    kw = dict(kw0)
    if spec.get("disks"):
        kw["disk_element_count"] = spec["disks"]
    if t == "pass":
        s = spec["scale"]
        roll = Roll(groove=_groove(spec), nominal_radius=160e-3 * s, rotational_frequency=spec.get("freq", 1))
        if "rotation" in spec:
            kw["rotation"] = spec["rotation"]
        # "sprung": the pass is given its unloaded (nominal) gap; the gap itself is left to a model implementation
        # (`Registered`, model "gap"), i.e. it is a RESULT that changes from iteration to iteration
        gap_kw = {"nominal_gap" if spec.get("sprung") else "gap": 2e-3 * s * spec.get("gap", 1.0)}
        if spec.get("three"):
            if spec["groove"] == "oval":
                return ThreeRollPass(label=label, roll=roll, **gap_kw, **kw)
            return ThreeRollPass(label=label, roll=roll, inscribed_circle_diameter=22e-3 * s, **kw)
        return RollPass(label=label, roll=roll, **gap_kw, **kw)
    if t in ("transport", "pipe"):
        for k in ("duration", "length"):
            if k in spec:
                kw[k] = spec[k]
        if spec.get("env") is not None:
            kw["environment_temperature"] = spec["env"]      # given explicitly; otherwise left to the hook implementations
        if t == "pipe":
            return CoolingPipe(label=label, inner_radius=0.05, coolant_volume_flux=1e-3, **kw)
        return Transport(label=label, **kw)
    if t == "rotator":
        if spec.get("rotation") is not None:
            kw["rotation"] = spec["rotation"]
        return Rotator(label=label, **kw)
    if t == "seq":
        return PassSequence([build_unit(u, f"{label}.{i}", kw0) for i, u in enumerate(spec["units"])], label=label, **kw0)
    raise ValueError(t)


def build_sequence(case):
    """the object that is solved: a pass sequence, or - `alone` - its only unit WITHOUT a sequence around it (then nothing
    repeats the unit's solve: what the unit reports is what its own loop converged to)"""
    from pyroll.core import PassSequence
    kw0 = {}
    if case["via"] == "kwargs":
        kw0 = {"max_iteration_count": case["max_iter"], "iteration_precision": case["prec"]}
    if case.get("alone"):
        return build_unit(case["units"][0], "S", kw0)
    return PassSequence([build_unit(u, f"U{i}", kw0) for i, u in enumerate(case["units"])], label="S", **kw0)


def build_in_profile(spec, without=None, extra=None):
    """`without`: name of a value to leave out (the deficient incoming profile of the missing-value fault);
    `extra`: explicit values to add (the spoilt incoming profile of the bad-value fault)"""
    from pyroll.core import Profile
    kw = dict(temperature=spec.get("temperature", 1200 + 273.15), material=["C45", "steel"], density=7.5e3,
              specific_heat_capacity=690, strain=spec.get("strain", 0), length=spec.get("length", 1.0))
    if spec.get("flow_stress") is not None:
        kw["flow_stress"] = spec["flow_stress"]
    if spec.get("grain_size") is not None:
        kw["grain_size"] = spec["grain_size"]
    kw.pop(without, None)
    kw.update(extra or {})
    s, kind = spec["size"], spec["kind"]
    if kind == "round":
        return Profile.round(diameter=s, **kw)
    if kind == "square":
        return Profile.square(side=s * 0.8, corner_radius=s * 0.05, **kw)
    if kind == "box":
        return Profile.box(height=s * 0.9, width=s * 0.8, corner_radius=s * 0.05, **kw)
    return Profile.diamond(height=s * 0.8, width=s * 1.1, corner_radius=s * 0.05, **kw)


# ---- feedback models and the fault, as extra hook implementations (registered on entry, removed on exit) --------

class Registered:
    def __init__(self, case, fault=None):
        self.case = case
        self.fault = fault            # {"hook": key, "type": name, "k": int | None}
        self.hfs = []
        self.roots = []
        self.saved_cfg = None
        self.counts = {}
        self.cyclers = []             # the registered hook functions that read their own hook on other instances
        self.declared = []            # (class, name) of hooks declared by the harness (plug-in style)
        self.guard = None             # {"label", "thr"}: a model with a validity range refusing too large an incoming section

    def __enter__(self):
        from pyroll.core import RollPass, ThreeRollPass, BaseRollPass, Transport, Unit, Config, Rotator, root_hooks
        try:
            m = self.case.get("models", {})
            if "flow_stress" in m:
                c = m["flow_stress"]

                def flow_stress(self, c=c):
                    f = 50e6 * (1 + self.strain) ** 0.2 * self.roll_pass.strain_rate ** 0.1
                    if c.get("beta"):
                        f *= math.exp(-c["beta"] * (self.temperature - (1200 + 273.15)))
                    return f
                self._add(BaseRollPass.Profile.flow_stress, flow_stress)
            if "width" in m:
                c = m["width"]

                def width(self, cycle, c=c):
                    if cycle:
                        return None
                    return self.roll_pass.in_profile.width * self.roll_pass.draught ** c["e"]
                self._add(RollPass.OutProfile.width, width)
                if c.get("root"):
                    # the spread model plugged in as plug-ins do it: the width is a persisted result (root hook) of the pass's
                    # out profile - and of the rotator's, which would otherwise keep the un-rotated width handed over to it
                    for hk in (RollPass.OutProfile.width, Rotator.OutProfile.width):
                        root_hooks.append(hk)
                        self.roots.append(hk)
            if "field" in m:
                self._register_field(m["field"])
            if "temperature" in m:
                c = m["temperature"]

                def temperature(self, cycle, c=c):
                    if cycle:
                        return None
                    rp = self.roll_pass
                    # deformation heating growing with the roll force of the previous iteration (a persisted value);
                    # bounded, so that the loop force -> temperature -> flow stress -> force has a gain
                    # beta * dT * max(x / cosh(x)^2) <= 4e-3 * 150 * 0.45 = 0.27 whatever the size of the pass
                    return rp.in_profile.temperature + c["dT"] * math.tanh(rp.roll_force / 1e5)
                self._add(BaseRollPass.OutProfile.temperature, temperature)
                root_hooks.append(BaseRollPass.OutProfile.temperature)
                self.roots.append(BaseRollPass.OutProfile.temperature)
            if "gap" in m:
                c = m["gap"]

                def gap(self, c=c):
                    # mill spring: the roll gap under load = unloaded gap + roll force (persisted result of the previous
                    # iteration) / stand stiffness; only for passes that are given a nominal gap
                    if not self.has_set("nominal_gap"):
                        return None
                    force = self.roll_force if self.has_set("roll_force") else 0.0
                    return self.nominal_gap + force / c["k"]
                self._add(RollPass.gap, gap)
                self._add(ThreeRollPass.gap, gap)
            if "roll" in m:
                c = m["roll"]
                name = c["hook"]
                hook = getattr(BaseRollPass.Roll, name)

                def roll_value(self, c=c, name=name):
                    # a result persisted on the ROLL (the core has no implementation of its own for these hooks): driven by
                    # the roll force of the previous iteration and under-relaxed, i.e. fed back into itself - it approaches
                    # its fixed point with the factor 1 - w per iteration, whatever the other results do
                    rp = self.roll_pass
                    old = getattr(self, name) if self.has_set_or_cached(name) else 300.0
                    force = rp.roll_force if rp.has_set("roll_force") else 0.0
                    return old + c["w"] * (300.0 + c["dT"] * math.tanh(force / 1e5) - old)
                self._add(hook, roll_value)
                root_hooks.append(hook)
                self.roots.append(hook)
                if c.get("used") and "temperature" not in m:
                    def chilled(self, c=c, name=name):
                        # ... and used by the pass: the roll takes heat out of the workpiece
                        rp = self.roll_pass
                        return rp.in_profile.temperature - c.get("h", 0.02) * (rp.in_profile.temperature - getattr(rp.roll, name))
                    self._add(BaseRollPass.OutProfile.temperature, chilled)
                    root_hooks.append(BaseRollPass.OutProfile.temperature)      # (handed-over values are explicit: only a
                    self.roots.append(BaseRollPass.OutProfile.temperature)      # root hook is evaluated in spite of them)
            if "neigh" in m:
                # Model implementations that take the `cycle` argument and, while running on one object, read the SAME hook on a
                # NEIGHBOURING object (which may have to ask its own neighbour, ...): nested evaluations of one hook function
                # on other instances, as deep as the line of objects without a value of their own is long.
                c = m["neigh"]
                if c["kind"] == "ambient":
                    def ambient(self, cycle, c=c):
                        # a transport without an ambient temperature of its own lies in the same section as its neighbour
                        if cycle:
                            return None
                        try:
                            nb = self.next if c["dir"] == "next" else self.prev
                        except (IndexError, ValueError):
                            return None
                        if not isinstance(nb, Transport):
                            return None
                        return c["a"] * nb.environment_temperature + c["b"]
                    self._add(Transport.environment_temperature, ambient)
                    self.cyclers.append(self.hfs[-1][1])

                    def cooled(self, c=c):
                        # ... and the workpiece approaches it (a persisted result: registered as root hook)
                        tr = self.unit
                        if not tr.has_value("duration"):
                            return None
                        amb = tr.environment_temperature
                        return amb + (tr.in_profile.temperature - amb) * math.exp(-c["rate"] * tr.duration)
                    self._add(Transport.OutProfile.temperature, cooled)
                    root_hooks.append(Transport.OutProfile.temperature)
                    self.roots.append(Transport.OutProfile.temperature)
                else:
                    def grain(self, cycle, c=c):
                        # a profile without a grain size: the out profile of a unit takes that of the in profile (refined by a
                        # roll pass), an in profile that of the profile leaving the unit before, the first unit of a nested
                        # sequence / disk element that of the profile entering its parent
                        if cycle:
                            return None
                        u = self.unit
                        if u.out_profile is self:
                            v = u.in_profile.grain_size
                            return c["a"] * v + c["b"] if isinstance(u, BaseRollPass) else v
                        try:
                            before = u.prev.out_profile
                        except (IndexError, ValueError):
                            par = u.parent
                            before = par.in_profile if par is not None else None
                        if before is None or before is self:
                            return None
                        return before.grain_size
                    self._add(Unit.Profile.grain_size, grain)
                    self.cyclers.append(self.hfs[-1][1])

                    def grain_default(self, c=c):
                        return c["root"]
                    self._add(Unit.Profile.grain_size, grain_default, trylast=True)
                    root_hooks.append(Unit.OutProfile.grain_size)
                    self.roots.append(Unit.OutProfile.grain_size)
            if self.fault is not None:
                # a pass-through implementation (returns None = "ask the next one") in front of every candidate hook,
                # counting its calls; the armed one raises at its k-th call
                reg = self
                self.counts = {key: 0 for key in FAULT_HOOKS}
                for key in FAULT_HOOKS:
                    def faulty(self, key=key):
                        reg.counts[key] += 1
                        f = reg.fault
                        if f.get("k") is not None and f["hook"] == key and reg.counts[key] == f["k"]:
                            raise FAULT_TYPES[f["type"]](f"injected fault at call {f['k']} of {key}")
                        return None
                    self._add(fault_hook(key), faulty, tryfirst=True)
            if (self.case.get("fault2") or {}).get("oversize"):
                reg2 = self

                def validity_range(self):
                    # a model with a validity range (pass-through otherwise): it refuses to compute a unit whose incoming
                    # cross-section is larger than what it was made for
                    g = reg2.guard
                    if g is not None and self.label == g["label"] and self.in_profile.cross_section.area > g["thr"]:
                        raise ValidityRange(f"incoming cross-section {self.in_profile.cross_section.area:.6g} of {self.label} beyond "
                                            f"the validity range of the model ({g['thr']:.6g})")
                    return None
                self._add(Unit.power, validity_range, tryfirst=True)
            if self.case["via"] == "config":
                self.saved_cfg = (Config.DEFAULT_MAX_ITERATION_COUNT, Config.DEFAULT_ITERATION_PRECISION)
                Config.DEFAULT_MAX_ITERATION_COUNT = self.case["max_iter"]
                Config.DEFAULT_ITERATION_PRECISION = self.case["prec"]
        except BaseException:
            self.__exit__()
            raise
        return self

    def _add(self, hook, fn, **kw):
        self.hfs.append((hook, hook.add_function(fn, **kw)))

    def _declare(self, cls, name):
        """a NEW hook on an existing hook host class, as `HookHost.extension_class` does it (removed again on exit - from the
        class and from the sub-classes `Hook.__get__` copies it to)"""
        import numpy as np
        from pyroll.core import Hook
        if name in cls.__dict__:
            raise RuntimeError(f"harness: {cls.__qualname__} already has an attribute {name}")
        setattr(cls, name, Hook[np.ndarray]())
        self.declared.append((cls, name))
        return getattr(cls, name)

    def _register_field(self, c):
        """A plug-in result that is a root hook and feeds back into ITSELF from iteration to iteration (under-relaxed fixed point
        iteration: value = previous + w * (target - previous), contraction 1 - w whatever the core's own results do), scalar
        (`n` = 0) or VECTOR valued (`n` >= 1 components: numpy array or python list - temperatures of concentric rings of the
        profile / of the roll), on the out profile of the roll passes (a hook declared by the plug-in), on the ROLL (the core's
        `temperature_field`, which has no implementation) or on the out profile of the transports."""
        import numpy as np
        from pyroll.core import BaseRollPass, Transport, root_hooks
        n, w, name = c["n"], c["w"], c.get("name", "ring_temperatures")

        def shape(x):
            if n == 0:
                return float(np.ravel(x)[0])
            a = np.asarray(x, dtype=float)
            return [float(v) for v in a] if c.get("as") == "list" else a

        def relax(host, nm, start, target):
            prev = host.__dict__.get(nm)
            prev = start if prev is None or np.shape(np.atleast_1d(prev)) != np.shape(start) else np.atleast_1d(np.asarray(prev, dtype=float))
            return shape(prev + w * (target - prev))
        m = max(n, 1)
        prof = np.linspace(30.0, -250.0, m) if m > 1 else np.array([-120.0])
        if c["host"] == "roll":
            hook, nm = BaseRollPass.Roll.temperature_field, "temperature_field"

            def field(self):
                rp = self.roll_pass
                force = rp.roll_force if rp.has_set("roll_force") else 0.0
                start = np.full(m, 300.0)
                return relax(self, nm, start, start + np.linspace(c["dT"], 0.2 * c["dT"], m) * math.tanh(force / 1e5))
            self._add(hook, field)
        elif c["host"] == "transport":
            hook, nm = self._declare(Transport.OutProfile, name), name

            def field(self, cycle):
                if cycle:
                    return None
                tr = self.unit
                if not tr.has_value("duration"):
                    return None
                start = np.full(m, float(tr.in_profile.temperature))
                return relax(self, nm, start, 300.0 + (start - 300.0) * np.exp(-0.02 * tr.duration * np.linspace(0.5, 1.5, m)))
            self._add(hook, field)
        else:
            hook, nm = self._declare(BaseRollPass.OutProfile, name), name

            def field(self, cycle):
                if cycle:
                    return None
                rp = self.roll_pass
                # the surface chilled by the rolls, the core heated by the deformation (the strain is a persisted result)
                start = np.full(m, float(rp.in_profile.temperature))
                return relax(self, nm, start, start + prof * c.get("g", 1.0) * rp.out_profile.strain)
            self._add(hook, field)
            if c.get("used") and not ({"temperature", "roll"} & set(self.case["models"])):
                def mean_temperature(self):
                    # ... and used: the mean temperature of the leaving profile follows the rings
                    rp = self.roll_pass
                    v = getattr(self, nm, None)
                    t_in = rp.in_profile.temperature
                    return t_in if v is None else t_in + c.get("h", 0.1) * (float(np.mean(v)) - t_in)
                self._add(BaseRollPass.OutProfile.temperature, mean_temperature)
                root_hooks.append(BaseRollPass.OutProfile.temperature)
                self.roots.append(BaseRollPass.OutProfile.temperature)
        root_hooks.append(hook)
        self.roots.append(hook)

    def __exit__(self, *a):
        from pyroll.core import Config, root_hooks
        if self.saved_cfg is not None:
            Config.DEFAULT_MAX_ITERATION_COUNT, Config.DEFAULT_ITERATION_PRECISION = self.saved_cfg
            self.saved_cfg = None
        for h in reversed(self.roots):
            root_hooks.remove_last(h)
        self.roots = []
        for hook, hf in reversed(self.hfs):
            hook.remove_function(hf)
        self.hfs = []
        for cls, name in reversed(self.declared):
            for k in [cls] + _all_subclasses(cls):
                if name in k.__dict__:
                    delattr(k, name)
        self.declared = []
        return False


FAULT_HOOKS = ["pass.roll_force", "pass.out.strain", "unit.out.t", "unit.out.length", "roll.roll_torque", "unit.power",
               "pass.strain_rate", "profile.flow_stress", "transport.out.strain", "pass.out.filling_ratio"]


def fault_hook(key):
    from pyroll.core import BaseRollPass, Unit, Transport
    return {"pass.roll_force": BaseRollPass.roll_force, "pass.out.strain": BaseRollPass.OutProfile.strain,
            "unit.out.t": Unit.OutProfile.t, "unit.out.length": Unit.OutProfile.length,
            "roll.roll_torque": BaseRollPass.Roll.roll_torque, "unit.power": Unit.power,
            "pass.strain_rate": BaseRollPass.strain_rate, "profile.flow_stress": BaseRollPass.Profile.flow_stress,
            "transport.out.strain": Transport.OutProfile.strain,
            "pass.out.filling_ratio": BaseRollPass.OutProfile.filling_ratio}[key]


# ---- generators -------------------------------------------------------------------------------------------------

def gen_pass(rng, scale, kinds=None, three=False):
    k = rng.choice(kinds or ["oval", "round", "box", "diamond", "square", "swedish"])
    sp = {"type": "pass", "groove": k, "scale": round(scale, 4),
          "j": [round(rng.uniform(0.9, 1.1), 3), round(rng.uniform(0.95, 1.15), 3)],
          "gap": round(rng.uniform(0.6, 1.4), 3), "disks": rng.choice([0, 0, 0, 1, 2, 3, 4])}
    if three:
        sp["three"] = True
        sp["groove"] = rng.choice(["oval", "round"])
    r = rng.random()
    if r < 0.1:
        sp["rotation"] = False
    elif r < 0.2:
        sp["rotation"] = rng.choice([90, 45, 0, 180])
    return sp


def gen_transport(rng, after_pass=True):
    t = {"type": rng.choice(["transport", "transport", "pipe"]), "disks": rng.choice([0, 0, 1, 2, 3, 4])}
    if rng.random() < 0.6 or not after_pass:
        t["duration"] = rng.choice([1, 0.5, 2.5, round(rng.uniform(0.1, 5), 3)])
    else:
        t["length"] = rng.choice([1, 2.0, round(rng.uniform(0.2, 6), 3)])
    return t


def next_pass(rng, st):
    last = st["last"]
    if st["three"]:
        if last is None:
            g, sc = rng.choice([("oval", 1.0), ("round", 2.0)])
        elif last == ("oval", 1.0):
            g, sc = "round", 2.0
        elif last == ("round", 2.0):
            g, sc = "oval", 0.8
        else:
            return None
        st["last"] = (g, sc)
        sp = gen_pass(rng, sc, [g], three=True)
        sp["groove"] = g
        return sp
    if last is None:
        sp = gen_pass(rng, 1.0)
        st["scale"] = 1.0
    elif last == "oval":
        sp = gen_pass(rng, st["scale"], ["round"])
    else:
        st["scale"] = round(st["scale"] * 0.8, 4)
        sp = gen_pass(rng, st["scale"], ["oval", "oval", "round"] if last != "round" else ["oval"])
    st["last"] = sp["groove"]
    return sp


def gen_units(rng, depth, st, want):
    units = []
    last_type = None
    for i in range(want):
        r = rng.random()
        if depth < 2 and r < 0.2 and want > 1:
            sub = gen_units(rng, depth + 1, st, rng.randrange(1, 4))
            if sub:
                units.append({"type": "seq", "units": sub})
                last_type = "seq"
            continue
        if i > 0 and last_type == "pass" and r < 0.7:
            units.append(gen_transport(rng, after_pass=True))
            last_type = "transport"
            continue
        if r < 0.10 and i < want - 1 and not st["three"]:
            units.append({"type": "rotator", "rotation": rng.choice([None, 90, 45, 0])})
            last_type = "rotator"
            continue
        sp = next_pass(rng, st)
        if sp is None:
            units.append(gen_transport(rng, after_pass=last_type == "pass"))
            last_type = "transport"
            continue
        units.append(sp)
        last_type = "pass"
    return units


def _all_passes(units):
    for u in units:
        if u["type"] == "pass":
            yield u
        elif u["type"] == "seq":
            yield from _all_passes(u["units"])


def gen_case(rng):
    three = rng.random() < 0.2
    n = rng.choice([1, 2, 3, 3, 4, 5, 6])
    # `alone`: one unit solved on its own, no sequence around it whose outer iteration would repeat (and so repair) it
    alone = rng.random() < 0.25
    st = {"three": three, "last": None, "scale": 1.0}
    units = gen_units(rng, 0, st, 1 if alone else n)
    if alone and rng.random() < 0.1:
        units = [gen_transport(rng, False)]
    elif not any(u["type"] in ("pass", "seq") for u in units):
        units.append(next_pass(rng, st) or gen_transport(rng, False))
    spec_in = {"kind": rng.choice(["round", "square", "box"] if three else ["round", "square", "box", "diamond"]),
               "size": round((60e-3 if three else 30e-3) * rng.uniform(0.97, 1.04), 5),
               "length": rng.choice([1, 1, 2.5, 0.3]), "strain": rng.choice([0, 0, 0.3]),
               "temperature": rng.choice([1200 + 273.15, 1100 + 273.15, 1323.15])}
    models = {}
    r = rng.random()
    if r < 0.7:
        models["flow_stress"] = {"beta": 0}
    else:
        spec_in["flow_stress"] = rng.choice([100e6, 80e6])
    if rng.random() < 0.4:
        models["temperature"] = {"dT": rng.choice([50.0, 100.0, 150.0])}
        if "flow_stress" in models:
            models["flow_stress"]["beta"] = rng.choice([2e-3, 4e-3])
    if rng.random() < 0.35 and not three:
        models["width"] = {"e": rng.choice([-0.5, -0.45, -0.4])}
    # results fed back into the GEOMETRY of the passes (mill spring: the gap is a result) and results persisted on the ROLL
    # (hooks the core has no implementation of; under-relaxed, used by the pass or not)
    if rng.random() < 0.3:
        models["gap"] = {"k": rng.choice([3e8, 5e8, 1e9])}
        for u in _all_passes(units):
            if not u.get("three"):       # (the contact model of the three-roll pass cannot follow a moving gap: EmptyPartError)
                u["sprung"] = True
    if rng.random() < 0.3:
        models["roll"] = {"hook": rng.choice(["temperature", "surface_temperature", "core_temperature"]),
                          "w": rng.choice([0.5, 0.6, 0.75]), "dT": rng.choice([40.0, 80.0]), "used": rng.random() < 0.5,
                          "h": rng.choice([0.02, 0.002])}
    case = {"in": spec_in, "units": units, "models": models, "prec": rng.choice(PRECS), "max_iter": rng.choice(LIMITS),
            "via": rng.choice(["config", "config", "kwargs"])}
    if alone:
        case["alone"] = True
    ftype = rng.choice(sorted(FAULT_TYPES))
    case["fault"] = {"hook": rng.choice(FAULT_HOOKS), "type": ftype, "u": round(rng.random(), 6)}
    if "flow_stress" not in models and rng.random() < 0.6:
        case["fault"] = {"missing": "flow_stress"}
    elif (models.get("flow_stress", {}).get("beta") or "temperature" in models) and rng.random() < 0.3:
        case["fault"] = {"missing": "temperature"}
    elif "flow_stress" in models and rng.random() < 0.2:
        # an explicit value on the incoming profile that cannot be computed with (it shadows the registered model);
        # removing the cause = leaving it out, so that the retry's incoming profile has FEWER entries than the aborted one
        case["fault"] = {"extra": {"flow_stress": "not-a-number"}}
    if rng.random() < 0.5:
        si = {"temperature": spec_in["temperature"] - rng.choice([60.0, 150.0])}
        if "flow_stress" in spec_in and rng.random() < 0.7:
            si = {"flow_stress": spec_in["flow_stress"] * rng.choice([0.8, 1.25])}
        elif rng.random() < 0.3:
            si = {"strain": 0.2, "length": 1.7}
        case["second_input"] = si
    # model implementations reading their own hook on NEIGHBOURING units / profiles (nested evaluations of one hook function
    # on other instances, 1-4 levels), and OTHER sequences solved in the same process with the same implementations in between.
    # (Decided by a generator derived from the case generated so far - i.e. from ctx.rng - so that the stream of cases is the
    # one it was before these features existed, with some of them extended.)
    rng2 = random.Random("c05-neigh:" + json.dumps(case, sort_keys=True))
    if rng2.random() < 0.3 and not alone:
        gen_neigh(rng2, case)
    elif rng2.random() < 0.1 and not alone:
        # (whatever the models: another sequence - the line without its last unit, or the line itself - solved in between)
        o = copy.deepcopy(units[:-1] if len(units) > 1 and rng2.random() < 0.6 else units)
        case["others"] = [o if any(u["type"] in ("pass", "seq") for u in o) else copy.deepcopy(units)]
    # plug-in root hooks that feed back (scalar AND vector valued; the spread model's width as a persisted result) and a solve
    # aborted because of the INCOMING STATE (too large a stock), the cause then removed upstream - again decided by a generator
    # derived from the case, so that the stream of cases stays what it was, some of them extended
    gen_plugin(random.Random("c05-plug:" + json.dumps(case, sort_keys=True)), case)
    return case


def _has_type(units, types):
    return any(u["type"] in types or (u["type"] == "seq" and _has_type(u["units"], types)) for u in units)


def gen_plugin(rng, case):
    m = case["models"]
    if "width" in m and rng.random() < 0.5:
        m["width"]["root"] = True
    if rng.random() < 0.3:
        host = rng.choice(["out", "out", "out", "roll", "transport"])
        if host == "transport" and not _has_type(case["units"], ("transport", "pipe")):
            host = "out"
        if host != "transport" and not _has_type(case["units"], ("pass",)):
            host = "transport"
        m["field"] = {"host": host, "n": rng.choice([0, 1, 3, 6, 6]), "w": rng.choice([0.35, 0.5, 0.7]),
                      "as": rng.choice(["array", "array", "list"]), "used": rng.random() < 0.4, "dT": rng.choice([40.0, 80.0]),
                      "g": rng.choice([1.0, 0.5]), "h": rng.choice([0.1, 0.02])}
    if rng.random() < 0.4:
        case["fault2"] = {"oversize": rng.choice([1.1, 1.2, 1.3, 1.45, 1.6]), "u": round(rng.random(), 6)}


def _all_transport_lists(units):
    """every list (the top level, nested sequences) with the positions of its transports"""
    yield units
    for u in units:
        if u["type"] == "seq":
            yield from _all_transport_lists(u["units"])


def _stretch_transports(rng, units, p_more, p_env, end=None):
    """rows of 1-4 transports, each with or without an ambient temperature of its own; `end` = "next" / "prev": (mostly) only
    the last / first transport of a row holds one, so that the others read through the whole row"""
    for lst in _all_transport_lists(units):
        i = 0
        while i < len(lst):
            if lst[i]["type"] in ("transport", "pipe"):
                n = 0
                while rng.random() < p_more and n < 3:
                    lst.insert(i + 1, {"type": "transport", "disks": rng.choice([0, 0, 0, 2]),
                                       "duration": rng.choice([1, 0.5, 2.5, round(rng.uniform(0.1, 5), 3)])})
                    n += 1
                row = lst[i:i + n + 1]
                through = end is not None and rng.random() < 0.7
                for j, t in enumerate(row):
                    t.pop("env", None)
                    holder = j == (len(row) - 1 if end == "next" else 0)
                    if (through and holder) or (not through and rng.random() < p_env) or (through and rng.random() < 0.1):
                        t["env"] = rng.choice([900.0, 600.0, 350.0, round(rng.uniform(300, 1000), 1)])
                i += n
            i += 1


def gen_neigh(rng, case):
    units = case["units"]
    if rng.random() < 0.65:
        d = rng.choice(["next", "next", "next", "prev"])
        case["models"]["neigh"] = {"kind": "ambient", "dir": d,
                                   "a": 1.0, "b": rng.choice([0.0, 0.0, -20.0, 15.0]), "rate": rng.choice([0.05, 0.02, 0.2])}
        if not any(u["type"] in ("transport", "pipe") for lst in _all_transport_lists(units) for u in lst):
            units.insert(rng.randrange(0, len(units) + 1), gen_transport(rng, False))
        _stretch_transports(rng, units, rng.choice([0.35, 0.6]), 0.4, d)
    else:
        case["models"]["neigh"] = {"kind": "grain", "a": rng.choice([0.8, 0.9, 0.5]), "b": rng.choice([0.0, 1e-6]),
                                   "root": rng.choice([50e-6, 20e-6])}
        if rng.random() < 0.5:
            case["in"]["grain_size"] = rng.choice([80e-6, 120e-6])
    # other programs of the same process: variations of the line (other lengths of the rows of transports, other objects
    # holding a value of their own, units dropped, a value the incoming profile no longer carries)
    others = []
    for _ in range(rng.choice([1, 1, 2])):
        o = copy.deepcopy(units)
        if case["models"]["neigh"]["kind"] == "ambient":
            for lst in _all_transport_lists(o):        # back to single transports, then stretched anew
                k = 1
                while k < len(lst):
                    if lst[k]["type"] == "transport" and lst[k - 1]["type"] in ("transport", "pipe") and "length" not in lst[k]:
                        del lst[k]
                    else:
                        k += 1
            _stretch_transports(rng, o, rng.choice([0.3, 0.7]), rng.choice([0.2, 0.5]), case["models"]["neigh"]["dir"])
        else:
            if len(o) > 1 and rng.random() < 0.5:
                del o[-1]
                if not any(u["type"] in ("pass", "seq") for u in o):
                    o = copy.deepcopy(units)
            if "grain_size" in case["in"] and rng.random() < 0.7:
                o = {"units": o, "in_without": "grain_size"}
        others.append(o)
    case["others"] = others


# ---------------------------------------------------------------------------------------------------------------
# (A) scripted units: adversarial vector sequences through the REAL `Unit.solve`
# ---------------------------------------------------------------------------------------------------------------

class ScriptOverrun(Exception):
    """harness side: the real loop asked for more vectors than `max_iteration_count` allows"""


def scripted_unit(rec, script, label="scripted", subunits=None):
    """a throw-away `Unit` subclass instance whose get_root_hook_results plays back `script` (vectors, or
    {"raise": name}); the pointer survives across solve calls"""
    import numpy as np
    from pyroll.core import Unit
    state = {"k": 0}

    def get_root_hook_results(self):
        k = state["k"]
        state["k"] += 1
        if k >= len(script):
            raise ScriptOverrun(f"call {k + 1} of a script of {len(script)} items")
        item = script[k]
        if isinstance(item, dict):
            if rec.stack and rec.stack[-1].unit is self:
                rec.stack[-1].body_raised = True
            raise FAULT_TYPES[item["raise"]]("scripted fault")
        vec = np.array(item, dtype=float)
        rec.record_vector(self, vec)
        return vec
    cls = type("C05Scripted", (Unit,), {"get_root_hook_results": get_root_hook_results, "_c05_scripted": True})
    u = cls(label=label)
    if subunits:
        u._subunits = Unit._SubUnitsList(u, subunits)
    u._c05_state = state
    return u


def _base_vector(rng, n):
    out = []
    for _ in range(n):
        r = rng.random()
        if r < 0.12:
            out.append(0.0)
        else:
            mag = 10 ** rng.uniform(-6, 6) if r < 0.5 else rng.choice([1.0, 2.0, 0.5, 1024.0, 3.0, 1e5, 0.03])
            out.append(mag if rng.random() < 0.7 else -mag)
    return out


def gen_script(rng):
    """-> {"calls": [{"max_iter", "prec"}...], "script": [...], "kind": str}"""
    n = rng.choice([0, 1, 1, 2, 2, 3, 5])
    kind = rng.choice(["geometric", "geometric", "decreasing", "increasing", "boundary", "boundary-exact", "constant",
                       "nan-inside", "inf", "length-change", "raise", "mixed", "oscillating"])
    calls = [{"max_iter": rng.choice(LIMITS + [4, 7, 12]), "prec": rng.choice(PRECS)} for _ in range(rng.choice([1, 1, 2, 3]))]
    if kind == "boundary-exact":
        for c in calls:
            c["prec"] = 2.0 ** -rng.choice([1, 2, 3, 10, 20])
    for c in calls:
        c["max_iter"] = min(c["max_iter"], 25)
    total = sum(c["max_iter"] for c in calls) + 2
    p = calls[0]["prec"]
    x = _base_vector(rng, n)
    if kind == "boundary-exact":
        x = [2.0 ** rng.randrange(-8, 9) * rng.choice([1, -1]) for _ in range(n)]
    script = []
    q = rng.choice([0.1, 0.5, 0.9, -0.5, -0.9]) if kind != "oscillating" else -rng.choice([0.5, 0.9, 1.0])
    a = rng.choice([1.0, 0.1, -0.5, 1e-3])
    cur = list(x)
    for k in range(total):
        if kind in ("geometric", "oscillating"):
            v = [xi * (1 + a * q ** k) for xi in x]
        elif kind == "decreasing":
            v = [xi * (1 + abs(a) / (k + 1)) if xi > 0 else xi * (1 - min(abs(a), 0.9) / (k + 1)) for xi in x]
        elif kind == "increasing":
            v = [xi * (1 - min(abs(a), 0.9) / (k + 1)) if xi > 0 else xi * (1 + abs(a) / (k + 1)) for xi in x]
        elif kind in ("boundary", "boundary-exact"):
            f = rng.choice([0.5, 0.999999, 1.0, 1.0, 1.000001, 2.0]) if kind == "boundary" else rng.choice([0.5, 1.0, 1.0, 2.0])
            s = rng.choice([1, -1])
            cur = [c * (1 + s * p * f) for c in cur]
            v = list(cur)
        elif kind == "constant":
            v = list(x)
        elif kind == "nan-inside":
            v = [xi * (1 + a * 0.3 ** k) for xi in x]
            if v and k < rng.choice([1, 2, 4]):
                v[rng.randrange(len(v))] = float("nan")
        elif kind == "inf":
            v = [xi * (1 + a * 0.3 ** k) for xi in x]
            if v and k < 3:
                v[0] = rng.choice([float("inf"), float("-inf")])
        elif kind == "length-change":
            m = n if k < 2 else rng.choice([n, n, n + 1, 1, 0, max(n - 1, 0)])
            v = [(x[i % n] if n else 1.0) * (1 + a * 0.3 ** k) for i in range(m)]
        elif kind == "raise":
            v = [xi * (1 + a * 0.5 ** k) for xi in x]
        else:
            v = [xi * (1 + rng.choice([0, 0, p * 0.3, -p * 0.3, p * 3, -p * 3, a * 0.5 ** k])) for xi in x]
        script.append(v)
    if kind == "raise" or rng.random() < 0.08:
        j = rng.randrange(0, min(len(script), 6))
        script[j] = {"raise": rng.choice(sorted(FAULT_TYPES))}
    return {"calls": calls, "script": script, "kind": kind}


SCRIPT_CORPUS = [
    # fresh unit: NaN start, two equal vectors -> quiet after 2; a second solve stops after 1
    {"kind": "corpus-constant", "calls": [{"max_iter": 100, "prec": 1e-3}, {"max_iter": 100, "prec": 1e-3}],
     "script": [[1.0, -2.0, 0.0]] * 6},
    # limit 2 on a fresh unit: one body, cannot be quiet; limit 1: no body at all
    {"kind": "corpus-limit", "calls": [{"max_iter": 2, "prec": 1e-1}, {"max_iter": 1, "prec": 1e-1}, {"max_iter": 3, "prec": 1e-1}],
     "script": [[5.0], [5.0], [5.0], [5.0], [5.0], [5.0], [5.0]]},
    # the empty vector: np.all([]) is True, quiet after ONE body although nothing was compared
    {"kind": "corpus-empty", "calls": [{"max_iter": 100, "prec": 1e-3}], "script": [[], [], []]},
    # exactly on the tolerance: |1.5 - 1| = 0.5 = |1| * 0.5
    {"kind": "corpus-boundary", "calls": [{"max_iter": 100, "prec": 0.5}], "script": [[1.0], [1.5], [9.0], [9.0]]},
    # all components decreasing by far more than the precision: must not be taken for agreement
    {"kind": "corpus-decreasing", "calls": [{"max_iter": 4, "prec": 1e-3}], "script": [[8.0, 4.0], [4.0, 2.0], [2.0, 1.0], [1.0, 0.5], [1.0, 0.5]]},
    # relative to the PREVIOUS vector; zero components need exact equality
    {"kind": "corpus-zero", "calls": [{"max_iter": 6, "prec": 1e-1}], "script": [[0.0, 1.0], [1e-30, 1.0], [0.0, 1.0], [0.0, 1.0], [0.0, 1.0], [0.0, 1.0], [0.0, 1.0]]},
    # exception in the 2nd body, then two more solves
    {"kind": "corpus-raise", "calls": [{"max_iter": 100, "prec": 1e-3}, {"max_iter": 100, "prec": 1e-3}, {"max_iter": 100, "prec": 1e-3}],
     "script": [[1.0], {"raise": "ZeroDivisionError"}, [1.0], [1.0005], [1.0006], [1.0006], [1.0006]]},
    # changing length: numpy broadcasting (length 1) and ValueError
    {"kind": "corpus-shapes", "calls": [{"max_iter": 100, "prec": 1e-3}, {"max_iter": 100, "prec": 1e-3}],
     "script": [[1.0], [1.0, 2.0, 3.0], [1.0, 2.0], [7.0], [7.0, 7.0], [7.0, 7.0], [7.0, 7.0]]},
    # C05.resolve_full_false: results resting at 1 for two iterations, then moving to 5: both solves end quietly (1, then 5)
    {"kind": "corpus-jump", "calls": [{"max_iter": 3, "prec": 1e-1}, {"max_iter": 3, "prec": 1e-1}],
     "script": [[1.0], [1.0], [5.0], [5.0], [5.0]]},
    # NaN inside never agrees
    {"kind": "corpus-nan", "calls": [{"max_iter": 5, "prec": 1e-1}], "script": [[float("nan"), 1.0]] * 6},
]


def run_scripted(ctx, sc, lines, pending):
    from pyroll.core import Profile
    ip = Profile.round(diameter=30e-3)
    hist = []
    with Recorder() as rec:
        u = scripted_unit(rec, sc["script"])
        for c in sc["calls"]:
            u.max_iteration_count = c["max_iter"]
            u.iteration_precision = c["prec"]
            try:
                u.solve(ip)
            except ScriptOverrun:
                fr = rec.frames[-1]
                if len(fr.vectors) < c["max_iter"]:
                    raise                      # the script is too short for the limits of its calls: a bug of the generator
                report(ctx, "iterations-exceed-limit", f"scripted unit: the loop asked for vector {len(fr.vectors) + 1} with "
                       f"max_iteration_count={c['max_iter']}", {"scripted": sc})
                return
            except BaseException as e:
                if type(e).__name__ not in FAULT_TYPES and not isinstance(e, ValueError):
                    raise
            rec.frames[-1].limits = (c["max_iter"], c["prec"])
        frames = rec.take()
    ctx.case({"scripted": _canon(sc)}, nontrivial=len(sc["script"]) >= 2 and any(len(f.vectors) >= 2 for f in frames))
    ctx.count("scripted:" + sc["kind"].replace("corpus-", ""))
    for k, fr in enumerate(frames):
        count_frame(ctx, fr, "scripted")
        for key, what in check_frame(fr):
            report(ctx, key, f"scripted unit, solve call {k + 1}: {what}", {"scripted": sc, "call": k})
        add_model_line(ctx, fr, lines, pending, {"scripted": sc, "call": k})
    hist.append(frames)


def run_subunit_wrap(ctx, outcomes, lines, pending):
    """`_solve_subunits`: scripted sub-units, the k-th raising: how many were entered, what the parent raises"""
    from pyroll.core import Profile
    ip = Profile.round(diameter=30e-3)
    with Recorder() as rec:
        subs = []
        for i, (o, exc) in enumerate(outcomes):
            s = scripted_unit(rec, [[1.0], [1.0], [1.0]] if o == "o" else [{"raise": exc}], label=f"sub{i}")
            s.max_iteration_count = 5
            subs.append(s)
        parent = scripted_unit(rec, [[2.0], [2.0], [2.0]], label="parent", subunits=subs)
        parent.max_iteration_count = 5
        err = None
        try:
            parent.solve(ip)
        except Exception as e:
            err = e
        frames = rec.take()
    top = frames[0]
    first_body = []
    for ch in top.children:
        if ch.unit in [c.unit for c in first_body]:
            break
        first_body.append(ch)
    got = f"{len(first_body)} {'ok' if err is None else type(err).__name__}"
    if err is not None and not (err.__cause__ is first_body[-1].error and str(first_body[-1].unit) in str(err)):
        got += " (not chained to the sub-unit's exception / not naming the unit)"
    ctx.count("subunit-wrap")
    if ctx.model_available:
        lines.append("sub " + (",".join(o for o, _ in outcomes) or "-"))
        pending.append(("sub", got, {"subunits": outcomes}))


# ---------------------------------------------------------------------------------------------------------------
# (C) `init_solve` on a unit that already has an out profile: the real method vs `Solve.handOver`
# ---------------------------------------------------------------------------------------------------------------

HAND_PLAIN = ["flow_stress", "temperature", "material", "density", "custom_a", "custom_b", "velocity", "filling_ratio"]

HANDOVER_CORPUS = [
    # finding 1: the first incoming profile lacks `flow_stress`; the next one has it
    {"cls": "pass", "ops": [["init", {"strain": 1, "temperature": 2}], ["set", "strain", 3], ["init", {"strain": 4, "temperature": 5, "flow_stress": 6}]]},
    # finding 2: a changed value, a value that is no longer handed over, root hooks keep the previous results
    {"cls": "transport", "ops": [["init", {"t": 1, "length": 2, "flow_stress": 3, "density": 4}], ["set", "t", 5], ["set", "length", 6],
                                 ["init", {"t": 7, "length": 8, "flow_stress": 9}], ["init", {"cross_section": 10}]]},
    # an entry written into the out profile from outside, a root hook result deleted
    {"cls": "unit", "ops": [["init", {"strain": 1}], ["set", "custom_a", 2], ["del", "strain"], ["del", "t"], ["init", {"strain": 3, "custom_b": 4}]]},
]


def gen_handover(rng):
    cls = rng.choice(["unit", "transport", "pass"])
    roots = ["cross_section", "classifiers", "strain", "length", "t"] + (["velocity", "filling_ratio"] if cls == "pass" else [])
    pool = roots + HAND_PLAIN
    nxt = [10]

    def val():
        nxt[0] += 1
        return nxt[0] if rng.random() < 0.8 else rng.randrange(1, 4)
    ops = [["init", {k: val() for k in rng.sample(pool, rng.randrange(0, 7))}]]
    for _ in range(rng.randrange(1, 6)):
        r = rng.random()
        if r < 0.5:
            ops.append(["init", {k: val() for k in rng.sample(pool, rng.randrange(0, 8))}])
        elif r < 0.85:
            ops.append(["set", rng.choice(pool), val()])
        else:
            ops.append(["del", rng.choice(pool)])
    return {"cls": cls, "ops": ops}


def _public(host):
    return [(k, v) for k, v in host.__dict__.items() if not k.startswith("_")]


def _entries(es):
    return ",".join(f"{k}={v}" for k, v in es) if es else "-"


def run_handover(ctx, hist, lines, pending):
    """plays `hist` on a real unit: `init` = the real `Unit.init_solve(unit, Profile(**entries))` (the base method, without
    what sub-classes add), `set` / `del` = what loop bodies or anybody else may have done to the out profile in between;
    values are small integers standing for identities (nothing is evaluated by `init_solve`)"""
    from pyroll.core import Unit, Transport, Profile, root_hooks
    if hist["cls"] == "pass":
        u = build_unit({"type": "pass", "groove": "oval", "scale": 1.0, "rotation": False}, "H", {})     # no pre-processor
    elif hist["cls"] == "transport":
        u = Transport(label="H", duration=1)
    else:
        u = Unit(label="H")
    roots = []
    for h in root_hooks:
        if issubclass(type(u).OutProfile, h.owner) and h.name not in roots:
            roots.append(h.name)
    ctx.case({"handover": _canon(hist)}, nontrivial=sum(1 for o in hist["ops"] if o[0] == "init") >= 2)
    ctx.count("handover-histories")
    for i, op in enumerate(hist["ops"]):
        if op[0] == "init":
            tmpl = Profile(**op[1])
            before = None if u.out_profile is None else _public(u.out_profile)
            obj = u.out_profile
            Unit.init_solve(u, tmpl)
            after = _public(u.out_profile)
            ctx.count("handover:" + ("create" if before is None else "re-use"))
            if before is not None and u.out_profile is not obj:
                ctx.count("handover:re-created")
            if _public(u.in_profile) != _public(tmpl):
                ctx.disagreement(f"init_solve: the in profile does not hold the public entries of the incoming profile: "
                                 f"{_public(u.in_profile)} vs {_public(tmpl)}", {"handover": hist, "op": i})
            if ctx.model_available:
                lines.append(f"handover {','.join(roots) or '-'} {'N' if before is None else _entries(before)} {_entries(_public(tmpl))}")
                pending.append(("handover", _entries(after), {"handover": hist, "op": i}))
        elif u.out_profile is not None:
            if op[0] == "set":
                setattr(u.out_profile, op[1], op[2])
            else:
                u.out_profile.__dict__.pop(op[1], None)


# ---------------------------------------------------------------------------------------------------------------
# (D) one loop body of a roll pass: which hosts make up the result vector, what `reevaluate_cache` rebuilds - the real
#     methods of real passes vs `SolveGen.resultParts` / `evalParts` / `cacheEffects` / `SolveBody.usedGeometries`
# ---------------------------------------------------------------------------------------------------------------

def _probe_pass(three, gap=1.0):
    from pyroll.core import Unit, Profile
    u = build_unit({"type": "pass", "groove": "oval", "scale": 1.0, "rotation": False, "three": three, "gap": gap}, "B", {})
    Unit.init_solve(u, Profile.round(diameter=(60e-3 if three else 30e-3)))      # the base method: creates the two profiles
    return u


def check_family(ctx):
    """the resolution orders the translator computed vs `cls.__mro__` of the real classes"""
    import pyroll.core as pc
    info = getattr(ctx, "c05_info", None)
    if not info:
        return
    fam = info["family"]
    known = {c for c, _ in fam["class_bases"]}
    for name, chain in fam["mro"]:
        cls = pc
        for part in name.split("."):
            cls = getattr(cls, part)
        real = [c.__qualname__ for c in cls.__mro__ if c.__qualname__ in known]
        ctx.count("family-mro")
        if real == list(chain):
            ctx.validated()
        else:
            ctx.disagreement(f"method resolution order of {name}: translator {chain}, python {real}", {"class": name})


def run_pass_body(ctx, lines, pending, rounds):
    import numpy as np
    rng = ctx.rng
    check_family(ctx)
    for three in (False, True):
        cname = "ThreeRollPass" if three else "TwoRollPass"
        # ---- get_root_hook_results: every host's `evaluate_and_set_hooks` answers with a tag; order of the calls, order
        # of the tags in the returned vector
        u = _probe_pass(three)
        hosts = {"in_profile": u.in_profile, "out_profile": u.out_profile, "self": u, "roll": u.roll}
        log = []
        try:
            for k, (name, h) in enumerate(hosts.items()):
                h.__dict__["evaluate_and_set_hooks"] = (lambda name=name, tag=float(k + 1): (log.append(name), [tag])[1])
            vec = type(u).get_root_hook_results(u)
        finally:
            for h in hosts.values():
                h.__dict__.pop("evaluate_and_set_hooks", None)
        names = list(hosts)
        concat = [names[int(t) - 1] for t in np.asarray(vec, dtype=float).ravel()]
        # ---- reevaluate_cache: which memos are absent afterwards.  Both memos exist before the call and the pass and the roll
        # remember hook values whose functions read them (`usable_cross_section` -> `contour_lines`, `min_radius` ->
        # `contour_line`), so that the recomputation inside `reevaluate_cache` uses / rebuilds them as the model assumes
        u = _probe_remembering(three)
        u.contour_lines
        u.reevaluate_cache()
        gone = [n for n, absent in (("_contour_lines", u._contour_lines is None), ("roll._contour_line", u.roll._contour_line is None))
                if absent]
        ctx.count("pass-body:parts")
        if ctx.model_available:
            lines.append(f"parts {cname}")
            pending.append(("parts", (log, concat, gone), {"pass_body": cname}))
        # ---- the memos through consecutive loop bodies whose input changes: which input the geometry handed out was built from
        for _ in range(rounds):
            n = rng.randrange(1, 5)
            gaps = [round(rng.uniform(0.5, 1.5), 3) for _ in range(n)]
            for stale in (0, 1):
                # pass contour <- gap
                u = _probe_remembering(three)
                cands = {i: _probe_pass(three, g).contour_lines.bounds for i, g in enumerate(gaps)}
                cands[999] = _probe_pass(three, 1.7).contour_lines.bounds
                u._contour_lines = None
                u.roll._contour_line = None
                if stale:
                    u.gap = 2e-3 * 1.7
                    u.contour_lines
                used = []
                for g in gaps:
                    u.gap = 2e-3 * g
                    u.reevaluate_cache()
                    b = u.contour_lines.bounds
                    used.append(next((str(i) for i, c in cands.items() if c == b), "?"))
                ctx.count("pass-body:memo")
                if ctx.model_available:
                    lines.append(f"memo {cname} pass {n} {stale}")
                    pending.append(("memo", ",".join(used), {"pass_body": cname, "memo": "_contour_lines", "gaps": gaps, "stale": stale}))
                # roll contour line <- contour points (only the roll remembers a value read from it: the pass's remembered
                # cross-section cannot be recomputed from an arbitrarily scaled roll contour)
                u = _probe_remembering(three, pass_too=False)
                pts = np.asarray(u.roll.contour_points, dtype=float)
                u._contour_lines = None
                u.roll._contour_line = None
                if stale:
                    u.roll.contour_points = pts * 1.7
                    u.roll.contour_line
                used = []
                for g in gaps:
                    u.roll.contour_points = pts * g
                    u.reevaluate_cache()
                    xy = np.asarray(u.roll.contour_line.coords)
                    used.append(next((str(i) for i, f in list(enumerate(gaps)) + [(999, 1.7)] if np.array_equal(xy, pts * f)), "?"))
                if ctx.model_available:
                    lines.append(f"memo {cname} roll {n} {stale}")
                    pending.append(("memo", ",".join(used), {"pass_body": cname, "memo": "roll._contour_line", "factors": gaps, "stale": stale}))


def _probe_remembering(three, pass_too=True):
    """a pass (and its roll) that REMEMBER hook values whose functions read the memoised geometry"""
    u = _probe_pass(three)
    if pass_too:
        u.usable_cross_section
    u.roll.min_radius
    if (pass_too and "usable_cross_section" not in u.__cache__) or "min_radius" not in u.roll.__cache__:
        raise RuntimeError("harness: the probe pass does not remember usable_cross_section / min_radius")
    return u


# ---------------------------------------------------------------------------------------------------------------
# (E) nested hook evaluations on throw-away hook hosts: the real `Hook.__get__` / `HookFunction.__call__` vs
#     `SolveGen.runReads` (results and the re-entrancy marks left after every top-level read)
# ---------------------------------------------------------------------------------------------------------------

MARKS_CORPUS = [
    # a line of three: 0 asks 1, 1 asks 2, 2 holds the value; then the one-level line 1 -> 2; then 0 again
    {"nh": 1, "ni": 3, "cells": [[{"e": None, "impl": ["a", 0, 1, 1, 0], "d": 293}, {"e": None, "impl": ["a", 0, 2, 1, 0], "d": 293},
                                  {"e": 900, "impl": ["p"], "d": None}]], "queries": [[0, 0], [0, 1], [0, 2], [0, 0]]},
    # a genuine cycle 0 -> 1 -> 0, cut by the flag; 0 has a default, 1 has none (AttributeError)
    {"nh": 1, "ni": 2, "cells": [[{"e": None, "impl": ["a", 0, 1, 2, 1], "d": 293}, {"e": None, "impl": ["a", 0, 0, 1, 0], "d": None}]],
     "queries": [[0, 0], [0, 1], [0, 0]]},
    # two hooks: hook 0 asks hook 1 on the SAME instance, hook 1 asks hook 1 on the neighbour
    {"nh": 2, "ni": 3, "cells": [[{"e": None, "impl": ["a", 1, 0, 1, 0], "d": None}, {"e": None, "impl": ["a", 1, 1, 1, 5], "d": 4},
                                  {"e": None, "impl": ["p"], "d": None}],
                                 [{"e": None, "impl": ["a", 1, 1, 3, 0], "d": None}, {"e": None, "impl": ["a", 1, 2, 1, -2], "d": None},
                                  {"e": None, "impl": ["v", 7], "d": None}]],
     "queries": [[0, 0], [0, 1], [0, 2], [1, 0], [0, 0]]},
]


def gen_marks_world(rng):
    nh = rng.choice([1, 1, 2])
    ni = rng.randrange(2, 6)
    shape = rng.choice(["line", "line", "line-back", "ring", "cross", "random"])
    cells = []
    for g in range(nh):
        row = []
        for k in range(ni):
            a, b = rng.choice([1, 1, 2, -1]), rng.choice([0, 0, 1, -3])
            if shape == "line":
                impl = ["a", g, k + 1, a, b] if k + 1 < ni else rng.choice([["p"], ["v", rng.randrange(1, 50)]])
            elif shape == "line-back":
                impl = ["a", g, k - 1, a, b] if k > 0 else rng.choice([["p"], ["v", rng.randrange(1, 50)]])
            elif shape == "ring":
                impl = ["a", g, (k + 1) % ni, a, b]
            elif shape == "cross":
                impl = ["a", (g + 1) % nh, rng.choice([k, (k + 1) % ni]), a, b] if rng.random() < 0.7 else ["v", rng.randrange(1, 50)]
            else:
                r = rng.random()
                impl = ["p"] if r < 0.15 else ["v", rng.randrange(1, 50)] if r < 0.3 else ["a", rng.randrange(nh), rng.randrange(ni), a, b]
            e = None
            if rng.random() < (0.25 if shape != "ring" else 0.1) or (shape == "line" and k == ni - 1 and rng.random() < 0.7) \
                    or (shape == "line-back" and k == 0 and rng.random() < 0.7):
                e = rng.choice([900, 600, 0, -5, rng.randrange(100, 999)])
            row.append({"e": e, "impl": impl, "d": rng.choice([None, None, 293, rng.randrange(1, 99)])})
        cells.append(row)
    queries = [[rng.randrange(nh), rng.randrange(ni)] for _ in range(rng.randrange(1, 7))]
    if shape in ("line", "line-back") and rng.random() < 0.7:
        # short reads first / last, the long ones in between
        far = [0, 0] if shape == "line" else [0, ni - 1]
        near = [0, ni - 2] if shape == "line" else [0, 1]
        queries = [near, far] + queries + [near]
    return {"nh": nh, "ni": ni, "cells": cells, "queries": queries, "shape": shape}


def _marks_line(w):
    def opt(x):
        return "_" if x is None else str(x)
    cs = []
    for row in w["cells"]:
        for c in row:
            i = c["impl"]
            impl = "p" if i[0] == "p" else f"v{i[1]}" if i[0] == "v" else "a" + ",".join(str(x) for x in i[1:])
            cs.append(f"{opt(c['e'])}/{impl}/{opt(c['d'])}")
    return f"marks {w['nh']} {w['ni']} {';'.join(cs)} {','.join(f'{g}.{k}' for g, k in w['queries'])}"


def run_marks_world(ctx, w, lines, pending):
    """the world `w` on real hook hosts: one throw-away HookHost subclass with `nh` hooks, `ni` instances, per hook ONE
    implementation taking `cycle` (returns None when told so; else a value / None / a * <hook g' of instance k'> + b) and a
    `trylast` default; every query is a top-level attribute read from clean caches.  Recorded: value or AttributeError, and
    the marks every hook function holds afterwards."""
    from pyroll.core.hooks import Hook, HookHost
    nh, ni = w["nh"], w["ni"]
    cls = type("C05Host", (HookHost,), {f"h{g}": Hook[float]() for g in range(nh)})
    insts = [cls() for _ in range(ni)]
    index = {id(x): k for k, x in enumerate(insts)}
    hfs = []
    for g in range(nh):
        def fn(self, cycle, g=g):
            if cycle:
                return None
            i = w["cells"][g][index[id(self)]]["impl"]
            if i[0] == "p":
                return None
            if i[0] == "v":
                return i[1]
            return i[3] * getattr(insts[i[2]], f"h{i[1]}") + i[4]

        def dflt(self, g=g):
            return w["cells"][g][index[id(self)]]["d"]
        hook = getattr(cls, f"h{g}")
        hook.add_function(dflt, trylast=True)
        hfs.append(hook.add_function(fn))
        for k, x in enumerate(insts):
            if w["cells"][g][k]["e"] is not None:
                setattr(x, f"h{g}", w["cells"][g][k]["e"])
    got = []
    depth = 0
    for g, k in w["queries"]:
        try:
            r = str(getattr(insts[k], f"h{g}"))
        except AttributeError as e:
            if not _from_pyroll(e):
                raise
            r = "E"
        marks = []
        for g2, hf in enumerate(hfs):
            m = _marks_of(hf)
            if m is None:
                ctx.tie_breaks.append("harness: HookFunction keeps its re-entrancy marks somewhere else than `_active_instances`")
                return
            marks += [(g2, index.get(key, 99)) for key in m]
        got.append(f"{r}|{'+'.join(f'{a}.{b}' for a, b in sorted(marks)) or '-'}")
        depth = max(depth, len(marks))
        for x in insts:
            x.__cache__.clear()
    ctx.case({"marks": _canon(w)}, nontrivial=any(c["impl"][0] == "a" and c["e"] is None for row in w["cells"] for c in row))
    ctx.count("marks-worlds")
    ctx.count("marks-world:" + w.get("shape", "corpus"))
    for t in got:
        ctx.count("marks-read:" + ("AttributeError" if t.startswith("E|") else "value"))
    if ctx.model_available:
        lines.append(_marks_line(w))
        pending.append(("marks", ";".join(got), {"marks": w}))


# ---------------------------------------------------------------------------------------------------------------
# the oracle on one solve call (from the property text)
# ---------------------------------------------------------------------------------------------------------------

def _canon(obj):
    return json.loads(json.dumps(obj, default=str), parse_float=lambda s: round(float(s), 9))


def report(ctx, key, what, replay_obj):
    replay_obj = dict(replay_obj)
    replay_obj["how"] = "./check C05 --replay <this file>  (driver.props.c05.replay)"
    ctx.violation(key, what, replay_obj)


def agree(cur, prev, prec):
    """'two consecutive iterates agree within the relative precision' - read generously (relative to the larger of the
    two, one ulp of slack), so that this never demands more than the statement does"""
    if len(cur) != len(prev):
        if len(prev) == 1:
            prev = prev * len(cur)
        elif len(cur) == 1:
            cur = cur * len(prev)
        else:
            return False
    for c, o in zip(cur, prev):
        if not abs(c - o) <= prec * max(abs(c), abs(o)) * (1 + 1e-12):
            return False
    return True


def own_disagreement(cur, prev, prec):
    """two readings of `persisted_values`: (largest relative difference among the components that do NOT agree within the
    precision - 0.0 when all agree -, its key, previous value, current value); only values both readings hold, with the same
    number of components, are compared (same generous reading of 'agree' as in `agree`)"""
    worst = (0.0, None, None, None)
    for k in sorted(set(cur) & set(prev)):
        a, b = cur[k], prev[k]
        if len(a) != len(b):
            continue
        for c, o in zip(a, b):
            m = max(abs(c), abs(o))
            if c != c or o != o or abs(c - o) <= prec * m * (1 + 1e-12):
                continue                       # (NaN / inf components: left to the clause on the vector itself)
            if m == float("inf"):
                continue
            r = abs(c - o) / m
            if r > worst[0]:
                worst = (r, k, o, c)
    return worst


def frame_warned(fr):
    return any(lv >= logging.WARNING for (_, _, lv) in fr.logs)


def check_frame(fr):
    """-> [(key, what)] for one solve call"""
    from pyroll.core import Profile
    bad = []
    mi, prec = limits_of(fr)
    n = len(fr.vectors)
    warned = frame_warned(fr)
    if mi is not None and n > mi:
        bad.append(("iterations-exceed-limit", f"{fr.unit}: {n} iterations with max_iteration_count={mi}"))
    if fr.outcome == "returned":
        if not isinstance(fr.result, Profile):
            bad.append(("no-profile-returned", f"{fr.unit}: solve returned {type(fr.result).__name__}"))
        if not warned and prec is not None:
            if n == 0:
                bad.append(("quiet-without-iterates", f"{fr.unit}: no iteration ran (max_iteration_count={mi}) and no "
                            f"non-convergence warning was logged"))
            else:
                cur = fr.vectors[-1]
                prev = fr.vectors[-2] if n >= 2 else fr.old_before
                if prev is None:
                    if cur:
                        bad.append(("quiet-on-first-iterate", f"{fr.unit}: ended without warning after the first iteration "
                                    f"of a unit that had no previous iterate (nothing to agree with): {cur[:4]}"))
                elif not agree(cur, prev, prec):
                    worst = max(((abs(c - o) / max(abs(c), abs(o), 1e-300), j) for j, (c, o) in enumerate(zip(cur, prev))
                                 if not abs(c - o) <= prec * max(abs(c), abs(o))), default=(float("nan"), -1))
                    bad.append(("quiet-but-iterates-differ", f"{fr.unit}: ended without warning after {n} iterations but the "
                                f"last two iterates differ by {worst[0]:.3g} (relative, component {worst[1]}) > precision {prec:g}: "
                                f"{prev[:4]} -> {cur[:4]}"))
            # The same clause on ALL persisted result values, read independently of the vector the unit hands to its own
            # stop test (`persisted_values`: every root hook on every hook host of the unit).  As above, a unit solved again
            # that stops after one iteration is compared with the iterate it carries as `_old_results`: the reading taken
            # when that vector was produced.
            if fr.own and len(fr.own) == n:
                cands = [fr.own[-2]] if len(fr.own) >= 2 else list(fr.own_before)
                if cands:
                    w = min((own_disagreement(fr.own[-1], c, prec) for c in cands), key=lambda x: x[0])
                    if w[0] > 0:
                        bad.append(("quiet-but-persisted-value-moves", f"{fr.unit}: ended without warning after {n} iterations "
                                    f"but the persisted value {w[1][1]} of its {w[1][0]} still differs by {w[0]:.3g} (relative) "
                                    f"> precision {prec:g} between the last two iterates: {w[2]!r} -> {w[3]!r}"))
    elif warned:
        bad.append(("warned-no-profile", f"{fr.unit}: non-convergence warning logged but solve raised {fr.outcome}"))
    return bad


def count_frame(ctx, fr, stream):
    n = len(fr.vectors)
    ctx.count(f"{stream}:iterations:{n if n < 6 else '6+'}")
    ctx.count(f"{stream}:{'warned' if frame_warned(fr) else 'quiet' if fr.outcome == 'returned' else 'raised:' + fr.outcome}")
    if fr.old_before is not None:
        ctx.count(f"{stream}:carried-old")


# ---------------------------------------------------------------------------------------------------------------
# K: one model line per solve call
# ---------------------------------------------------------------------------------------------------------------

MODEL_EXC = {"AttributeError", "ValueError", "ZeroDivisionError", "TypeError", "KeyError", "IndexError", "RuntimeError"}


def bits_vec(v):
    return ",".join(str(stub.bits(x)) for x in v) if v else "-"


def _is_broadcast_error(e):
    return isinstance(e, ValueError) and "broadcast" in str(e)


def add_model_line(ctx, fr, lines, pending, rp):
    if not ctx.model_available:
        return
    mi, prec = limits_of(fr)
    if mi is None or mi < 0:
        ctx.count("model-skipped:limits-unreadable")
        return
    if len(lines) > ctx.budget(8000, 60000) and fr.outcome == "returned" and not frame_warned(fr) and len(fr.vectors) < 4:
        ctx.count("model-skipped:line-budget")      # plenty of plain quiet calls already; keep the unusual ones
        return
    items = [bits_vec(v) for v in fr.vectors]
    expect_exc = "ok"
    n_expected = len(fr.vectors)
    consumed = len(fr.vectors)
    if fr.outcome != "returned":
        if fr.logs and fr.logs[-1][0] in ("finished", "exceeded"):
            ctx.count("model-skipped:raised-after-loop")
            return
        if fr.init_raised:
            # (`init_solve` - a pre-processor unit, the creation of the profiles - raised before the loop was entered: the
            # model starts at the loop.  Only a unit solved on its own or as a sub-unit can get here.)
            ctx.count("model-skipped:raised-in-init_solve")
            return
        if _is_broadcast_error(fr.error) and fr.vectors and not fr.body_raised:
            expect_exc = "ValueError"          # the comparison itself raised: the model has to find that out
            n_expected -= 1
        else:
            expect_exc = fr.outcome if fr.outcome in MODEL_EXC else "Other"
            items.append("!" + fr.outcome)
            consumed += 1
    old = "N" if fr.old_before is None else bits_vec(fr.old_before)
    lines.append(f"solve {mi} {stub.bits(prec)} {old} {1 if fr.out_before is not None else 0} {';'.join(items) if items else '.'}")
    # keep only what the comparison needs (not the frame: it holds the unit and with it the whole sequence)
    real_created = None if fr.out_after is None else (fr.out_before is None or fr.out_after is not fr.out_before)
    light = {"unit": str(fr.unit), "warned": frame_warned(fr), "outcome": fr.outcome, "created": real_created,
             "fin": [n for (k, n, _) in fr.logs if k == "finished"], "old_after": fr.old_after}
    pending.append(("solve", light, (n_expected, expect_exc, consumed), rp))


def _same_vec(a, b):
    if a is None or b is None:
        return a is None and b is None
    return len(a) == len(b) and all(x == y or (x != x and y != y) for x, y in zip(a, b))


def compare_model(ctx, kind, ans, item):
    if kind == "handover":
        _, got, rp = item
        if ans == got:
            ctx.validated()
        else:
            ctx.disagreement(f"init_solve, public entries of the out profile afterwards: model {ans!r}, implementation {got!r}", rp)
        return
    if kind == "parts":
        _, (log, concat, cleared), rp = item
        t = ans.split()
        want = [",".join(log) or "-", ",".join(concat) or "-"]
        m_cleared = [] if len(t) != 3 or t[2] == "-" else t[2].split(",")
        if len(t) == 3 and t[:2] == want and m_cleared == cleared:
            ctx.validated()
        else:
            ctx.disagreement(f"{rp['pass_body']}: hosts evaluated / concatenated by get_root_hook_results, memos absent after "
                             f"reevaluate_cache: model {ans!r}, implementation {want} {cleared}", rp)
        return
    if kind == "memo":
        _, got, rp = item
        if ans == got:
            ctx.validated()
        else:
            ctx.disagreement(f"{rp['pass_body']}: input the memoised geometry was built from, per loop body: model {ans!r}, "
                             f"implementation {got!r}", rp)
        return
    if kind == "marks":
        _, got, rp = item
        if ans == got:
            ctx.validated()
        else:
            ctx.disagreement(f"nested hook reads on {rp['marks']['ni']} hook hosts, per read value|marks left: model {ans!r}, "
                             f"implementation {got!r}", rp)
        return
    if kind == "sub":
        _, got, rp = item
        if ans == got:
            ctx.validated()
        else:
            ctx.disagreement(f"_solve_subunits: model {ans!r}, implementation {got!r} (sub-units entered, outcome)", rp)
        return
    _, fr, (n_expected, expect_exc, consumed), rp = item
    t = ans.split()
    if len(t) != 7:
        ctx.disagreement(f"model answered {ans[:80]!r}", rp)
        return
    its, warned, exc, created, logged, old, used = t
    what = []
    if int(its) != n_expected:
        what.append(f"iterations: model {its}, implementation {n_expected}")
    if (warned == "1") != fr["warned"]:
        what.append(f"non-convergence warning: model {warned == '1'}, implementation {fr['warned']}")
    if exc != expect_exc:
        what.append(f"outcome: model {exc}, implementation {fr['outcome']}")
    if fr["created"] is not None and (created == "1") != fr["created"]:
        what.append(f"out profile created: model {created == '1'}, implementation {fr['created']}")
    fin = fr["fin"]
    if logged != "_" and (len(fin) != 1 or fin[0] != int(logged)):
        what.append(f"'Finished ... after N iterations': model N={logged}, implementation logged {fin}")
    if logged == "_" and fin:
        what.append(f"implementation logged 'Finished ... after {fin} iterations', the model says the loop was not left by break")
    m_old = None if old == "N" else ([] if old == "-" else [stub.unbits(x) for x in old.split(",")])
    if not _same_vec(m_old, fr["old_after"]):
        what.append(f"_old_results afterwards: model {m_old if m_old is None else m_old[:4]}, implementation "
                    f"{fr['old_after'] if fr['old_after'] is None else fr['old_after'][:4]}")
    if int(used) != consumed:
        what.append(f"loop bodies entered: model {used}, implementation {consumed}")
    if what:
        ctx.disagreement(f"{fr['unit']}: " + "; ".join(what), rp)
    else:
        ctx.validated()


# ---------------------------------------------------------------------------------------------------------------
# (B) real sequences: reproducibility, re-solve, fault + retry
# ---------------------------------------------------------------------------------------------------------------

CURATED = ("roll_force", "roll_torque", "power", "strain", "length", "t", "temperature", "flow_stress", "velocity",
           "strain_rate", "width", "surface_temperature", "core_temperature", "grain_size", "ring_temperatures", "temperature_field",
           "filling_ratio", "cross_section_filling_ratio")


def walk_units(u, path="S"):
    yield path, u
    for i, s in enumerate(getattr(u, "_subunits", None) or []):
        yield from walk_units(s, f"{path}.{i}")


def _numeric(v):
    import numpy as np
    from shapely.geometry import Polygon
    if isinstance(v, bool):
        return None
    if isinstance(v, (int, float, np.integer, np.floating)):
        return [float(v)]
    if isinstance(v, np.ndarray) and v.dtype.kind in "fiu":
        return [float(x) for x in v.ravel()]
    if isinstance(v, Polygon):
        return [float(x) for x in np.asarray(v.exterior.coords).ravel()]
    if isinstance(v, (list, tuple)) and v and all(isinstance(x, (int, float, np.integer, np.floating)) and not isinstance(x, bool)
                                                  for x in v):
        return [float(x) for x in v]           # (a vector-valued result kept as a python list)
    return None


def _put_host(snap, prefix, host):
    from shapely.geometry import Polygon
    for k, v in list(host.__dict__.items()):
        if k.startswith("_"):
            continue
        x = _numeric(v)
        if x is not None:
            snap[f"{prefix}.{k}"] = x
        if isinstance(v, Polygon) and k == "cross_section":
            b = v.bounds
            snap[f"{prefix}.cs.area"] = [float(v.area)]
            snap[f"{prefix}.cs.width"] = [float(b[2] - b[0])]
            snap[f"{prefix}.cs.height"] = [float(b[3] - b[1])]


def _read_roots(snap, prefix, host):
    """What a user reads after the solve: the values of the registered root hooks ("persisted results") of a host.  A unit
    that completed a loop body holds all of them explicitly (`evaluate_and_set_hooks` sets them or raises), so on such a
    host this is a plain read; only where one is NOT held explicitly the hook is asked for it (and, as for any user, the
    answer stays in the host's cache)."""
    from pyroll.core import root_hooks
    for h in list(root_hooks):
        key = f"{prefix}.{h.name}"
        if key in snap or not isinstance(host, h.owner) or h.name in host.__dict__:
            continue
        try:
            v = getattr(host, h.name)
        except Exception as e:
            if not _from_pyroll(e):
                raise
            continue
        x = _numeric(v)
        if x is not None:
            snap[key] = x


def snapshot(seq, ret, iterated=()):
    """every numeric value the solve left behind: unit attributes, roll, in/out profiles, the returned profile;
    `iterated`: ids of the units that completed at least one loop body in this run (their root hooks are read as a user
    reads them, see `_read_roots`)"""
    from pyroll.core import HookHost, Unit
    snap = {}
    for path, u in walk_units(seq):
        _put_host(snap, path, u)
        hosts = [(k, v) for k, v in list(u.__dict__.items())
                 if isinstance(v, HookHost) and not isinstance(v, Unit) and k not in ("in_profile", "out_profile")]
        hosts += [(side, getattr(u, side, None)) for side in ("in_profile", "out_profile")]
        for name, host in hosts:
            if host is not None:
                _put_host(snap, f"{path}.{name}", host)
        if id(u) in iterated:
            for name, host in [("", u)] + hosts:
                if host is not None:
                    _read_roots(snap, f"{path}.{name}" if name else path, host)
    if ret is not None:
        _put_host(snap, "returned", ret)
    return snap


def diff_bits(a, b):
    """first key on which two snapshots are not bit-identical (None when identical)"""
    for k in sorted(set(a) | set(b)):
        if k not in a or k not in b:
            return k, a.get(k), b.get(k)
        if not _same_vec(a[k], b[k]):
            return k, a[k][:4], b[k][:4]
    return None


def diff_frames(fa, fb):
    """the recorded solve calls of two runs: same units in the same order, bit-identical vectors, same log records"""
    if len(fa) != len(fb):
        return f"{len(fa)} solve calls vs {len(fb)}"
    for k, (x, y) in enumerate(zip(fa, fb)):
        if str(x.unit) != str(y.unit):
            return f"solve call {k}: {x.unit} vs {y.unit}"
        if len(x.vectors) != len(y.vectors):
            return f"solve call {k} ({x.unit}): {len(x.vectors)} iterations vs {len(y.vectors)}"
        for i, (v, w) in enumerate(zip(x.vectors, y.vectors)):
            if not _same_vec(v, w):
                j = next((j for j, (p, q) in enumerate(zip(v, w)) if not (p == q or (p != p and q != q))), -1)
                return f"solve call {k} ({x.unit}), iteration {i + 1}, component {j}: {v[j]!r} vs {w[j]!r}"
        if [(a, b) for a, b, _ in x.logs] != [(a, b) for a, b, _ in y.logs] or x.outcome != y.outcome:
            return f"solve call {k} ({x.unit}): log records / outcome {x.logs} {x.outcome} vs {y.logs} {y.outcome}"
    return None


def diff_within(a, b, tol):
    """curated physical quantities of two snapshots: (worst |x-y| / max(|x|,|y|), its key), first key missing on one side"""
    worst = (0.0, None)
    missing = None
    for k in sorted(set(a) | set(b)):
        if k.rsplit(".", 1)[-1] not in CURATED and not k.endswith((".cs.area", ".cs.width", ".cs.height")):
            continue
        if k not in a or k not in b or len(a[k]) != len(b[k]):
            # Only the returned profile must carry the same set of values.  Inside the sequence a value may be present
            # in one run only: e.g. the in profile a roll pass hands to its first disk element carries `velocity` from
            # the pass's second iteration on, and a second solve needs one iteration only.
            if k.startswith("returned."):
                missing = missing or k
            continue
        for x, y in zip(a[k], b[k]):
            m = max(abs(x), abs(y))
            if m == 0 or (x != x and y != y):
                continue
            r = abs(x - y) / m
            if not r <= worst[0]:
                worst = (r, k)
    return worst, missing


def marks_left(seq):
    """re-entrancy marks (`HookFunction._active_instances`) still set on any hook function of any class involved"""
    from pyroll.core import Hook
    out = []
    seen = set()
    hosts = []
    for _, u in walk_units(seq):
        hosts += [u, getattr(u, "roll", None), u.in_profile, u.out_profile]
    for h in hosts:
        if h is None:
            continue
        for cls in type(h).__mro__:
            for name, val in list(vars(cls).items()):
                if isinstance(val, Hook) and id(val) not in seen:
                    seen.add(id(val))
                    for store in (val._first_wrappers, val._wrappers, val._last_wrappers, val._first_functions,
                                  val._functions, val._last_functions):
                        for hf in store:
                            if hf._active_instances:
                                out.append(f"{cls.__qualname__}.{name}: {hf.qualname}")
    return out


def _from_pyroll(ex):
    import traceback
    e = ex
    while e is not None:
        if any("/pyroll/" in f.filename for f in traceback.extract_tb(e.__traceback__)):
            return True
        e = e.__cause__
    return False


def _root_cause(ex):
    while ex.__cause__ is not None:
        ex = ex.__cause__
    return ex


class Run:
    pass


def solve_rec(rec, seq, ip, expect_fault=False):
    """solve under the recorder; exceptions raised inside pyroll (or by an injected fault) are returned"""
    r = Run()
    r.seq, r.err, r.ret = seq, None, None
    try:
        r.ret = seq.solve(ip)
    except BaseException as e:
        if isinstance(e, (KeyboardInterrupt, SystemExit, MemoryError)):
            raise
        if not expect_fault and not _from_pyroll(e):
            raise
        r.err = e
    r.frames = rec.take()
    rec.stack.clear()
    r.snap = snapshot(seq, r.ret, {id(f.unit) for f in r.frames if f.vectors}) if r.err is None else None
    r.warned = any(frame_warned(f) for f in r.frames)
    return r


def check_frames(ctx, case, frames, lines, pending, tag):
    for k, fr in enumerate(frames):
        count_frame(ctx, fr, "real")
        for key, what in check_frame(fr):
            report(ctx, key, f"[{tag}] {what}", {"case": case, "run": tag})
        add_model_line(ctx, fr, lines, pending, {"case": case, "run": tag, "call": k, "unit": str(fr.unit)})


def limits_of(fr):
    if getattr(fr, "limits", None) is None:
        fr.limits = frame_limits(fr)
    return fr.limits


def max_prec(frames):
    ps = [limits_of(f)[1] for f in frames]
    ps = [p for p in ps if p is not None]
    return max(ps) if ps else None


def _is_handed_down_velocity(key, seq):
    """`<path of a sub-unit of a roll pass>.(in_profile|out_profile).velocity`"""
    from pyroll.core import BaseRollPass
    if key is None or not key.endswith((".in_profile.velocity", ".out_profile.velocity")):
        return False
    path = key.rsplit(".", 2)[0]
    for p, u in walk_units(seq):
        if p == path:
            par = getattr(u, "parent", None)
            return isinstance(par, BaseRollPass)
    return False


def check_within(ctx, case, key, what, a, b, frames):
    """a, b: two completed runs that ended without any non-convergence warning"""
    prec = max_prec(frames)
    if prec is None:
        return
    (r, k), missing = diff_within(a.snap, b.snap, None)
    if missing:
        report(ctx, key, f"{what}: value {missing} present in only one of the two results", {"case": case})
        return
    if r / prec > WITHIN_K and _is_handed_down_velocity(k, a.seq):
        # INFORMATIONAL (finding 3 of notes/C05.md; same mechanism as the presence-in-one-run-only case in `diff_within`): the
        # `velocity` entry in the profiles of the DISK ELEMENTS of a roll pass is not computed by them but handed down from the
        # pass's in profile - which carries the predecessor's velocity during the pass's first loop body and the pass's own
        # (root hook InProfile.velocity) from the second on.  Which of the two the disk elements are left with depends only
        # on whether the pass's last solve call needed one loop body or more; nothing else in the sequence depends on it.
        # Counted and shown in the evidence; every other value is compared as before.
        ctx.count("info:disk-element-velocity-depends-on-iteration-count")
        ctx.notes["info-disk-element-velocity"] = {"what": key, "value": k, "relative": round(r, 4), "prec": prec}
        # By the letter of C05 ("solving the same sequence again gives results within the precision") this IS a value left in
        # the sequence that a second solve does not reproduce: it is reported under its own specific key (listed in
        # KNOWN_FINDINGS.txt as a recorded, unrepaired finding), so that every other deviation still alarms under `key`.
        report(ctx, "disk-element-velocity-depends-on-iteration-count",
               f"{what}: {k} differs by {r:.3g} relative = {r / prec:.3g} x the iteration precision {prec:g}: the velocity entry handed "
               f"down to the disk elements of a roll pass is the predecessor's after a solve call of one loop body and the pass's "
               f"own after a longer one", {"case": case, "under": key})
        skip = {x for x in set(a.snap) | set(b.snap) if _is_handed_down_velocity(x, a.seq)}
        (r, k), _ = diff_within({x: v for x, v in a.snap.items() if x not in skip},
                                {x: v for x, v in b.snap.items() if x not in skip}, None)
    ratio = r / prec
    if ratio > ctx.notes.get("within-ratio-max", 0.0):
        ctx.notes["within-ratio-max"] = ratio
        ctx.notes["within-ratio-max-at"] = {"what": key, "value": k, "prec": prec, "models": case["models"], "max_iter": case["max_iter"],
                                            "via": case["via"], "units": len(case["units"])}
    if ratio > WITHIN_K:
        report(ctx, key, f"{what}: {k} differs by {r:.3g} relative = {ratio:.3g} x the iteration precision {prec:g} "
               f"(allowed {WITHIN_K:g} x)", {"case": case})


def run_case(ctx, case, lines, pending):
    ctx.count("real-cases")
    fault = dict(case.get("fault") or {})
    inj = {"hook": fault.get("hook", "unit.power"), "type": fault.get("type", "ValueError"), "k": None}
    with Registered(case, inj) as reg, Recorder() as rec:
        def ip(without=None, extra=None):
            return build_in_profile(case["in"], without, extra)
        try:
            A = build_sequence(case)
        except Exception as e:
            if not _from_pyroll(e):
                raise
            ctx.count("unbuildable:" + type(e).__name__)
            return
        C = copy.deepcopy(A)
        a1 = solve_rec(rec, A, ip())
        counts = dict(reg.counts)
        if a1.err is not None:
            ctx.count("unsolvable:" + type(_root_cause(a1.err)).__name__)
            ctx.case(_canon(case), nontrivial=False)
            return
        ctx.case(_canon(case), nontrivial=any(len(f.vectors) >= 3 for f in a1.frames))
        ctx.count("units:%d" % len(case["units"]))
        for m in case["models"] or ["none"]:
            ctx.count("model:" + m)
        ctx.count(f"prec:{case['prec']:g}")
        ctx.count(f"max_iter:{case['max_iter']}")
        ctx.count("via:" + case["via"])
        for path, u in walk_units(A):
            ctx.count("unit-type:" + type(u).__qualname__)
        check_frames(ctx, case, a1.frames, lines, pending, "fresh")
        check_marks(ctx, case, reg, A, "fresh")
        if a1.warned:
            ctx.count("run-warned")
        ctx.sample({"units": [u["type"] + (":" + u["groove"] if "groove" in u else "") for u in case["units"]],
                    "in": case["in"]["kind"], "models": sorted(case["models"]), "prec": case["prec"], "max_iter": case["max_iter"],
                    "via": case["via"], "solve_calls": len(a1.frames), "max_iterations_of_a_unit": max(len(f.vectors) for f in a1.frames),
                    "warned_units": sum(1 for f in a1.frames if frame_warned(f))}, limit=4)
        # ---- an identical fresh sequence, and a deep copy taken before solving: bit-identical
        for tag, seq in (("fresh-2", build_sequence(case)), ("deepcopy", C)):
            b = solve_rec(rec, seq, ip())
            d = ("raised " + repr(b.err)) if b.err is not None else (diff_frames(a1.frames, b.frames) or diff_bits(a1.snap, b.snap))
            if d:
                report(ctx, f"{tag}-differs-from-fresh", f"identical {tag} sequence, same input: {d}", {"case": case})
            check_frames(ctx, case, b.frames, [], [], tag)
        # ---- solve the same sequence again; a deep copy of the SOLVED sequence does the same
        D = copy.deepcopy(A)
        a2 = solve_rec(rec, A, ip())
        d2 = solve_rec(rec, D, ip())
        check_frames(ctx, case, a2.frames, lines, pending, "resolve")
        if a2.err is not None:
            # (when the first solve ended with warnings the second one continues an iteration that did not converge - it
            # may well run into trouble a single solve does not reach; nothing is claimed then)
            if not a1.warned:
                report(ctx, "resolve-raises", f"second solve of the same sequence raised {a2.err!r}", {"case": case})
            else:
                ctx.count("resolve-raised-after-warned-solve")
        else:
            d = ("raised " + repr(d2.err)) if d2.err is not None else (diff_frames(a2.frames, d2.frames) or diff_bits(a2.snap, d2.snap))
            if d:
                report(ctx, "deepcopy-of-solved-differs", f"deep copy of the solved sequence, solved again like the original: {d}",
                       {"case": case})
            if not a1.warned and not a2.warned:
                check_within(ctx, case, "resolve-not-within-precision", "second solve of the same sequence vs the first",
                             a1, a2, a1.frames + a2.frames)
                ctx.count("resolve-compared")
            check_marks(ctx, case, reg, A, "resolve")
        # ---- OTHER sequences solved in the same process (same registered implementations) in between: "an identical fresh
        # sequence solved with the same input gives identical results, solving the same sequence again gives results within
        # the precision" - whatever else the process has solved meanwhile (state left behind in the hook machinery, in
        # class-level memos, in the logging set-up ... by an earlier solve is exactly what `reproducible` excludes)
        if case.get("others") and a2.err is None:
            for j, other in enumerate(case["others"]):
                # (a list of units, or {"units": ..., "in_without": name of a value its incoming profile does not carry})
                oc = dict(case, units=other["units"] if isinstance(other, dict) else other)
                oc.pop("alone", None)
                without = other.get("in_without") if isinstance(other, dict) else None
                try:
                    O = build_sequence(oc)
                except Exception as e:
                    if not _from_pyroll(e):
                        raise
                    ctx.count("other-unbuildable:" + type(e).__name__)
                    continue
                o1 = solve_rec(rec, O, ip(without=without))
                ctx.count("other-solved" if o1.err is None else "other-unsolvable:" + type(_root_cause(o1.err)).__name__)
                check_frames(ctx, case, o1.frames, lines, pending, f"other-{j}")
                check_marks(ctx, case, reg, O, f"other-{j}")
            B = build_sequence(case)
            b1 = solve_rec(rec, B, ip())
            d = ("raised " + repr(b1.err)) if b1.err is not None else (diff_frames(a1.frames, b1.frames) or diff_bits(a1.snap, b1.snap))
            if d:
                report(ctx, "fresh-after-other-differs-from-fresh", "identical fresh sequence, same input, solved after other "
                       f"sequences had been solved in the same process: {d}", {"case": case})
            check_frames(ctx, case, b1.frames, [], [], "fresh-after-other")
            a3 = solve_rec(rec, A, ip())
            check_frames(ctx, case, a3.frames, lines, pending, "resolve-after-other")
            if a3.err is not None:
                if not a1.warned and not a2.warned:
                    report(ctx, "resolve-after-other-raises", f"the sequence solved twice before, solved again after other sequences "
                           f"had been solved in the same process, raised {a3.err!r}", {"case": case})
            elif not a1.warned and not a2.warned and not a3.warned:
                check_within(ctx, case, "resolve-after-other-not-within-precision", "the same sequence solved again after other "
                             "sequences had been solved in the same process vs its previous solve", a2, a3, a2.frames + a3.frames)
                ctx.count("resolve-after-other-compared")
            check_marks(ctx, case, reg, A, "resolve-after-other")
        # ---- the same sequence solved again with a CHANGED incoming profile vs a fresh sequence with that profile.
        # INFORMATIONAL, never a violation: the statement speaks of "the same input" and of "solving the same sequence again";
        # that a USED sequence given ANOTHER input ends like a fresh one is claimed only after an abort (where removing the
        # cause may mean changing the input - `after_abort`).  The solve calls are still checked one by one (bounded,
        # honest) and fed to the model.  On the unrepaired tree the comparison fails by 20 % (stale entries of the re-used
        # out profiles, finding 2 of notes/C05.md); on the repaired one what remains is iteration-count dependent content
        # (e.g. the `velocity` a roll pass hands to its disk elements is the predecessor's in the pass's first loop body
        # and its own afterwards, and a used pass that has to iterate again ends on the other one).
        if case.get("second_input") and not a1.warned and not a2.warned and a2.err is None:
            spec2 = dict(case["in"])
            spec2.update(case["second_input"])
            g1 = solve_rec(rec, A, build_in_profile(spec2))
            g2 = solve_rec(rec, build_sequence(case), build_in_profile(spec2))
            check_frames(ctx, case, g1.frames, lines, pending, "resolve-new-input")
            if g1.err is None and g2.err is None and not g1.warned and not g2.warned:
                ctx.count("info:new-input-compared")
                prec = max_prec(g1.frames + g2.frames)
                (r, k), missing = diff_within(g1.snap, g2.snap, None)
                (rr, kr), _ = diff_within({k_: v for k_, v in g1.snap.items() if k_.startswith("returned.")},
                                          {k_: v for k_, v in g2.snap.items() if k_.startswith("returned.")}, None)
                if prec is not None and rr > WITHIN_K * prec:
                    ctx.count("info:new-input-returned-profile-differs-from-fresh")
                if prec is not None and (missing or r > WITHIN_K * prec):
                    ctx.count("info:new-input-differs-from-fresh")
                    if r / prec > ctx.notes.get("info-new-input-ratio-max", 0.0):
                        ctx.notes["info-new-input-ratio-max"] = round(r / prec, 3)
                        ctx.notes["info-new-input-ratio-max-at"] = {"value": k, "second_input": case["second_input"], "prec": prec}
            elif (g1.err is None) != (g2.err is None):
                ctx.count("info:new-input-raises-on-one-side")
        # ---- fault, then remove the cause and solve again
        if fault.get("missing"):
            E = build_sequence(case)
            e1 = solve_rec(rec, E, ip(without=fault["missing"]))
            if e1.err is None:
                ctx.count("fault:missing-value-not-needed")
            else:
                ctx.count("fault:missing-" + fault["missing"])
                after_abort(ctx, case, rec, E, e1, a1, ip, lines, pending)
        elif fault.get("extra"):
            E = build_sequence(case)
            e1 = solve_rec(rec, E, ip(extra=fault["extra"]), expect_fault=True)
            if e1.err is None:
                ctx.count("fault:bad-value-not-used")
            else:
                ctx.count("fault:bad-value-" + "-".join(sorted(fault["extra"])))
                after_abort(ctx, case, rec, E, e1, a1, ip, lines, pending)
        elif any(counts.values()):
            if not counts.get(inj["hook"]):
                inj["hook"] = next(h for h in FAULT_HOOKS if counts[h])      # the wanted hook is not evaluated in this sequence
            n_calls = counts[inj["hook"]]
            k = 1 + int(fault.get("u", 0.0) * n_calls) if fault.get("k") is None else fault["k"]
            k = min(max(k, 1), n_calls)
            E = build_sequence(case)
            for h in reg.counts:
                reg.counts[h] = 0
            reg.fault["k"] = k
            e1 = solve_rec(rec, E, ip(), expect_fault=True)
            reg.fault["k"] = None
            ctx.count("fault:" + inj["type"])
            ctx.count("fault-hook:" + inj["hook"])
            if e1.err is None:
                ctx.count("fault:swallowed")       # e.g. an AttributeError inside has_value(): the solve was not aborted
                check_frames(ctx, case, e1.frames, [], [], "fault-swallowed")
            else:
                root = _root_cause(e1.err)
                if "injected fault" not in str(root):
                    ctx.count("fault:other-root-cause")
                after_abort(ctx, case, rec, E, e1, a1, ip, lines, pending)
        else:
            ctx.count("fault:no-hook-called")
        # ---- a solve aborted because of the INCOMING STATE: the stock is too large - some unit genuinely refuses it (over-width
        # ValueError of the core ...) or a model with a validity range on a LATER unit does, after the units before it have been
        # solved with the oversized stock -; the cause is removed upstream (the stock the case was made for) and the same
        # sequence solved again: "... leaves the sequence usable, so that once the cause is removed it solves to the same
        # results as a fresh one" (= `a1`)
        f2 = case.get("fault2") or {}
        if f2.get("oversize") and not a1.warned:
            spec_big = dict(case["in"], size=round(case["in"]["size"] * f2["oversize"], 6))
            G = build_sequence(case)
            g = solve_rec(rec, G, build_in_profile(spec_big))
            if g.err is not None:
                ctx.count("fault:oversize-refused-by-core:" + type(_root_cause(g.err)).__name__)
                after_abort(ctx, case, rec, G, g, a1, ip, lines, pending, reg=reg, tag="oversize")
            else:
                labels = [u.label for _, u in walk_units(G)]
                cands = []
                for path, u in list(walk_units(G))[2:]:
                    k = f"{path}.in_profile.cs.area"
                    if labels.count(u.label) == 1 and k in a1.snap and k in g.snap and g.snap[k][0] > 1.02 * a1.snap[k][0] > 0:
                        cands.append((u.label, math.sqrt(g.snap[k][0] * a1.snap[k][0])))
                if not cands:
                    ctx.count("fault:oversize-no-later-unit")
                else:
                    label, thr = cands[min(int(f2.get("u", 0.0) * len(cands)), len(cands) - 1)]
                    reg.guard = {"label": label, "thr": thr}
                    try:
                        E = build_sequence(case)
                        e1 = solve_rec(rec, E, build_in_profile(spec_big), expect_fault=True)
                        if e1.err is None:
                            ctx.count("fault:oversize-accepted")
                        else:
                            ctx.count("fault:oversize-refused-by-model")
                            after_abort(ctx, case, rec, E, e1, a1, ip, lines, pending, reg=reg, tag="oversize")
                    finally:
                        reg.guard = None


def _marks_of(hf):
    """the re-entrancy marks of one hook function (`None`: the store is not where the harness looks for it)"""
    m = getattr(hf, "_active_instances", None)
    return m if isinstance(m, (set, frozenset, list, tuple, dict)) else None


def check_marks(ctx, case, reg, seq, tag):
    """K, `solve_leaves_no_mark`: the model says that a completed solve leaves no re-entrancy mark on any hook function -
    compared on the registered implementations that read their own hook on other instances (if any) and on every hook
    function (the core's own among them: `Unit.length`, `Unit.duration`, `Transport.length`, the roll's velocities take
    `cycle`) of the classes involved"""
    left = [f"{hf.qualname} ({len(_marks_of(hf) or ())})" for hf in reg.cyclers if _marks_of(hf)] + marks_left(seq)
    ctx.count("marks-after-solve")
    if left:
        ctx.disagreement(f"[{tag}] re-entrancy marks after a completed solve: model none (solve_leaves_no_mark), implementation "
                         f"{sorted(set(left))[:4]}", {"case": case, "run": tag})
    else:
        ctx.validated()


def _without_plugin_start_values(H, roots):
    """drops, from every hook host of the (aborted) sequence `H`, the explicit values of the root hooks the HARNESS registered"""
    from pyroll.core import HookHost, Unit
    n = 0
    for _, u in walk_units(H):
        hosts = [u] + [v for v in list(u.__dict__.values()) if isinstance(v, HookHost) and not isinstance(v, Unit)]
        for host in hosts:
            for hk in roots:
                if isinstance(host, hk.owner) and hk.name in host.__dict__:
                    del host.__dict__[hk.name]
                    n += 1
    return n


def after_abort(ctx, case, rec, E, e1, a1, ip, lines, pending, reg=None, tag=None):
    pre = "" if tag is None else tag + "-"
    check_frames(ctx, case, e1.frames, lines, pending, pre + "aborted")
    left = marks_left(E)
    if left:
        report(ctx, "mark-left-after-abort", f"after the aborted solve ({e1.err!r}) re-entrancy marks are still set: {left[:3]}",
               {"case": case})
    F = copy.deepcopy(E)
    H = copy.deepcopy(E) if reg is not None and reg.roots else None
    e2 = solve_rec(rec, E, ip())
    f2 = solve_rec(rec, F, ip())
    check_frames(ctx, case, e2.frames, lines, pending, pre + "retry")
    if e2.err is not None and a1.warned:
        ctx.count("retry-raised-where-fresh-solve-warned")      # not converging anyway: nothing is claimed
        return
    if e2.err is not None and isinstance(_root_cause(e2.err), ValidityRange):
        # (the harness's own model with a validity range refused an intermediate state of the retry: a fresh sequence with that
        # model registered is not known to get through either - nothing is claimed)
        ctx.count("retry-refused-by-validity-range-model")
        return
    if e2.err is not None and H is not None and _without_plugin_start_values(H, reg.roots):
        # Diagnosis by experiment: the same aborted sequence (deep copy) solves like a fresh one as soon as the values the
        # PLUG-IN root hooks persisted in the aborted iteration are discarded -> the retry failed on exactly those start values
        # (recorded finding 7 of notes/C05.md: reported under its own key, every other failing retry under the general one).
        h2 = solve_rec(rec, H, ip())
        if h2.err is None:
            # (the experiment's outcome that matters is that the RAISE disappears; whether that solve converges within the
            # iteration limit of the case is another matter - quick seed 8: precision 0.1, limit 5, the experiment's solve warned
            # and the listed finding was reported under the general key)
            if True:
                root = _root_cause(e2.err)
                report(ctx, "retry-raises-on-plugin-root-value-of-aborted-iterate",
                       f"solve aborted by {_root_cause(e1.err)!r}; cause removed; the next solve of the same sequence raised "
                       f"{type(e2.err).__name__}: {e2.err} <- {type(root).__name__}: {root}; with the values persisted by the "
                       f"plug-in root hooks {sorted({h.name for h in reg.roots})} in the aborted iteration discarded it solves "
                       f"like a fresh sequence", {"case": case})
                return
    if e2.err is not None and reg is not None and any(h.name == "width" for h in reg.roots) \
            and "width can not be larger than its contour lines" in str(_root_cause(e1.err)) \
            and "width can not be larger than its contour lines" in str(_root_cause(e2.err)):
        # the call site of the listed finding 7 (the experiment above did not isolate it: other values persisted by the aborted
        # iteration - the out cross-section built from the over-wide width - keep the retry over-wide as well): a spread model's
        # `width` plugged in as ROOT hook, the first solve aborted by the core's over-width error, the retry aborted by the same
        root = _root_cause(e2.err)
        report(ctx, "retry-raises-on-plugin-root-value-of-aborted-iterate",
               f"solve aborted by {_root_cause(e1.err)!r}; cause removed; the next solve of the same sequence raised "
               f"{type(e2.err).__name__}: {e2.err} <- {type(root).__name__}: {root} (width is a plug-in ROOT hook: its over-wide value "
               f"persisted by the aborted iteration is the start value of the retry)", {"case": case})
        return
    if e2.err is not None:
        root = _root_cause(e2.err)
        report(ctx, "retry-after-abort-raises", f"solve aborted by {_root_cause(e1.err)!r}; cause removed; the next solve of the same "
               f"sequence raised {type(e2.err).__name__}: {e2.err} <- {type(root).__name__}: {root}", {"case": case})
        return
    d = ("raised " + repr(f2.err)) if f2.err is not None else (diff_frames(e2.frames, f2.frames) or diff_bits(e2.snap, f2.snap))
    if d:
        report(ctx, "deepcopy-of-aborted-differs", f"deep copy of the aborted sequence, solved like the original: {d}", {"case": case})
    left = marks_left(E)
    if left:
        report(ctx, "mark-left-after-retry", f"re-entrancy marks still set after the retry: {left[:3]}", {"case": case})
    if not a1.warned and not e2.warned:
        check_within(ctx, case, "retry-differs-from-fresh", f"solve aborted by {_root_cause(e1.err)!r}, cause removed, solved again "
                     "vs a fresh sequence", a1, e2, a1.frames + e2.frames)
        ctx.count("retry-compared")


# ---------------------------------------------------------------------------------------------------------------
# generated comparison / constants vs numpy and the real defaults
# ---------------------------------------------------------------------------------------------------------------

def within_lines(ctx, n):
    import numpy as np
    rng = ctx.rng
    special = [0.0, -0.0, 1.0, -1.0, 1.5, 2.0, float("nan"), float("inf"), float("-inf"), 1e-300, 1e300, 5e-324]
    lines, expect = [], []
    for i in range(n):
        if i < 40:
            p = rng.choice([0.5, 1e-3, 0.0, 1e-9])
            c, o = rng.choice(special), rng.choice(special)
        else:
            p = rng.choice(PRECS + [0.5, 0.25])
            o = rng.choice([-1, 1]) * 10 ** rng.uniform(-8, 8)
            c = o * (1 + rng.choice([-1, 1]) * p * rng.choice([0.5, 0.999999999, 1.0, 1.000000001, 2.0, 1e3]))
            if rng.random() < 0.2:
                o = 2.0 ** rng.randrange(-5, 6)
                p = 2.0 ** -rng.randrange(1, 12)
                c = o * (1 + rng.choice([-1, 1]) * p)
        with np.errstate(all="ignore"):
            real = bool(np.all(np.abs(np.array([c]) - np.array([o])) <= np.abs(np.array([o])) * p))
        lines.append(f"within {stub.bits(p)} {stub.bits(c)} {stub.bits(o)}")
        expect.append((p, c, o, real))
    return lines, expect


def check_consts(ctx, ans):
    from pyroll.core import Unit
    u = Unit()
    real = (float(u.iteration_precision), int(u.max_iteration_count))
    t = ans.split()
    ok = len(t) == 5 and stub.unbits(t[0]) == real[0] and int(t[1]) == real[1]
    if ok:
        ctx.validated()
    else:
        ctx.disagreement(f"defaults: model {ans!r}, a plain Unit has iteration_precision={real[0]!r}, max_iteration_count={real[1]!r}", {})


# ---------------------------------------------------------------------------------------------------------------

CORPUS = [
    # recorded finding `disk-element-velocity-depends-on-iteration-count` (KNOWN_FINDINGS.txt, notes/C05.md observation 3): the
    # velocity entry handed down to the disk elements of the last pass is not reproduced by a second solve with the same input
    {"in": {"kind": "box", "size": 0.03031, "length": 2.5, "strain": 0.3, "temperature": 1323.15}, "units": [{"type": "seq", "units": [{"type": "pass", "groove": "box", "scale": 1.0, "j": [0.932, 1.089], "gap": 0.658, "disks": 4, "sprung": True}, {"type": "transport", "disks": 3, "duration": 0.214}]}, {"type": "pass", "groove": "round", "scale": 0.8, "j": [0.901, 1.033], "gap": 1.094, "disks": 4, "sprung": True}, {"type": "seq", "units": [{"type": "pass", "groove": "oval", "scale": 0.64, "j": [0.932, 0.968], "gap": 0.962, "disks": 2, "sprung": True}, {"type": "transport", "disks": 0, "duration": 1.353}]}, {"type": "pass", "groove": "round", "scale": 0.64, "j": [1.024, 1.129], "gap": 1.17, "disks": 3, "sprung": True}], "models": {"flow_stress": {"beta": 0}, "gap": {"k": 300000000.0}, "roll": {"hook": "core_temperature", "w": 0.6, "dT": 40.0, "used": True, "h": 0.02}}, "prec": 0.001, "max_iter": 100, "via": "config", "fault": {"hook": "unit.out.length", "type": "RuntimeError", "u": 0.635219}},
    # the layout of tests/test_solve.py (flow-stress model), disk elements, default limits
    {"in": {"kind": "round", "size": 30e-3, "length": 1, "strain": 0}, "models": {"flow_stress": {"beta": 0}},
     "units": [{"type": "pass", "groove": "oval", "scale": 1.0, "disks": 3},
               {"type": "transport", "duration": 1, "disks": 2},
               {"type": "pass", "groove": "round", "scale": 1.0, "disks": 0},
               {"type": "transport", "duration": 1, "disks": 0},
               {"type": "pass", "groove": "oval", "scale": 0.8, "disks": 0}],
     "prec": 1e-3, "max_iter": 100, "via": "config", "fault": {"hook": "pass.roll_force", "type": "ZeroDivisionError", "u": 0.55}},
    # a value missing on the incoming profile aborts the first solve; the retry gets the complete profile
    {"in": {"kind": "round", "size": 30e-3, "length": 1, "strain": 0, "flow_stress": 100e6}, "models": {},
     "units": [{"type": "pass", "groove": "oval", "scale": 1.0, "disks": 0},
               {"type": "transport", "duration": 1, "disks": 0},
               {"type": "pass", "groove": "round", "scale": 1.0, "disks": 0}],
     "prec": 1e-3, "max_iter": 100, "via": "config", "fault": {"missing": "flow_stress"},
     "second_input": {"flow_stress": 80e6}},
    # an explicit unusable value on the incoming profile shadows the flow-stress model and aborts the first solve; the retry
    # gets the profile without it (fewer entries than the aborted one)
    {"in": {"kind": "round", "size": 30e-3, "length": 1, "strain": 0}, "models": {"flow_stress": {"beta": 0}},
     "units": [{"type": "pass", "groove": "oval", "scale": 1.0, "disks": 0},
               {"type": "transport", "duration": 1, "disks": 2},
               {"type": "pass", "groove": "round", "scale": 1.0, "disks": 0}],
     "prec": 1e-3, "max_iter": 100, "via": "config", "fault": {"extra": {"flow_stress": "not-a-number"}}},
    # thermally coupled feedback (force -> temperature -> flow stress -> force), tight precision, nested sequence
    {"in": {"kind": "square", "size": 30e-3, "length": 2.5, "strain": 0.3},
     "models": {"flow_stress": {"beta": 4e-3}, "temperature": {"dT": 150.0}},
     "units": [{"type": "pass", "groove": "oval", "scale": 1.0, "disks": 0, "rotation": False},
               {"type": "pipe", "duration": 0.5, "disks": 1},
               {"type": "seq", "units": [{"type": "rotator", "rotation": 90},
                                         {"type": "pass", "groove": "round", "scale": 1.0, "disks": 2}]}],
     "prec": 1e-7, "max_iter": 100, "via": "kwargs", "fault": {"hook": "unit.out.t", "type": "Interrupt", "u": 0.8},
     "second_input": {"temperature": 1100 + 273.15}},
    # three-roll line, spread model absent, iteration limit 3 (warnings), fault in the roll torque
    {"in": {"kind": "round", "size": 55e-3, "length": 1, "strain": 0, "flow_stress": 100e6}, "models": {},
     "units": [{"type": "pass", "groove": "oval", "scale": 1.0, "three": True, "disks": 2},
               {"type": "transport", "duration": 1, "disks": 3},
               {"type": "pass", "groove": "round", "scale": 2.0, "three": True, "disks": 0}],
     "prec": 1e-5, "max_iter": 3, "via": "config", "fault": {"hook": "roll.roll_torque", "type": "KeyError", "u": 0.3}},
    # limits 1 and 2: nothing / one iteration runs, warnings everywhere, a profile is still returned
    {"in": {"kind": "round", "size": 30e-3, "length": 1, "strain": 0, "flow_stress": 100e6}, "models": {"width": {"e": -0.5}},
     "units": [{"type": "pass", "groove": "oval", "scale": 1.0, "disks": 1}],
     "prec": 1e-3, "max_iter": 1, "via": "config", "fault": {"hook": "unit.power", "type": "ValueError", "u": 0.0}},
    {"in": {"kind": "round", "size": 30e-3, "length": 1, "strain": 0, "flow_stress": 100e6}, "models": {"width": {"e": -0.5}},
     "units": [{"type": "pass", "groove": "oval", "scale": 1.0, "disks": 1}, {"type": "transport", "length": 2.0, "disks": 0}],
     "prec": 1e-3, "max_iter": 2, "via": "kwargs", "fault": {"hook": "unit.power", "type": "TypeError", "u": 0.5}},
    # a roll pass solved on its own (no sequence whose outer iteration would repeat it) whose GAP is a result: mill spring
    {"in": {"kind": "square", "size": 30e-3, "length": 2.5, "strain": 0}, "models": {"flow_stress": {"beta": 0}, "gap": {"k": 5e8}},
     "units": [{"type": "pass", "groove": "box", "scale": 1.0, "disks": 0, "sprung": True, "gap": 1.2}], "alone": True,
     "prec": 1e-4, "max_iter": 100, "via": "kwargs", "fault": {"hook": "pass.out.strain", "type": "KeyError", "u": 0.7}},
    # a three-roll pass on its own with a result persisted on its ROLL (a hook the core has no implementation of, registered
    # as root hook, under-relaxed) that nothing else reads ...
    {"in": {"kind": "round", "size": 60e-3, "length": 1, "strain": 0, "flow_stress": 80e6},
     "models": {"roll": {"hook": "core_temperature", "w": 0.6, "dT": 40.0, "used": False, "h": 0.02}},
     "units": [{"type": "pass", "groove": "oval", "scale": 1.0, "three": True, "disks": 0}], "alone": True,
     "prec": 1e-3, "max_iter": 100, "via": "config", "fault": {"hook": "roll.roll_torque", "type": "ZeroDivisionError", "u": 0.2}},
    # ... and in a sequence, weakly used by the pass (the roll chills the workpiece), tight precision
    {"in": {"kind": "round", "size": 60e-3, "length": 1, "strain": 0},
     "models": {"flow_stress": {"beta": 2e-3}, "roll": {"hook": "surface_temperature", "w": 0.5, "dT": 80.0, "used": True, "h": 0.002}},
     "units": [{"type": "transport", "duration": 2, "disks": 0},
               {"type": "pass", "groove": "oval", "scale": 1.0, "three": True, "disks": 2},
               {"type": "pipe", "duration": 1, "disks": 1}],
     "prec": 1e-5, "max_iter": 100, "via": "kwargs", "fault": {"hook": "unit.power", "type": "Interrupt", "u": 0.6}},
    # model implementations that read their OWN hook on a neighbouring object (nested evaluations of one hook function on
    # other instances): transports without an ambient temperature take that of the transport AFTER them (20 K warmer per
    # section; the downstream neighbour has not been evaluated when the first one asks, so the calls nest); the line itself
    # nests one level deep, another line solved in between three levels
    {"in": {"kind": "round", "size": 30e-3, "length": 1, "strain": 0, "flow_stress": 100e6},
     "models": {"neigh": {"kind": "ambient", "dir": "next", "a": 1.0, "b": 20.0, "rate": 0.05}},
     "units": [{"type": "transport", "duration": 1.5, "disks": 0},
               {"type": "transport", "duration": 2, "disks": 0, "env": 600.0},
               {"type": "pass", "groove": "oval", "scale": 1.0, "disks": 0},
               {"type": "transport", "duration": 1, "disks": 2, "env": 350.0},
               {"type": "pass", "groove": "round", "scale": 1.0, "disks": 0}],
     "others": [[{"type": "pass", "groove": "oval", "scale": 1.0, "disks": 0},
                 {"type": "transport", "duration": 0.5, "disks": 0},
                 {"type": "transport", "duration": 0.5, "disks": 1},
                 {"type": "transport", "duration": 2, "disks": 0},
                 {"type": "pipe", "duration": 1, "disks": 0, "env": 450.0},
                 {"type": "pass", "groove": "round", "scale": 1.0, "disks": 0}]],
     "prec": 1e-3, "max_iter": 100, "via": "config", "fault": {"hook": "unit.out.t", "type": "ValueError", "u": 0.4}},
    # ... and profiles without a grain size take it from the profile before them (out profile <- in profile <- out profile of
    # the unit before / in profile of the parent; refined by every pass), the grain size being a persisted result; nested
    # sequence, disk elements (their profiles ask on to the pass's in profile: three levels)
    {"in": {"kind": "square", "size": 30e-3, "length": 1, "strain": 0},
     "models": {"flow_stress": {"beta": 0}, "neigh": {"kind": "grain", "a": 0.8, "b": 1e-6, "root": 50e-6}},
     "units": [{"type": "pass", "groove": "oval", "scale": 1.0, "disks": 0, "rotation": False}],
     "others": [[{"type": "pass", "groove": "oval", "scale": 1.0, "disks": 2, "rotation": False},
                 {"type": "seq", "units": [{"type": "transport", "duration": 1, "disks": 0},
                                           {"type": "pass", "groove": "round", "scale": 1.0, "disks": 0}]}]],
     "prec": 1e-4, "max_iter": 100, "via": "kwargs", "fault": {"hook": "pass.roll_force", "type": "KeyError", "u": 0.5}},
    # a plug-in result that is VECTOR valued (temperatures of six concentric rings of the leaving profile: a hook declared by the
    # plug-in on the out profile of the roll passes, registered as root hook) and feeds back into itself, under-relaxed, settling
    # far more slowly than the scalar results: a pass on its own ...
    {"in": {"kind": "round", "size": 30e-3, "length": 1, "strain": 0, "flow_stress": 100e6},
     "models": {"field": {"host": "out", "n": 6, "w": 0.35, "as": "array", "used": False, "dT": 40.0, "g": 1.0}},
     "units": [{"type": "pass", "groove": "oval", "scale": 1.0, "disks": 0}], "alone": True,
     "prec": 1e-3, "max_iter": 100, "via": "config", "fault": {"hook": "pass.out.strain", "type": "ValueError", "u": 0.5}},
    # ... with a limit too low for it to settle (must warn) ...
    {"in": {"kind": "round", "size": 30e-3, "length": 1, "strain": 0, "flow_stress": 100e6},
     "models": {"field": {"host": "out", "n": 3, "w": 0.35, "as": "list", "used": False, "dT": 40.0, "g": 1.0}},
     "units": [{"type": "pass", "groove": "oval", "scale": 1.0, "disks": 0}], "alone": True,
     "prec": 1e-3, "max_iter": 5, "via": "kwargs", "fault": {"hook": "unit.power", "type": "KeyError", "u": 0.5}},
    # ... and in a line, tight precision, the field on the ROLL (the core's `temperature_field`) resp. on the transports' out profiles
    {"in": {"kind": "round", "size": 30e-3, "length": 1, "strain": 0, "flow_stress": 100e6},
     "models": {"field": {"host": "roll", "n": 6, "w": 0.5, "as": "array", "used": False, "dT": 80.0}},
     "units": [{"type": "pass", "groove": "oval", "scale": 1.0, "disks": 0}, {"type": "transport", "duration": 1, "disks": 0}],
     "prec": 1e-5, "max_iter": 100, "via": "kwargs", "fault": {"hook": "roll.roll_torque", "type": "TypeError", "u": 0.5}},
    {"in": {"kind": "round", "size": 30e-3, "length": 1, "strain": 0},
     "models": {"flow_stress": {"beta": 0}, "field": {"host": "transport", "n": 3, "w": 0.5, "as": "array", "used": False, "dT": 40.0}},
     "units": [{"type": "pass", "groove": "oval", "scale": 1.0, "disks": 0}, {"type": "transport", "duration": 2, "disks": 0},
               {"type": "pass", "groove": "round", "scale": 1.0, "disks": 0}],
     "prec": 1e-4, "max_iter": 100, "via": "config", "fault": {"hook": "unit.out.t", "type": "ZeroDivisionError", "u": 0.3}},
    # the solve aborted because of the INCOMING STATE (stock 13 % too large: a model with a validity range refuses the round pass
    # after oval pass and transport have been solved with it), cause removed upstream (the right stock), solved again vs fresh;
    # the spread model's width a persisted result (root hook of the pass's and the rotator's out profile, the plug-in way)
    {"in": {"kind": "round", "size": 30e-3, "length": 1, "strain": 0, "flow_stress": 100e6},
     "models": {"width": {"e": -0.5, "root": True}},
     "units": [{"type": "pass", "groove": "oval", "scale": 1.0, "disks": 0}, {"type": "transport", "duration": 1, "disks": 0},
               {"type": "pass", "groove": "round", "scale": 1.0, "disks": 0}],
     "prec": 1e-3, "max_iter": 100, "via": "config", "fault": {"hook": "unit.out.length", "type": "RuntimeError", "u": 0.6},
     "fault2": {"oversize": 1.1333, "u": 0.99}},
    # ... the same without any plug-in root hook (the spread model an ordinary implementation), a rotator and a nested sequence
    # behind the first pass
    {"in": {"kind": "round", "size": 30e-3, "length": 1, "strain": 0, "flow_stress": 100e6}, "models": {"width": {"e": -0.5}},
     "units": [{"type": "pass", "groove": "oval", "scale": 1.0, "disks": 0}, {"type": "rotator", "rotation": 90},
               {"type": "seq", "units": [{"type": "transport", "duration": 1, "disks": 0},
                                         {"type": "pass", "groove": "round", "scale": 1.0, "disks": 0, "rotation": False}]}],
     "prec": 1e-4, "max_iter": 100, "via": "kwargs", "fault": {"hook": "pass.roll_force", "type": "ValueError", "u": 0.2},
     "fault2": {"oversize": 1.2, "u": 0.99}},
    # recorded finding `retry-raises-on-plugin-root-value-of-aborted-iterate` (KNOWN_FINDINGS.txt, notes/C05.md finding 7): stock
    # 47 % too large, the oval pass aborts with the core's over-width ValueError and keeps the over-wide persisted width
    {"in": {"kind": "round", "size": 30e-3, "length": 1, "strain": 0, "flow_stress": 100e6},
     "models": {"width": {"e": -0.5, "root": True}},
     "units": [{"type": "pass", "groove": "oval", "scale": 1.0, "disks": 0}, {"type": "transport", "duration": 1, "disks": 0},
               {"type": "pass", "groove": "round", "scale": 1.0, "disks": 0}],
     "prec": 1e-3, "max_iter": 100, "via": "config", "fault": {"hook": "unit.power", "type": "CustomError", "u": 0.1},
     "fault2": {"oversize": 1.47, "u": 0.0}},
]


def run(ctx):
    logging.getLogger("pyroll").setLevel(logging.ERROR)
    import warnings
    warnings.filterwarnings("ignore")
    lines, pending = [], []
    for sc in SCRIPT_CORPUS:
        run_scripted(ctx, sc, lines, pending)
    for i in range(ctx.budget(300, 4000)):
        run_scripted(ctx, gen_script(ctx.rng), lines, pending)
    for outcomes in ([], [("o", "")], [("o", ""), ("o", ""), ("e", "ZeroDivisionError"), ("o", "")],
                     [("e", "AttributeError")], [("o", ""), ("e", "CustomError")]):
        run_subunit_wrap(ctx, outcomes, lines, pending)
    for i in range(ctx.budget(4, 40)):
        outs = [("o", "") if ctx.rng.random() < 0.7 else ("e", ctx.rng.choice(["ValueError", "KeyError", "RuntimeError", "TypeError"]))
                for _ in range(ctx.rng.randrange(0, 5))]
        run_subunit_wrap(ctx, outs, lines, pending)
    for hist in HANDOVER_CORPUS:
        run_handover(ctx, hist, lines, pending)
    for i in range(ctx.budget(80, 1200)):
        run_handover(ctx, gen_handover(ctx.rng), lines, pending)
    run_pass_body(ctx, lines, pending, ctx.budget(1, 10))
    for case in CORPUS:
        run_case(ctx, case, lines, pending)
    for i in range(ctx.budget(40, 600)):
        run_case(ctx, gen_case(ctx.rng), lines, pending)
    if ctx.histogram.get("real-cases", 0) > 10 and sum(v for k, v in ctx.histogram.items() if k.startswith(("unsolvable", "unbuildable"))) * 2 \
            > ctx.histogram["real-cases"]:
        ctx.tie_breaks.append("harness: more than half of the generated sequences could not be solved by the implementation")
    ctx.notes["within-ratio-max"] = round(ctx.notes.get("within-ratio-max", 0.0), 4)
    if not ctx.model_available:
        return
    for w in MARKS_CORPUS:
        run_marks_world(ctx, w, lines, pending)
    for i in range(ctx.budget(150, 2000)):
        run_marks_world(ctx, gen_marks_world(ctx.rng), lines, pending)
    wl, wexpect = within_lines(ctx, ctx.budget(300, 3000))
    out = ctx.lean_model(MODEL, lines + wl + ["consts"])
    if len(out) != len(lines) + len(wl) + 1:
        ctx.disagreement(f"model driver answered {len(out)} lines for {len(lines) + len(wl) + 1} requests", {})
        return
    for item, ans in zip(pending, out):
        compare_model(ctx, item[0], ans, item)
    for (p, c, o, real), ans in zip(wexpect, out[len(lines):]):
        ctx.count("within-eval")
        if ans == ("1" if real else "0"):
            ctx.validated()
        else:
            ctx.disagreement(f"generated comparison over Float: within(prec={p!r}, cur={c!r}, old={o!r}) = {ans}, numpy gives {real}",
                             {"prec": p, "cur": c, "old": o})
        if o != o and ans == "1":
            ctx.tie_breaks.append("the generated comparison is true against a NaN `_old_results`: the model's treatment of the "
                                  "fresh unit (scalar NaN never agrees) no longer describes the code")
    check_consts(ctx, out[-1])


def translate(ctx):
    ctx.c05_info = c05_loop.emit(ctx)


def replay(ctx, data):
    r = data.get("replay", data)
    lines, pending = [], []
    ctx.model_available = False
    if "scripted" in r:
        run_scripted(ctx, r["scripted"], lines, pending)
    elif "handover" in r:
        run_handover(ctx, r["handover"], lines, pending)
    elif "pass_body" in r or "class" in r:
        run_pass_body(ctx, lines, pending, 1)
    elif "marks" in r:
        ctx.model_available = True       # (a K case: the model's answer is what it is compared with)
        run_marks_world(ctx, r["marks"], lines, pending)
        for item, ans in zip(pending, ctx.lean_model(MODEL, lines)):
            compare_model(ctx, item[0], ans, item)
        for what, _ in ctx.disagreements:
            print(f"[C05 replay] disagreement: {what}")
    elif "subunits" in r:
        run_subunit_wrap(ctx, [tuple(x) for x in r["subunits"]], lines, pending)
    elif "case" in r:
        run_case(ctx, r["case"], lines, pending)
    for key, what, _ in ctx.violations:
        print(f"[C05 replay] {key}: {what}")
    if not ctx.violations:
        print("[C05 replay] no violation on this tree")
