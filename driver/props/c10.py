"""C10 - all representations of one groove or roll surface describe the same shape.

Tie: T - on every run driver/translate/c10_depth.py re-reads from the working tree (a) the junction chain, every
`_*_contour_line` method, what `local_depth` does to its ARGUMENT before `np.piecewise` (`np.abs`, `np.asarray(.., dtype=float)`
and friends -> `ArgOp` list `depth_arg_ops`), the `np.piecewise` table of `local_depth` and the statement list of
`_enumerate_contour_points` of `GenericElongationGroove`, (b) `Roll.contour_points / surface_x / surface_z / surface_y`, what
`Roll.surface_interpolation` does to the positions `x`, `z` (`interp_x_ops`, `interp_z_ops`), the axes handed to `interpn`
and the layout of its result, (c) the face test (`np.isclose(y, 0)` or `np.abs(y) <= <tolerance term>`, whichever the
source has; `FaceTest` of the model), the centring / half-width / width / usable-width / depth terms, the step order of
`SplineGroove.__init__` and what each step does to the identity of the vertex array (`ArrOp`: asarray / view / copy /
in-place write / store), (d) `SymmetricRollPass.entry_point` into lean/PyrollModel/Gen/C10.lean; the theorems of
lean/PyrollProps/C10.lean are about these generated tables run by the hand-written model lean/PyrollModel/GrooveRep.lean.
K - the Float run of the model is compared with the real objects: junction chain and contour-line methods against the
groove's attributes/methods, the model's contour polyline against `groove.contour_points` vertex by vertex, the model's
depth function against `groove.local_depth` on 50 abscissae (junctions +- 1 ulp) and - with the conversions of the argument -
on integer lists / int64 arrays / float arrays (same values AND same kind of dtype handed back: an integer dtype = truncated),
`surface_x`, grid nodes, (bi)linear interpolation and the array form `surface_interpolation(xq, zq)` for integer / float /
mixed positions (values and layout: one row per z) against the real roll (whichever way its radius was given; `min_radius` / `max_radius` through the translated
hooks), the spline model (face test on ordinates around its tolerance, stripping, centring, width, usable width, depth, interp1; whether the groove's array shares
memory with the caller's and whether the constructor wrote into it) against real `SplineGroove`s built from lists, tuples,
float64 arrays and views, the closed formulas against the python functions on stubs; (e) what a `Roll` keeps on the object
between two calls (`RollTables` of PyrollModel/RollObject.lean: private attributes of `__init__`, what `reevaluate_cache`
empties before resp. after the hook values are re-evaluated, pure / remembering methods, hook functions reading them; nothing at module level) - the model's run of a
life of the object (changes + `reevaluate_cache()`, calls) is compared with a real `Roll` step by step.
The independent oracle checks the property text on the real objects (see `_oracle_*`) - on new rolls and on USED ones: after
every change in the life of one roll object (`_roll_life`) and on the roll of a pass that is solved again (`_pass_roll_case`).
Positions (`local_depth(z)`, `surface_interpolation(x, z)`) are handed over in every numeric kind a caller may hold them in
(`NUMERIC_KINDS`, `_oracle_numeric_kinds`, `_oracle_roll_numeric`, `_integer_vertices`).
"""
import math
import warnings

from ..translate import c10_depth, pyexpr
from .. import stub
from ..stub import bits, unbits

ID = "C10"
LEAN_MODULES = ["PyrollProps.C10"]
MODEL = "c10"
MODEL_MODULES = ["PyrollModel.Gen.C10", "PyrollModel.GrooveRepDriver"]
RULE = ("(a) grooves of every parametric class (20 classes, feasible catalogue parameters, lengths scaled log-uniformly over "
        "3 decades, one parameter jittered +-3 %) and directly constructed GenericElongationGroove trapezoids with fillets "
        "(closure computed), pad angle 0 / 30 deg / random 1..44 deg, GROOVE_RADIUS_POINT_COUNT 2..30 or the default; 50 query "
        "abscissae per groove: every junction z0..z7 exactly and +-1 ulp on both sides of the centre, 0, and uniform inside "
        "the groove; (a2) every depth function (generic and spline grooves) is also asked with positions in each of 47 numeric "
        "kinds - python int / float, numpy int8..int64 / uint8..uint64 / float16 / float32 / float64 / longdouble scalars, 0-d "
        "arrays, lists, tuples, nested lists, lists of numpy scalars, mixed int/float lists, integer / unsigned / float arrays of "
        "every width, non-contiguous views, read-only arrays, 2-D arrays (C and Fortran order), empty ones - with 1 (scalars) or "
        "2..5 positions inside 1.1 x the groove width that are EXACTLY representable in the kind (whole numbers: 0, +-1, +-2, +-3, "
        "the whole numbers next to the ends and to every junction / vertex, -128 for int8, random ones; floats: rounded to the "
        "kind), and every contour vertex with a whole-numbered abscissa with that abscissa as an integer; 15 % of the spline "
        "polylines are drawn on a lattice of whole numbers; rolls: surface_interpolation(x, z) with both positions in each of 14 "
        "kinds and 3 mixed pairs (every new roll, one in three later looks at a used roll); (b) rolls on these grooves with the radius at the highest point of the groove log-uniform 1.2..100 x the "
        "groove size, given as nominal_radius / nominal_diameter / explicit max_radius below or above the nominal radius / "
        "max_radius alone, contact length "
        "log-uniform 1e-3..0.9 of the minimal radius or absent, ROLL_SURFACE_DISCRETIZATION_COUNT 2..24 or the default; query "
        "points inside the grid: nodes, nodes +- 1 ulp, uniform; (b2) 70 % of these roll OBJECTS go on living: 1..4 operations "
        "(new contact length - the grid keeps extent and size, its inner nodes move -, contact length taken away, all radii "
        "rescaled, another discretisation count, a surface_x grid given by the user / taken back, another roll on the same groove "
        "looked at in between, a plain second query, ANOTHER GROOVE mounted on the roll - the similar groove 0.4..1.8 x as large "
        "or a groove of any class / pad angle / sample count of about that size, the roll body staying >= 1.2 x groove size - ), "
        "each followed by ONE reevaluate_cache() and a full look at the same object (against the groove it has then); "
        "(b3) rolls inside roll passes (6 groove classes, radius / gap / groove jittered, ROLL_SURFACE_DISCRETIZATION_COUNT 2..24 or "
        "default): looked at before the first solution (40 %), after the first, second and third solution with different incoming "
        "profiles (round / square / box / diamond, 1.05..2 x as high as the pass); (c) spline polylines: symmetric and asymmetric, with and "
        "without horizontal face runs, with and without contacts with the face line in between, 3..12 interior vertices, lengths log-uniform, refined by 1..30 collinear insertions "
        "(all segments / left flank only / one segment only / face runs, parameter uniform or clustered at a vertex), handed over "
        "as list / tuple / float64 ndarray / non-contiguous float64 view; in half of the cases the caller goes on using its "
        "container (1..5 operations: rescale ordinates or everything, shift, mirror the ordinates, build the next family member "
        "from it, zero it) and every groove built so far is looked at again afterwards; (d) correspondence only: polylines "
        "with end ordinates / ordinates next to the face runs 0.25 .. 40 x the tolerance a face test may have (1e-8 absolute, "
        "1e-9 x extent), contours of 1e-3 .. 3000 length units: the translated face test accepts / strips like the constructor; "
        "lives of one real roll (3..8 steps: change of contact length / radius, another groove, each + reevaluate_cache(); calls of "
        "contour_line / surface_interpolation / min_radius) against the model's run of the generated roll_tables. "
        "non-trivial = pad angle != 0, a changed sample count, a contact length, a radius not given as nominal_radius, a "
        "refinement, a reuse sequence, a roll life, a roll inside a pass; distinct by rounded inputs.")
ASSUMPTIONS = [
    "scipy.interpolate.interp1d (linear, extrapolating) and interpn (linear) are modelled as (bi)linear interpolation "
    "(tensor product of two 1-D interpolations); the model is compared with scipy on every generated roll / spline (rtol 1e-9)",
    "IEEE rounding: theorems are over the reals; 'lies on', 'reproduces', 'symmetric' are checked on floats with a tolerance of "
    "1e-8 x the size of the object (rounding of a dozen operations; the defects found are >= 1e-3 x size)",
    "np.linspace, np.piecewise (last true condition wins, extra function = default, RESULT allocated with the dtype of its first "
    "argument: a float stored into an integer result is truncated toward zero), np.abs / np.asarray (keep the dtype) / "
    "np.asarray(.., dtype=float) (every numeric kind becomes float64), np.isclose, np.roll, np.mean/min/max/ptp are "
    "modelled by hand in PyrollModel/GrooveRep.lean and validated by the correspondence",
    "the numeric kind of an argument is modelled as integer (unbounded: fixed-width overflow such as abs(int8(-128)) is not "
    "modelled - the oracle asks with -128 as int8) or float (one float type: evaluation of float32 / float16 arguments in "
    "their own precision is not modelled - the oracle asks with them); that numpy gives a list / tuple / nested list ONE dtype "
    "(float as soon as one entry is a float) and that scipy's interpn evaluates in float64 whatever the dtype of the query points "
    "is part of the hand-written model, observed by the oracle",
    "Params (radii >= 0, arcs graphs over z, flank closes at z4) and Ordered (z7 <= z6 <= ... <= z0) are hypotheses of the groove "
    "theorems; they are checked on every generated generic groove (closure is what the constructors' solvers establish - C04)",
    "that the surface_x grid is strictly ascending is a hypothesis of the interpolation theorems (scipy demands it)",
    "ownership of the spline groove's vertex array is modelled at the level of array identity (np.asarray passes a float64 "
    "ndarray through, basic slicing = view, mask indexing / .copy() = fresh array, augmented assignment writes in place); that "
    "interp1d, LineString and Polygon copy their input is trusted (the oracle looks at these representations after the caller "
    "reused its array)",
    "what a Roll keeps between two calls is modelled at the level of attribute names and of WHICH data a kept value was "
    "computed from (PyrollModel/RollObject.lean); that HookHost.reevaluate_cache re-evaluates every cached hook value and that "
    "a hook value set explicitly wins over a cached one is the hook mechanism's business (C01/C02); a change of a value is "
    "taken to be followed by reevaluate_cache() (the solver does that in every iteration); replacing roll.groove is in oracle, "
    "correspondence and theorem on the repaired statement order of Roll.reevaluate_cache (memo emptied BEFORE the hook values "
    "are re-evaluated); on the old order (after ONE reevaluate_cache() min_radius still belongs to the old groove) the theorem "
    "excludes it and, while RESET_FIRST_REQUIRED is False, what the oracle sees there is only counted "
    "(groove-replacement:<key>:counted-only)",
]

RTOL = 1e-8          # see ASSUMPTIONS: rounding only, relative to the size of the object
CATALOGUE = {
    "BoxGroove": dict(depth=52, r1=15, r2=18, usable_width=185.29, ground_width=157.62),
    "CircularOvalGroove": dict(depth=5.05, r1=7, r2=33),
    "ConstrictedBoxGroove": dict(depth=52, r1=15, r2=18, r4=10, usable_width=185.29, ground_width=157.62, indent=10),
    "ConstrictedCircularOvalGroove": dict(depth=17, r1=3, r2=30, r3=5, r4=20, indent=3, usable_width=56.70672071),
    "ConstrictedSwedishOvalGroove": dict(depth=18, r1=5, r2=10, r4=5, usable_width=78, ground_width=60, indent=3),
    "ConstrictedUpsetBoxGroove": dict(depth=30, r1=5, r2=3, usable_width=20, ground_width=9.42038116, indent=0.5, r4=1),
    "DiamondGroove": dict(r1=5, r2=8, usable_width=40, tip_depth=11.54700538),
    "EquivalentRibbedGroove": dict(r1=0.2, r3=3.45, rib_distance=8.4, rib_width=1.6, rib_angle=45, base_body_height=11.78,
                                   nominal_outer_diameter=14, usable_width=13.6788, depth=5.5091),
    "FalseRoundGroove": dict(depth=31.8646, r1=5, r2=38, flank_angle=65),
    "FlatGroove": dict(usable_width=100, r1=20),
    "FlatOvalGroove": dict(depth=20, r1=5, r2=20, usable_width=60),
    "GothicGroove": dict(depth=20, r1=3, r2=40, r3=2, usable_width=40),
    "HexagonalGroove": dict(depth=7.66025404, r1=3, r2=1, usable_width=18.84529946, ground_width=10),
    "Oval3RadiiFlankedGroove": dict(depth=41.1, r1=6, r2=23.5, r3=183, usable_width=74.2506498 * 2, flank_angle=90 - 16.697244),
    "Oval3RadiiGroove": dict(depth=28.5, r1=10, r2=30, r3=170, usable_width=62.30907983 * 2),
    "RoundGroove": dict(depth=15.55, r1=2, r2=15.8),
    "SquareGroove": dict(r1=5, r2=3, usable_width=30, tip_depth=14.74045895),
    "SwedishOvalGroove": dict(depth=20, r1=8, r2=10, usable_width=100, ground_width=40),
    "UpsetBoxGroove": dict(depth=30, r1=5, r2=3, usable_width=20, ground_width=9.42038116),
    "UpsetOvalGroove": dict(depth=23.3303, r1=3, r2=30, r3=5, usable_width=26.2495),
}
ANGLES = {"flank_angle", "tip_angle", "rib_angle", "pad_angle"}
JITTER = {"depth", "r2", "usable_width", "tip_depth", "r1"}
JUNCTIONS = ["z7", "z6", "z5", "z4", "z3", "z1", "z0"]
INPUT_ATTRS = ["r1", "r2", "r3", "r4", "alpha3", "alpha4", "indent", "even_ground_width", "pad_angle", "flank_angle",
               "usable_width", "ground_width", "depth"]

# past failures first: the design-time replays F5 / F6 and a three-roll flat groove (pad vertices only)
CORPUS_GROOVES = [
    {"cls": "RoundGroove", "kwargs": dict(r1=1, r2=10, depth=8, pad_angle=30)},
    {"cls": "FlatGroove", "kwargs": dict(usable_width=100, r1=20, pad_angle=30)},
    {"cls": "CircularOvalGroove", "kwargs": dict(depth=5.05, r1=7, r2=33, pad_angle=17.3)},
    {"cls": "BoxGroove", "kwargs": dict(depth=52, r1=15, r2=18, usable_width=185.29, ground_width=157.62, pad_angle=0)},
    # integer abscissae (reported by an independent tester): local_depth(3) = 8 but local_depth(3.0) = 8.539..., [3, 4] -> [8 8]
    {"cls": "RoundGroove", "kwargs": dict(r1=2, r2=10, depth=9, pad_angle=0),
     "numeric": [{"kind": "python-int", "values": [3]}, {"kind": "int-list", "values": [3, 4]}]},
    # the witness of the Lean theorem `C10.unconverted_integer_argument_is_truncated` (trapezoid `σ1`): 1/2 deep at the abscissa 2
    {"cls": "GenericElongationGroove", "kwargs": dict(usable_width=5, depth=1, even_ground_width=3, flank_angle=math.pi / 4,
                                                      r1=0, r2=0, pad=1, pad_angle=0),
     "numeric": [{"kind": "python-int", "values": [2]}, {"kind": "int64-array", "values": [2, -2, 0]}]},
]
CORPUS_SPLINES = [
    {"points": [[-2, 0], [-1, 1], [1, 1], [2, 0]], "refined": [[-2, 0], [-1.75, 0.25], [-1.5, 0.5], [-1, 1], [1, 1], [2, 0]]},
    {"points": [[-3, 0], [-2, 0], [-1, 1], [1, 1], [2, 0], [3, 0]],
     "refined": [[-3, 0], [-2.5, 0], [-2, 0], [-1, 1], [1, 1], [1.5, 0.5], [2, 0], [3, 0]]},
    {"points": [[0, 0], [1, 2], [5, 1], [6, 0]], "refined": [[0, 0], [0.25, 0.5], [0.5, 1], [1, 2], [5, 1], [6, 0]]},
    # two V-shaped grooves side by side / a vertex between two contacts with the face line (boundary stripping)
    {"points": [[0, 0], [1, 1], [2, 0], [3, 1], [4, 0]], "refined": [[0, 0], [0.5, 0.5], [1, 1], [2, 0], [3, 1], [4, 0]]},
    {"points": [[0, 0], [1, 1], [2, 0.5], [3, 0], [4, 0.5], [5, 0], [6, 1], [7, 0]], "refined": None},
    {"points": [[-2, 0], [-1, 0], [0, 1], [1, 0], [2, 0]], "refined": [[-2, 0], [-1.5, 0], [-1, 0], [0, 1], [0.5, 0.5], [1, 0], [2, 0]]},
]
# operation sequences on the caller's side: a family of grooves of decreasing depth produced from one working array (each
# member is looked at after the whole family exists), the same from a list, a non-contiguous view that is shifted afterwards
CORPUS_SEQUENCES = [
    {"points": [[-3, 0], [-1, 0], [0, 1.5], [2, 3], [6, 3], [8, 1.5], [9, 0], [12, 0]], "refined": None, "input": "ndarray",
     "reuse": [["scale-y", 0.8], ["rebuild"], ["scale-y", 0.6], ["rebuild"]]},
    {"points": [[0, 0], [1, 2], [5, 1], [6, 0]], "refined": None, "input": "ndarray-view",
     "reuse": [["shift-x", 3.0], ["scale", 2.0], ["rebuild"], ["zero"]]},
    {"points": [[0, 0], [1, 2], [5, 1], [6, 0]], "refined": None, "input": "list", "reuse": [["reverse-y"], ["rebuild"]]},
]


# ------------------------------------------------------------------------------------------------------------------
# (T)
# ------------------------------------------------------------------------------------------------------------------
# `Roll.reevaluate_cache` exists in two source forms.  OLD: `super().reevaluate_cache(); self._contour_line = None` - the
# remembered hook values are recomputed while the contour line memoised for the previous groove is still there, so after
# `roll.groove = <another groove>; roll.reevaluate_cache()` min_radius / surface_x / surface_y belong to the OLD groove (a
# second reevaluate_cache() repairs it).  REPAIRED: `self._contour_line = None; super().reevaluate_cache();
# self._contour_line = None`.  Translator, model and theorems cope with every statement order (`resetsBefore` / `resetsAfter`
# of the generated `roll_tables`); the oracle replaces the groove of a used roll on every form.  While this is False the old
# form is accepted: what the oracle sees on it from a groove replacement to the end of that roll's life is only counted
# (`groove-replacement:<key>:counted-only(...)`), and the theorem about groove replacements
# (`used_roll_answers_like_a_new_one_whatever_changed`) is conditional on the generated order.  Set it to True once the repair
# is in /repo: from then on a source that does not empty first is a broken tie (translator gap; theorem
# `C10.roll_reset_order_as_required` stops building) and the clauses report violations with replays on any source form.
RESET_FIRST_REQUIRED = True

# `GenericElongationGroove.local_depth` exists in two source forms.  OLD: `z = np.abs(z); return np.piecewise(z, ...)` -
# `np.piecewise` allocates its result with the dtype of `z`, so for integer abscissae (python int, numpy integers, lists /
# arrays of them) the depth is TRUNCATED to a whole number (local_depth(3) = 8, local_depth(3.0) = 8.539...), and float32 /
# float16 abscissae are evaluated in that precision.  REPAIRED: `z = np.abs(np.asarray(z, dtype=float))`.  Translator and model
# read and run either form (`depth_arg_ops` of the generated file, `localDepthElem` of the model: the correspondence holds on
# both, truncation included); the oracle reports the old form on every run (`depth-by-numeric-type:*`).  With this flag True
# a source whose `local_depth` does not convert to float64 is also a broken tie (translator gap; theorem
# `C10.depth_argument_conversion_as_required` stops building).
DEPTH_FLOAT_REQUIRED = True


def translate(ctx):
    ctx.c10_info = c10_depth.emit(ctx, reset_first_required=RESET_FIRST_REQUIRED, depth_float_required=DEPTH_FLOAT_REQUIRED)


def _groove_replacement_strict(ctx):
    """are violations seen after a groove replacement reported?  Always - unless the translator positively read the OLD
    statement order of `Roll.reevaluate_cache` (every attribute a remembering method keeps is emptied, but only AFTER the hook
    values were re-evaluated) and the repaired one is not demanded yet (see RESET_FIRST_REQUIRED)"""
    if RESET_FIRST_REQUIRED:
        return True
    rs = (getattr(ctx, "c10_info", None) or {}).get("roll_state") or {}
    memo = [k[1] for _, k in rs.get("methods") or [] if k[0] == "memo"]
    old_form = rs.get("reset_order") == "after" and bool(memo) and all(f in rs["resets_after"] for f in memo)
    return not old_form


# ------------------------------------------------------------------------------------------------------------------
# helpers
# ------------------------------------------------------------------------------------------------------------------
class _ConfigOverride:
    """temporarily set pyroll Config values; always restored"""

    def __init__(self, **kw):
        self.kw = {k: v for k, v in kw.items() if v is not None}
        self.saved = {}

    def __enter__(self):
        from pyroll.core import Config
        for k, v in self.kw.items():
            self.saved[k] = getattr(Config, "_" + k, None)
            setattr(Config, k, v)
        return self

    def __exit__(self, *a):
        from pyroll.core import Config
        for k, old in self.saved.items():
            if old is None:
                try:
                    delattr(Config, k)
                except AttributeError:
                    pass
            else:
                setattr(Config, k, old)


def _in_pyroll(ex):
    import traceback
    return any("/pyroll/" in f.filename for f in traceback.extract_tb(ex.__traceback__)[-6:])


def _build_groove(desc):
    import pyroll.core as pc
    with warnings.catch_warnings():
        warnings.simplefilter("ignore")
        if desc["cls"] == "SplineGroove":
            return pc.SplineGroove([list(p) for p in desc["points"]], classifiers=("spline",),
                                   usable_width=desc.get("usable_width"))
        with _ConfigOverride(GROOVE_RADIUS_POINT_COUNT=desc.get("N")):
            if desc["cls"] == "GenericElongationGroove":
                from pyroll.core.grooves.generic_elongation import GenericElongationGroove
                return GenericElongationGroove(**desc["kwargs"])
            return getattr(pc, desc["cls"])(**desc["kwargs"])


def _random_groove_desc(rng):
    s = 10 ** rng.uniform(-3, 0)
    pad_mode = rng.choice(["0", "30", "random"])
    pad_deg = {"0": 0.0, "30": 30.0, "random": rng.uniform(1, 44)}[pad_mode]
    N = rng.choice([None, None, rng.randrange(2, 31)])
    if rng.random() < 0.2:
        # trapezoid with fillets, built directly: flank through (uw/2, 0) and (gw/2, depth), r2 tangent to flank and ground
        fa = rng.uniform(math.radians(25), math.radians(85))
        depth = s * rng.uniform(5, 40)
        r2 = depth * rng.uniform(0.05, 0.6)
        r1 = depth * rng.uniform(0.0, 0.4) if rng.random() < 0.85 else 0.0
        egw = s * rng.uniform(0, 60) if rng.random() < 0.8 else 0.0
        gw = egw + 2 * r2 * math.tan(fa / 2)
        uw = gw + 2 * depth / math.tan(fa)
        kw = dict(r1=r1, r2=r2, flank_angle=fa, usable_width=uw, depth=depth, even_ground_width=egw,
                  pad_angle=math.radians(pad_deg))
        if rng.random() < 0.5:
            kw["pad"] = uw * rng.uniform(0.02, 0.5)
        return {"cls": "GenericElongationGroove", "kwargs": kw, "N": N, "pad_mode": pad_mode}
    cls = rng.choice(sorted(CATALOGUE))
    kw = dict(CATALOGUE[cls])
    if rng.random() < 0.6:
        k = rng.choice(sorted(set(kw) & JITTER))
        kw[k] = kw[k] * rng.uniform(0.97, 1.03)
    if cls == "FlatGroove" and rng.random() < 0.5:
        kw["r1"] = 0 if rng.random() < 0.5 else kw["r1"] * rng.uniform(0.1, 1)
    kw = {k: (v if k in ANGLES else v * s) for k, v in kw.items()}
    kw["pad_angle"] = pad_deg
    return {"cls": cls, "kwargs": kw, "N": N, "pad_mode": pad_mode}


def _size(cp):
    return max(float(cp[:, 0].max() - cp[:, 0].min()), float(cp[:, 1].max() - cp[:, 1].min()), 1e-300)


def _ulp_neighbours(v):
    return [math.nextafter(v, -math.inf), v, math.nextafter(v, math.inf)]


def _query_abscissae(rng, g, n=50):
    """junctions +- ulp (both halves), 0, uniform inside the groove"""
    cp = g.contour_points
    lo, hi = float(cp[0, 0]), float(cp[-1, 0])
    qs = [0.0]
    for name in JUNCTIONS:
        v = getattr(g, name, None)
        if v is None:
            continue
        v = float(v)
        for u in _ulp_neighbours(v):
            qs += [u, -u]
    qs = [q for q in qs if lo <= q <= hi]
    rng.shuffle(qs)
    qs = qs[: n - 8]
    while len(qs) < n:
        qs.append(rng.uniform(lo, hi))
    return qs


# ------------------------------------------------------------------------------------------------------------------
# the numeric kinds of a position: a depth function / a surface is a function of the POSITION, not of the python / numpy
# type the caller happens to hold that position in
# ------------------------------------------------------------------------------------------------------------------
# kind -> (value class, key class).  Value classes: "int" any integer, "i8"/"i16" integers of that width, "uint" non-negative
# integers, "f16"/"f32" floats exactly representable in that format, "f64" any float, "mixed" integers and floats in one list,
# "empty" no value at all.  The values handed over are always EXACTLY representable in the kind, so the position is the same
# real number in every kind and the reference is the value at the python float of that number.
NUMERIC_KINDS = {
    "python-int": ("int", "python-int"),
    "numpy-int64": ("int", "numpy-int-scalar"), "numpy-int32": ("int", "numpy-int-scalar"),
    "numpy-int16": ("i16", "numpy-int-scalar"), "numpy-int8": ("i8", "numpy-int-scalar"),
    "numpy-uint8": ("u8", "numpy-uint-scalar"), "numpy-uint16": ("uint", "numpy-uint-scalar"),
    "numpy-uint32": ("uint", "numpy-uint-scalar"), "numpy-uint64": ("uint", "numpy-uint-scalar"),
    "int64-0d-array": ("int", "int-0d-array"), "int32-0d-array": ("int", "int-0d-array"),
    "int-list": ("int", "int-list"), "int-tuple": ("int", "int-list"), "numpy-int-list": ("int", "int-list"),
    "int-nested-list": ("int", "int-list"),
    "int64-array": ("int", "int-array"), "int32-array": ("int", "int-array"), "int64-view": ("int", "int-array"),
    "int16-array": ("i16", "small-int-array"), "int8-array": ("i8", "small-int-array"),
    "uint8-array": ("u8", "uint-array"), "uint16-array": ("uint", "uint-array"), "uint64-array": ("uint", "uint-array"),
    "int64-2d-array": ("int", "int-2d-array"),
    "mixed-list": ("mixed", "mixed-list"), "mixed-tuple": ("mixed", "mixed-list"),
    "float-list": ("f64", "float-list"), "float-tuple": ("f64", "float-list"), "integral-float-list": ("int", "float-list"),
    "python-float": ("f64", "python-float"), "integral-python-float": ("int", "python-float"),
    "numpy-float64": ("f64", "numpy-float64-scalar"),
    "numpy-float32": ("f32", "float32"), "float32-0d-array": ("f32", "float32"), "float32-array": ("f32", "float32"),
    "numpy-float16": ("f16", "float16"), "float16-array": ("f16", "float16"),
    "numpy-longdouble": ("f64", "longdouble"), "longdouble-array": ("f64", "longdouble"),
    "float64-0d-array": ("f64", "float64-array"), "float64-array": ("f64", "float64-array"),
    "float64-view": ("f64", "float64-array"), "float64-readonly": ("f64", "float64-array"),
    "float64-2d-fortran": ("f64", "float64-array"),
    "empty-list": ("empty", "empty"), "empty-int-array": ("empty", "empty"), "empty-float-array": ("empty", "empty"),
}
SCALAR_KINDS = {k for k in NUMERIC_KINDS if (k.startswith(("python-", "numpy-", "integral-python-")) and not k.endswith("-list"))
                or k.endswith("-0d-array")}
# the subset looked at on rolls (two positions per call): one kind for both coordinates
ROLL_KINDS = ["python-int", "numpy-int64", "numpy-int8", "int64-0d-array", "int-list", "int64-array", "int32-array", "uint16-array",
              "mixed-list", "float-list", "numpy-float32", "float32-array", "float64-view", "float64-readonly"]


def _numeric_arg(kind, values):
    """the object of kind `kind` holding the positions `values` (python numbers, exactly representable in the kind)"""
    import numpy as np
    v = list(values)
    one = v[0] if v else None
    scalar = {"python-int": int, "python-float": float, "integral-python-float": float,
              "numpy-int64": np.int64, "numpy-int32": np.int32, "numpy-int16": np.int16, "numpy-int8": np.int8,
              "numpy-uint8": np.uint8, "numpy-uint16": np.uint16, "numpy-uint32": np.uint32, "numpy-uint64": np.uint64,
              "numpy-float64": np.float64, "numpy-float32": np.float32, "numpy-float16": np.float16,
              "numpy-longdouble": np.longdouble}
    if kind in scalar:
        return scalar[kind](one)
    if kind.endswith("-0d-array"):
        return np.array(one, dtype=kind.split("-")[0])
    if kind in ("int-list", "mixed-list", "float-list", "empty-list"):
        return list(v)
    if kind == "integral-float-list":
        return [float(a) for a in v]
    if kind in ("int-tuple", "mixed-tuple", "float-tuple"):
        return tuple(v)
    if kind == "numpy-int-list":
        return [np.int64(a) for a in v]
    if kind == "int-nested-list":
        return [list(v), list(reversed(v))]
    if kind == "int64-2d-array":
        return np.array([v, list(reversed(v))], dtype=np.int64)
    if kind == "float64-2d-fortran":
        return np.asfortranarray(np.array([v, list(reversed(v))], dtype=np.float64))
    if kind in ("int64-view", "float64-view"):
        big = np.full(2 * len(v) + 1, 7, dtype=kind.split("-")[0])
        big[1::2] = v
        return big[1::2]
    if kind == "float64-readonly":
        a = np.array(v, dtype=np.float64)
        a.flags.writeable = False
        return a
    if kind in ("empty-int-array", "empty-float-array"):
        return np.array([], dtype=np.int64 if "int" in kind else np.float64)
    if kind.endswith("-array"):
        return np.array(v, dtype=kind[:-len("-array")])
    raise ValueError(f"unknown numeric kind {kind!r}")


def _arg_positions(kind, values):
    """the positions an argument of kind `kind` holds, in the layout of the argument (nested for the 2-D kinds)"""
    v = [float(a) for a in values]
    if kind in SCALAR_KINDS:
        return v[0]
    if kind in ("int-nested-list", "int64-2d-array", "float64-2d-fortran"):
        return [v, list(reversed(v))]
    return v


def _values_of_class(rng, vclass, lo, hi, n, fixed=()):
    """`n` positions in [lo, hi] exactly representable in the value class (fewer if the interval holds fewer); `fixed`
    (integers of special interest: 0, +-1, the integers next to the ends / the junctions) come first where they fit"""
    import numpy as np
    if vclass == "empty":
        return []
    if vclass in ("int", "i8", "i16", "u8", "uint", "mixed"):
        a, b = math.ceil(lo), math.floor(hi)
        if vclass in ("uint", "u8"):
            a = max(a, 0)
        if vclass in ("i8", "u8", "i16"):
            w = {"i8": (-128, 127), "u8": (0, 255), "i16": (-32768, 32767)}[vclass]
            a, b = max(a, w[0]), min(b, w[1])
        if a > b:
            return []
        out = [int(f) for f in fixed if a <= f <= b][: max(n - 1, 1)]
        if vclass == "i8" and a == -128:
            out.insert(0, -128)                # the integer whose absolute value does not exist in its own width
        while len(out) < n:
            out.append(rng.randint(a, b))
        out = out[:n]
        if vclass == "mixed":
            # integers and floats in one list (at least one float): numpy makes that a float array
            out = [v if i % 2 == 0 else float(np.float32(rng.uniform(lo, hi))) for i, v in enumerate(out + [0])]
        return out
    cast = {"f16": np.float16, "f32": np.float32, "f64": np.float64}[vclass]
    out = []
    for _ in range(4 * n):
        v = float(cast(rng.uniform(lo, hi)))
        if lo <= v <= hi and math.isfinite(v):
            out.append(v)
        if len(out) == n:
            break
    return out


def _numeric_specs(rng, lo, hi, fixed, kinds=None, given=None):
    """the arguments one depth function / one roll is asked with: every kind, 1 position for the scalar kinds, 2..5 for the
    others; `given` (replay) first.  -> [{"kind", "values"}]"""
    specs = [dict(s) for s in (given or []) if s.get("kind") in NUMERIC_KINDS and "values" in s]
    for kind in (kinds or list(NUMERIC_KINDS)):
        vclass = NUMERIC_KINDS[kind][0]
        n = 1 if kind in SCALAR_KINDS else rng.randrange(2, 6)
        f = list(fixed)
        rng.shuffle(f)
        vals = _values_of_class(rng, vclass, lo, hi, n, fixed=f)
        if vals or vclass == "empty":
            specs.append({"kind": kind, "values": vals})
    return specs


def _oracle_numeric_kinds(ctx, rp, call, ref, lo, hi, fixed, L, prefix, stage="", given=None, what="local_depth"):
    """The value at a position does not depend on the numeric type the position is handed over in (python int / float, numpy
    integer / unsigned / float scalars of every width, 0-d arrays, lists, tuples, nested lists, integer / float arrays, views,
    read-only arrays, mixed lists, negative values, nothing at all): asked with ANY of them, `call` answers - in the layout of
    the argument - what it answers for the python floats of the same positions (`ref`; that one is held against the contour
    polyline by the other clauses).  Tolerance: rounding only (RTOL x size), the positions are exact in every kind.  An
    exception raised inside the implementation for a position inside the object is reported as well."""
    import numpy as np
    tol = RTOL * L
    memo = {}

    def ref_of(p):
        if p not in memo:
            memo[p] = ref(p)
        return memo[p]

    for spec in _numeric_specs(ctx.rng, lo, hi, fixed, given=given):
        kind, values = spec["kind"], spec["values"]
        kclass = NUMERIC_KINDS[kind][1]
        arg = _numeric_arg(kind, values)
        pos = _arg_positions(kind, values)
        ctx.count("numeric-kind:" + kclass)
        try:
            with np.errstate(all="ignore"), warnings.catch_warnings():
                warnings.simplefilter("ignore")
                got = call(arg)
        except Exception as ex:
            if not _in_pyroll(ex):
                raise
            if kclass == "empty":
                ctx.count("numeric-kind:empty:raises")      # no position asked for: nothing the property says about it
                continue
            ctx.violation(f"{prefix}-raises-for:{kclass}{stage}",
                          f"{what} raised {type(ex).__name__}: {ex} when asked with {kind} {arg!r}", dict(rp, numeric=[spec]))
            continue
        if isinstance(pos, list) and pos and isinstance(pos[0], list):
            exp = np.array([[ref_of(p) for p in row] for row in pos], dtype=float)
        elif isinstance(pos, list):
            exp = np.array([ref_of(p) for p in pos], dtype=float)
        else:
            exp = np.array(ref_of(pos), dtype=float)
        try:
            gotf = np.asarray(got, dtype=float)
        except (TypeError, ValueError):
            ctx.violation(f"{prefix}-shape-for:{kclass}{stage}", f"{what}({kind} {arg!r}) answers {got!r}: not numbers",
                          dict(rp, numeric=[spec]))
            continue
        if gotf.shape != exp.shape:
            ctx.violation(f"{prefix}-shape-for:{kclass}{stage}",
                          f"{what} asked with {kind} {arg!r} (shape {exp.shape}) answers with shape {gotf.shape}: {got!r}",
                          dict(rp, numeric=[spec]))
            continue
        bad = ~((np.abs(gotf - exp) <= tol) | (np.isnan(gotf) & np.isnan(exp)))
        if bad.any():
            i = tuple(int(v) for v in np.argwhere(bad)[0])
            p = np.asarray(pos, dtype=float)[i]
            ctx.violation(f"{prefix}-by-numeric-type:{kclass}{stage}",
                          f"{what} asked with {kind} {arg!r} answers {got!r}: at the position {float(p)!r} that is "
                          f"{float(gotf[i])!r}, asked with the python float {float(p)!r} it answers {float(exp[i])!r} "
                          f"(size of the object {L:.3e})", dict(rp, numeric=[spec], z=float(p)))


def _integer_fixed(lo, hi, marks=()):
    """integers of special interest between lo and hi: 0, +-1, +-2, the integers next to the ends and next to `marks`"""
    c = {0, 1, -1, 2, -2, 3, -3, math.floor(hi), math.ceil(lo), math.floor(hi) - 1, math.ceil(lo) + 1}
    for m in marks:
        c |= {math.floor(m), math.ceil(m), -math.floor(m), -math.ceil(m)}
    return sorted(v for v in c if lo <= v <= hi)


def _integer_vertices(ctx, rp, g, cp, tol, key, given_name):
    """the contour vertices whose abscissa is a whole number (the centre vertex of every generic groove is one): asked with that
    whole number AS AN INTEGER the depth function answers the vertex ordinate - the property's 'every vertex lies on the depth
    function' for a caller who holds the abscissa in an integer"""
    import numpy as np
    ks = [k for k in range(len(cp)) if float(cp[k, 0]).is_integer() and abs(cp[k, 0]) < 2 ** 52]
    if not ks:
        return
    ctx.count("integer-abscissa-vertices")
    for how in ("python-int", "int64-array"):
        try:
            with np.errstate(all="ignore"), warnings.catch_warnings():
                warnings.simplefilter("ignore")
                if how == "python-int":
                    d = np.array([float(np.asarray(g.local_depth(int(cp[k, 0])), dtype=float)) for k in ks])
                else:
                    d = np.asarray(g.local_depth(np.array([int(cp[k, 0]) for k in ks], dtype=np.int64)), dtype=float)
        except Exception as ex:
            if not _in_pyroll(ex):
                raise
            ctx.violation(key + ":raises", f"local_depth raised {type(ex).__name__}: {ex} for the integer abscissae of "
                          f"{given_name} vertices ({how})", rp)
            return
        err = np.abs(d.reshape(-1) - cp[ks, 1]) if d.size == len(ks) else np.full(len(ks), np.inf)
        i = int(np.argmax(err))
        if not err[i] <= tol:
            k = ks[i]
            ctx.violation(key, f"contour vertex {k} ({float(cp[k, 0])!r}, {float(cp[k, 1])!r}): local_depth asked with the integer "
                          f"{int(cp[k, 0])!r} ({how}) answers {float(d.reshape(-1)[i]) if d.size == len(ks) else d!r}, asked with "
                          f"the float {float(cp[k, 0])!r} it answers {float(np.asarray(g.local_depth(float(cp[k, 0])), dtype=float))!r}",
                          dict(rp, vertex=k, z=float(cp[k, 0]), y=float(cp[k, 1]),
                               numeric=[{"kind": how, "values": [int(cp[j, 0]) for j in ks][:1 if how == "python-int" else None]}]))
            return


# ------------------------------------------------------------------------------------------------------------------
# oracle: generic groove (from the property text, on the real objects only)
# ------------------------------------------------------------------------------------------------------------------
def _oracle_groove(ctx, desc, g, qs, numeric=None):
    import numpy as np
    cp = np.asarray(g.contour_points, dtype=float)
    L = _size(cp)
    tol = RTOL * L
    rp = {"groove": desc}
    pad_key = "pad0" if desc.get("pad_mode", "0") == "0" and not desc["kwargs"].get("pad_angle") else "pad"
    # (1) every vertex of the contour polyline lies on the analytic depth function
    zq = cp[:, 0].copy()
    d = np.asarray(g.local_depth(zq), dtype=float)
    # ... which is a function: it leaves the caller's abscissae alone and answers the same when asked again (otherwise
    # "the vertex lies on it" would depend on who asked before)
    if not np.array_equal(zq, cp[:, 0]):
        ctx.violation("depth-function-modifies-its-argument", "local_depth changed the array of abscissae it was called with", rp)
    d_again = np.asarray(g.local_depth(cp[:, 0].copy()), dtype=float)
    if not np.array_equal(d, d_again, equal_nan=True):
        ctx.violation("depth-function-not-repeatable", "local_depth gives different values for the same abscissae when called twice", rp)
    # ... and the other representations of the same polyline: the contour line runs through the vertices, the cross-section
    # is the area the polyline encloses
    lc = np.asarray(g.contour_line.coords, dtype=float)
    if lc.shape != cp.shape or not np.all(np.abs(lc - cp) <= tol):
        ctx.violation("groove-contour-line-differs", "contour_line does not run through contour_points", rp)
    area, ref_area = float(g.cross_section.area), _shoelace(cp)
    if not abs(area - ref_area) <= RTOL * L * L:
        ctx.violation("groove-cross-section-differs",
                      f"cross_section has the area {area!r}, the contour polyline encloses {ref_area!r}", rp)
    err = np.abs(d - cp[:, 1])
    k = int(np.argmax(err))
    if not err[k] <= tol:
        where = "face-padding" if abs(cp[k, 0]) >= float(getattr(g, "z1", math.inf)) * (1 - 1e-12) else "inside"
        ctx.violation(f"vertex-off-depth-function:{where}:{pad_key}",
                      f"contour vertex {k} ({cp[k, 0]!r}, {cp[k, 1]!r}) is not on local_depth: local_depth gives {d[k]!r} "
                      f"(difference {err[k]:.3e}, groove size {L:.3e})", dict(rp, vertex=k, z=float(cp[k, 0]),
                                                                             y=float(cp[k, 1]), local_depth=float(d[k])))
    # (2) the depth function is continuous inside the groove: no jump across any junction (1 ulp to either side),
    #     and between neighbouring query points it does not move by more than the steepest chord of the polyline allows
    z0 = float(cp[-1, 0])
    for name in JUNCTIONS[:-1]:
        v = getattr(g, name, None)
        if v is None or not (0 <= float(v) < z0):
            continue
        v = float(v)
        a, b, c = (float(g.local_depth(u)) for u in _ulp_neighbours(v))
        jump = max(abs(a - b), abs(c - b))
        if not jump <= tol:
            ctx.violation(f"depth-jump-at:{name}:{pad_key}",
                          f"local_depth jumps by {jump:.3e} across junction {name}={v!r} (values {a!r}, {b!r}, {c!r} one ulp "
                          f"apart; groove size {L:.3e})", dict(rp, junction=name, z=v, values=[a, b, c]))
    # (3) both halves describe the same shape
    dq = np.asarray(g.local_depth(np.array(qs)), dtype=float)
    dm = np.asarray(g.local_depth(-np.array(qs)), dtype=float)
    if not np.all(np.abs(dq - dm) <= tol):
        i = int(np.argmax(np.abs(dq - dm)))
        ctx.violation("depth-not-symmetric", f"local_depth({qs[i]!r}) = {dq[i]!r} but local_depth({-qs[i]!r}) = {dm[i]!r}",
                      dict(rp, z=qs[i]))
    # (4) the depth at an abscissa is the depth at that abscissa, in whatever numeric type the caller holds it
    marks = [float(getattr(g, n)) for n in JUNCTIONS if getattr(g, n, None) is not None]
    lo, hi = 1.1 * float(cp[0, 0]), 1.1 * float(cp[-1, 0])
    _integer_vertices(ctx, rp, g, cp, tol, "vertex-off-depth-function:integer-abscissa:" + pad_key, "the groove's")
    _oracle_numeric_kinds(ctx, rp, g.local_depth, lambda p: float(np.asarray(g.local_depth(float(p)), dtype=float)), lo, hi,
                          _integer_fixed(lo, hi, marks), L, "depth", given=numeric)
    return cp, L


# ------------------------------------------------------------------------------------------------------------------
# oracle: roll
# ------------------------------------------------------------------------------------------------------------------
RADIUS_KEYS = ("nominal_radius", "nominal_diameter", "max_radius")
RADIUS_MODES = ["nominal_radius", "nominal_radius", "nominal_radius", "nominal_diameter", "max-below-nominal", "max-above-nominal",
                "max_radius-only"]


def _make_roll(rng, g, cp, desc):
    """every way the roll radius can be given: the nominal radius (max_radius defaults to it), the nominal diameter, an
    explicit max_radius that differs from the nominal radius in either direction (a redressed roll / a roll with collars),
    max_radius alone.  `R` below is always the radius at the highest point of the groove (the face line y = 0)."""
    L = _size(cp)
    ymax = float(cp[:, 1].max())
    R = ymax + L * 10 ** rng.uniform(math.log10(1.2), 2)
    rmin = R - ymax
    mode = rng.choice(["set", "default"])
    rmode = rng.choice(RADIUS_MODES)
    if rmode == "nominal_radius":
        kw = dict(nominal_radius=R)
    elif rmode == "nominal_diameter":
        kw = dict(nominal_diameter=2 * R)
    elif rmode == "max-below-nominal":
        kw = dict(nominal_radius=R * rng.uniform(1.002, 1.5), max_radius=R)
    elif rmode == "max-above-nominal":
        kw = dict(nominal_radius=R * rng.uniform(0.5, 0.998), max_radius=R)
    else:
        kw = dict(max_radius=R)
    if mode == "set":
        kw["contact_length"] = rmin * 10 ** rng.uniform(-3, math.log10(0.9))
    nx = rng.choice([None, rng.randrange(2, 25)])
    rdesc = dict(kw, mode=mode, nx=nx, radius_mode=rmode)
    return _roll_from_desc(g, rdesc), rdesc


def _roll_from_desc(g, rdesc):
    from pyroll.core import Roll
    return Roll(groove=g, **{k: rdesc[k] for k in RADIUS_KEYS + ("contact_length",) if rdesc.get(k) is not None})


def _grid_queries(rng, xs, zs, n):
    qs = []
    for _ in range(n):
        kind = rng.random()
        if kind < 0.25:
            qs.append((float(rng.choice(list(xs))), float(rng.choice(list(zs)))))
        elif kind < 0.45:
            x = float(rng.choice(list(xs)))
            z = float(rng.choice(list(zs)))
            x = min(max(math.nextafter(x, rng.choice([-math.inf, math.inf])), float(xs[0])), float(xs[-1]))
            z = min(max(math.nextafter(z, rng.choice([-math.inf, math.inf])), float(zs[0])), float(zs[-1]))
            qs.append((x, z))
        elif kind < 0.55:
            qs.append((0.0, rng.uniform(float(zs[0]), float(zs[-1]))))
        else:
            qs.append((rng.uniform(float(xs[0]), float(xs[-1])), rng.uniform(float(zs[0]), float(zs[-1]))))
    return qs


class _InterpolationRaised(Exception):
    pass


def _si(roll, x, z):
    """roll.surface_interpolation at one point inside the grid; an exception from inside the implementation is reported"""
    try:
        return float(roll.surface_interpolation(x, z)[0, 0])
    except Exception as ex:
        import traceback
        if any("/pyroll/" in f.filename for f in traceback.extract_tb(ex.__traceback__)):
            raise _InterpolationRaised(f"{type(ex).__name__}: {ex}") from ex
        raise


class _SurfaceRaised(Exception):
    pass


def _read(what, fn):
    """read one representation of the roll; an exception from inside the implementation is reported as such"""
    try:
        return fn()
    except Exception as ex:
        import traceback
        if any("/pyroll/" in f.filename for f in traceback.extract_tb(ex.__traceback__)):
            raise _SurfaceRaised(f"{what}: {type(ex).__name__}: {ex}") from ex
        raise


def _oracle_roll(ctx, desc, rdesc, g, roll, queries, symmetric_z=True, rp=None, stage="", second_evaluation=True, numeric=None):
    """`stage` names the point in the life of the roll object at which it is looked at (after its contact length was changed,
    after the pass it belongs to was solved a second time, ...); it is appended to every key (nothing for the first look at a
    new roll).  `rdesc` describes the data the roll has NOW, `rp` how to get there (replay)."""
    import numpy as np
    rp = rp if rp is not None else {"groove": desc, "roll": rdesc}
    at = f" [{stage[1:]}]" if stage else ""
    cp0 = np.array(g.contour_points, dtype=float, copy=True)      # the groove BEFORE anything is read on the roll
    try:
        grid = _oracle_roll_(ctx, desc, rdesc, g, roll, queries, symmetric_z, rp, stage, second_evaluation, numeric)
    except _InterpolationRaised as ex:
        ctx.violation("surface-interpolation-raises-inside-grid" + stage,
                      f"surface_interpolation raised for a point inside the grid{at}: {ex}", rp)
        grid = None
    except _SurfaceRaised as ex:
        # the roll is geometrically possible (max_radius above the deepest point of the groove, contact length below the
        # minimal radius): every representation of its surface exists
        ctx.violation("roll-surface-raises:" + rdesc.get("radius_mode", "nominal_radius") + stage,
                      f"a representation of the roll surface cannot be read{at}: {ex}", rp)
        grid = None
    # reading the roll's representations leaves the groove's own contour alone (they describe the SAME shape afterwards too)
    cp1 = np.asarray(g.contour_points, dtype=float)
    if cp1.shape != cp0.shape or not np.array_equal(cp1, cp0):
        ctx.violation("groove-contour-changed-by-roll-reads" + stage,
                      "the groove's contour_points differ after the roll's contour / surface grid / interpolation were read" + at,
                      rp)
    return grid


class _Staged:
    """ctx.violation with the stage of the roll's life appended to key and text"""

    def __init__(self, ctx, stage):
        self.ctx, self.stage = ctx, stage
        self.rng = ctx.rng

    def violation(self, key, what, obj):
        self.ctx.violation(key + self.stage, what + (f" [{self.stage[1:]}]" if self.stage else ""), obj)

    def count(self, key):
        self.ctx.count(key)


def _oracle_roll_numeric(ctx, rp, roll, xs, zs, tol, given=None):
    """`surface_interpolation(x, z)` takes positions: the surface at (x, z) is the same in whatever numeric type the two
    coordinates are handed over (see `_oracle_numeric_kinds`; here both coordinates in one kind, and an integer coordinate
    together with a float one).  Reference: the answer for float64 arrays of the same positions (held against the grid by
    the clauses above).  One row per z, one column per x - or the transposed layout the docstring names."""
    import numpy as np
    rng = ctx.rng
    xlo, xhi, zlo, zhi = float(xs[0]), float(xs[-1]), float(zs[0]), float(zs[-1])
    specs = [dict(s) for s in (given or []) if s.get("kind") in NUMERIC_KINDS and "x" in s and "z" in s]
    cross = [("python-int", "python-float"), ("float-list", "int64-array"), ("int-list", "numpy-float64")]
    for kx, kz in [(k, k) for k in ROLL_KINDS] + cross:
        nx = 1 if kx in SCALAR_KINDS else rng.randrange(2, 5)
        nz = 1 if kz in SCALAR_KINDS else rng.randrange(2, 5)
        fx, fz = _integer_fixed(xlo, xhi), _integer_fixed(zlo, zhi)
        rng.shuffle(fx)
        rng.shuffle(fz)
        vx = _values_of_class(rng, NUMERIC_KINDS[kx][0], xlo, xhi, nx, fixed=fx)
        vz = _values_of_class(rng, NUMERIC_KINDS[kz][0], zlo, zhi, nz, fixed=fz)
        if vx and vz:
            specs.append({"kind": kx, "kind_z": kz, "x": vx, "z": vz})
    for spec in specs:
        kx, kz = spec["kind"], spec.get("kind_z") or spec["kind"]
        kclass = NUMERIC_KINDS[kx][1] if kx == kz else NUMERIC_KINDS[kx][1] + "+" + NUMERIC_KINDS[kz][1]
        ax, az = _numeric_arg(kx, spec["x"]), _numeric_arg(kz, spec["z"])
        fx, fz = [float(v) for v in spec["x"]], [float(v) for v in spec["z"]]
        ctx.count("numeric-kind:roll:" + kclass)
        exp = np.asarray(_read("surface_interpolation (float64 arrays)",
                               lambda: roll.surface_interpolation(np.array(fx, dtype=float), np.array(fz, dtype=float))), dtype=float)
        try:
            with np.errstate(all="ignore"), warnings.catch_warnings():
                warnings.simplefilter("ignore")
                got = roll.surface_interpolation(ax, az)
        except Exception as ex:
            if not _in_pyroll(ex):
                raise
            ctx.violation("interpolation-raises-for:" + kclass,
                          f"surface_interpolation raised {type(ex).__name__}: {ex} for a point inside the grid handed over as "
                          f"{kx} {ax!r} / {kz} {az!r}", dict(rp, numeric=[spec]))
            continue
        gotf = np.asarray(got, dtype=float)
        if gotf.shape != exp.shape and gotf.shape == exp.T.shape:
            gotf = gotf.T
        if gotf.shape != exp.shape:
            ctx.violation("interpolation-shape-for:" + kclass,
                          f"surface_interpolation({kx} {ax!r}, {kz} {az!r}) answers with shape {gotf.shape}, for float64 arrays "
                          f"of the same positions with shape {exp.shape}", dict(rp, numeric=[spec]))
            continue
        bad = ~((np.abs(gotf - exp) <= tol) | (np.isnan(gotf) & np.isnan(exp)))
        if bad.any():
            i, j = (int(v) for v in np.argwhere(bad)[0])
            ctx.violation("interpolation-by-numeric-type:" + kclass,
                          f"surface_interpolation({kx} {ax!r}, {kz} {az!r}) answers {got!r}; for float64 arrays of the same "
                          f"positions the answer is {exp!r}", dict(rp, numeric=[spec], x=fx[min(j, len(fx) - 1)],
                                                                  z=fz[min(i, len(fz) - 1)]))


def _oracle_roll_(ctx, desc, rdesc, g, roll, queries, symmetric_z=True, rp=None, stage="", second_evaluation=True,
                  numeric=None):
    import numpy as np
    rp = rp if rp is not None else {"groove": desc, "roll": rdesc}
    ctx = _Staged(ctx, stage)
    rk = rdesc.get("radius_mode", "nominal_radius")
    cp = np.asarray(g.contour_points, dtype=float)
    rcp = np.asarray(_read("contour_points", lambda: roll.contour_points), dtype=float)
    R = float(_read("max_radius", lambda: roll.max_radius))
    L = _size(cp)
    tol = RTOL * max(R, L)
    # roll contour = groove contour
    if rcp.shape != cp.shape or not np.array_equal(rcp, cp):
        ctx.violation("roll-contour-differs", "roll.contour_points is not the groove's contour_points", rp)
        return None
    lc = np.asarray(_read("contour_line", lambda: roll.contour_line).coords, dtype=float)
    if lc.shape != cp.shape or not np.array_equal(lc, cp):
        ctx.violation("roll-contour-line-differs", "roll.contour_line does not run through the groove's contour points", rp)
    # the groove bottom is the circle of the surface of revolution with the smallest radius
    rmin = float(_read("min_radius", lambda: roll.min_radius))
    if not abs(rmin - (R - float(cp[:, 1].max()))) <= tol:
        ctx.violation("min-radius-not-at-groove-bottom:" + rk,
                      f"min_radius is {rmin!r}; the deepest contour point ({float(cp[:, 1].max())!r}) is "
                      f"{R - float(cp[:, 1].max())!r} from the roll axis (max_radius {R!r})", rp)
    xs = np.asarray(_read("surface_x", lambda: roll.surface_x), dtype=float)
    zs = np.asarray(_read("surface_z", lambda: roll.surface_z), dtype=float)
    Y = np.asarray(_read("surface_y", lambda: roll.surface_y), dtype=float)
    if zs.shape != (len(cp),) or not np.array_equal(zs, cp[:, 0]):
        ctx.violation("surface-z-differs", "roll.surface_z is not the abscissa column of the contour", rp)
        return None
    if Y.shape != (len(zs), len(xs)):
        ctx.violation("surface-y-shape", f"surface_y has shape {Y.shape}, expected ({len(zs)}, {len(xs)})", rp)
        return None
    # high point: the grid column at x = 0 reproduces the contour
    i0 = np.flatnonzero(xs == 0)
    if len(i0) != 1:
        ctx.violation("surface-x-no-high-point", f"surface_x has {len(i0)} nodes at the high point x = 0", rp)
        return None
    i0 = int(i0[0])
    e = np.abs(Y[:, i0] - cp[:, 1])
    if not np.all(e <= tol):
        k = int(np.argmax(e))
        ctx.violation("surface-high-point-differs",
                      f"surface_y at the high point, vertex {k}: {Y[k, i0]!r}, contour ordinate {cp[k, 1]!r}", dict(rp, vertex=k))
    # off the high point: surface of revolution about the axis at height max_radius: x^2 + (R - Y)^2 = (R - y)^2, Y <= R
    lhs = xs[None, :] ** 2 + (R - Y) ** 2
    rhs = ((R - cp[:, 1]) ** 2)[:, None] * np.ones_like(lhs)
    bad = ~(np.abs(lhs - rhs) <= RTOL * R * R) | ~(Y <= R + tol)
    if bad.any():
        k, j = (int(v) for v in np.argwhere(bad)[0])
        ctx.violation("surface-not-revolution",
                      f"grid node (vertex {k}, x index {j}): x={xs[j]!r}, surface_y={Y[k, j]!r}, contour ordinate {cp[k, 1]!r}, "
                      f"max_radius {R!r}: distance from the roll axis {math.sqrt(max(lhs[k, j], 0))!r} instead of {R - cp[k, 1]!r}",
                      dict(rp, vertex=k, xi=j))
    # symmetric in rolling direction / interpolable at all: the abscissa grid is pyroll's own construction
    if not np.array_equal(xs, -xs[::-1]):
        ctx.violation("surface-x-not-symmetric", f"surface_x is not symmetric about the high point: {xs[:3].tolist()} ... "
                      f"{xs[-3:].tolist()}", rp)
        return None
    if not np.all(np.diff(xs) > 0):
        ctx.violation("surface-x-not-ascending", "surface_x is not strictly ascending: the surface cannot be interpolated", rp)
        return None
    if not np.all(np.diff(zs) > 0):
        # a contour that is not strictly ascending in z (possible for hand-made polylines): if the implementation cannot
        # interpolate its own grid at a point inside it, that is reported; otherwise the roll is skipped
        _si(roll, 0.0, float(zs[len(zs) // 2]))
        ctx.count("roll-grid-not-ascending")
        return None
    # interpolation: exact at the nodes
    idx = [(int(ctx.rng.randrange(len(xs))), int(ctx.rng.randrange(len(zs)))) for _ in range(12)] + \
          [(i0, 0), (i0, len(zs) - 1), (0, len(zs) // 2), (len(xs) - 1, len(zs) // 2)]
    for (j, k) in idx:
        v = _si(roll, xs[j], zs[k])
        if not abs(v - Y[k, j]) <= tol * 1e-2:
            ctx.violation("interpolation-not-exact-at-node",
                          f"surface_interpolation at node (x index {j}, vertex {k}) gives {v!r}, grid value {Y[k, j]!r}",
                          dict(rp, xi=j, vertex=k))
            break
    # ... at ALL nodes at once, through the array form of the call (one row per contour vertex, as surface_y; the transposed
    # layout the docstring names is accepted as well)
    try:
        A = np.asarray(roll.surface_interpolation(xs, zs), dtype=float)
    except Exception as ex:
        import traceback
        if any("/pyroll/" in f.filename for f in traceback.extract_tb(ex.__traceback__)):
            raise _InterpolationRaised(f"(all nodes at once) {type(ex).__name__}: {ex}") from ex
        raise
    if A.shape != Y.shape and A.shape == Y.T.shape:
        A = A.T
    if A.shape == Y.shape:
        bad = ~(np.abs(A - Y) <= tol * 1e-2)
        if bad.any():
            k, j = (int(v) for v in np.argwhere(bad)[0])
            ctx.violation("interpolation-not-exact-at-node",
                          f"surface_interpolation(surface_x, surface_z) differs from surface_y at {int(bad.sum())} of {bad.size} "
                          f"nodes, first at (x index {j}, vertex {k}): {A[k, j]!r} instead of {Y[k, j]!r}",
                          dict(rp, xi=j, vertex=k))
    else:
        ctx.count("interpolation-array-form-shape-not-judged")
    # symmetric in rolling and width direction; at the high point it is the contour polyline; between the nodes a linear
    # interpolation stays between the values of the nodes around the point
    for (x, z) in queries:
        v = _si(roll, x, z)
        j1 = min(max(int(np.searchsorted(xs, x, side="left")), 1), len(xs) - 1)
        k1 = min(max(int(np.searchsorted(zs, z, side="left")), 1), len(zs) - 1)
        cell = Y[k1 - 1:k1 + 1, j1 - 1:j1 + 1]
        if not (float(cell.min()) - tol <= v <= float(cell.max()) + tol):
            ctx.violation("interpolation-outside-cell",
                          f"surface_interpolation({x!r}, {z!r}) = {v!r}; the four grid nodes around that point have the values "
                          f"{cell.ravel().tolist()!r}", dict(rp, x=x, z=z))
            break
        vx = _si(roll, -x, z)
        if not abs(v - vx) <= tol:
            ctx.violation("interpolation-not-symmetric-x", f"surface_interpolation({x!r}, {z!r}) = {v!r} but at -x: {vx!r}",
                          dict(rp, x=x, z=z))
            break
        if symmetric_z:
            vz = _si(roll, x, -z)
            if not abs(v - vz) <= tol:
                ctx.violation("interpolation-not-symmetric-z", f"surface_interpolation({x!r}, {z!r}) = {v!r} but at -z: {vz!r}",
                              dict(rp, x=x, z=z))
                break
        if x == 0.0:
            ref = float(np.interp(z, cp[:, 0], cp[:, 1]))
            if not abs(v - ref) <= tol:
                ctx.violation("interpolated-high-point-differs",
                              f"surface_interpolation(0, {z!r}) = {v!r}, the contour polyline is at {ref!r}", dict(rp, z=z))
                break
    # the surface at a position, in whatever numeric type the caller holds the coordinates (every new roll, every replay that
    # names such an argument, and one in three later looks at a used roll)
    if not stage or numeric or ctx.rng.random() < 0.33:
        _oracle_roll_numeric(ctx, rp, roll, xs, zs, tol, given=numeric)
    if not second_evaluation:
        return xs, zs, Y
    # a second evaluation on the used roll gives the same surface (nothing is kept from the first one but the cache)
    _read("reevaluate_cache", roll.reevaluate_cache)
    xs2 = np.asarray(_read("surface_x (second evaluation)", lambda: roll.surface_x), dtype=float)
    Y2 = np.asarray(_read("surface_y (second evaluation)", lambda: roll.surface_y), dtype=float)
    if xs2.shape != xs.shape or Y2.shape != Y.shape or not (np.array_equal(xs2, xs) and np.array_equal(Y2, Y)):
        ctx.violation("roll-surface-changes-on-reevaluation",
                      "surface_x / surface_y differ between the first evaluation and the one after reevaluate_cache()", rp)
    return xs, zs, Y


# ------------------------------------------------------------------------------------------------------------------
# the life of ONE roll object: it is used, its data change, it is used again
# ------------------------------------------------------------------------------------------------------------------
ROLL_OPS = ["contact-length", "contact-length", "contact-length", "contact-length-unset", "radius", "discretization",
            "explicit-surface-x", "surface-x-unset", "other-roll", "second-query", "groove", "groove"]
# (keys stay below the 60 characters the replay file name keeps, and differ early)
STAGE = {"contact-length": ":new-contact-length", "contact-length-unset": ":no-contact-length", "radius": ":new-radius",
         "discretization": ":new-discretization", "explicit-surface-x": ":explicit-surface-x",
         "surface-x-unset": ":surface-x-unset", "other-roll": ":after-other-roll", "second-query": ":second-query",
         "groove": ":new-groove"}
# past failures first: a contact length changed twice on the roll of a constricted box groove (the extent of the grid stays,
# its inner nodes move), a roll that loses its contact length, one whose discretisation and radius change
CORPUS_ROLL_LIVES = [
    {"groove": {"cls": "ConstrictedBoxGroove", "kwargs": dict(r1=5, r2=10, r4=5, usable_width=100, flank_angle=85, depth=20,
                                                              indent=5, pad_angle=0), "pad_mode": "0"},
     "roll": {"nominal_radius": 200.0, "contact_length": 50.0, "mode": "set", "nx": None, "radius_mode": "nominal_radius",
              "ops": [["contact-length", 20.0], ["second-query"], ["contact-length", 90.0]]}},
    {"groove": {"cls": "RoundGroove", "kwargs": dict(r1=2, r2=10, depth=10, pad_angle=0), "pad_mode": "0"},
     "roll": {"nominal_diameter": 200.0, "contact_length": 50.0, "mode": "set", "nx": 7, "radius_mode": "nominal_diameter",
              "ops": [["contact-length-unset"], ["contact-length", 3.0], ["other-roll", 40.0], ["discretization", 12],
                      ["radius", 1.25, None], ["explicit-surface-x", [5.0, 21.5, 60.0]], ["contact-length", 11.0],
                      ["surface-x-unset"]]}},
    # another groove is mounted on a used roll (`roll.groove = ...` + ONE reevaluate_cache()): the replay of the observation on the
    # old statement order of Roll.reevaluate_cache (min_radius stays 92 instead of 89; surface_y holds NaN), then a shallower one
    {"groove": {"cls": "RoundGroove", "kwargs": dict(r1=2, r2=10, depth=8, pad_angle=0), "pad_mode": "0"},
     "roll": {"nominal_radius": 100.0, "contact_length": 20.0, "mode": "set", "nx": None, "radius_mode": "nominal_radius",
              "ops": [["groove", {"cls": "RoundGroove", "kwargs": dict(r1=2, r2=12, depth=11, pad_angle=0), "pad_mode": "0"}, None, True],
                      ["second-query"], ["contact-length", 31.0],
                      ["groove", {"cls": "CircularOvalGroove", "kwargs": dict(depth=5.05, r1=7, r2=33, pad_angle=0),
                                  "pad_mode": "0"}, None, False]]}},
]


def _current_radius(cur):
    """the radius at the highest point of the groove, from the data the roll was given"""
    if cur.get("max_radius") is not None:
        return float(cur["max_radius"])
    if cur.get("nominal_radius") is not None:
        return float(cur["nominal_radius"])
    return float(cur["nominal_diameter"]) / 2


def _reevaluate(roll, nx):
    """`reevaluate_cache()` - how a changed value is made visible (the solver does it in every iteration, a user after setting
    a value); the hook values are re-evaluated right there, so the discretisation count must already be the roll's"""
    with _ConfigOverride(ROLL_SURFACE_DISCRETIZATION_COUNT=nx):
        _read("reevaluate_cache", roll.reevaluate_cache)


def _scaled_desc(desc, f):
    """the description of the similar groove: every length of `desc` multiplied by `f`"""
    d = dict(desc)
    if desc["cls"] == "SplineGroove":
        d["points"] = [[float(a) * f, float(b) * f] for a, b in desc["points"]]
        d["usable_width"] = desc["usable_width"] * f if desc.get("usable_width") else None
        d["input"] = "list"
    else:
        d["kwargs"] = {k: (v if k in ANGLES or isinstance(v, bool) or not isinstance(v, (int, float)) else v * f)
                       for k, v in desc["kwargs"].items()}
    return d


def _another_groove(ctx, desc, g, R, given=None):
    """A groove to mount on a used roll in place of `g` (`R`: the roll's radius at the highest point of the groove): the similar
    groove 0.4..0.95 / 1.05..1.8 times as large or - generic grooves, every second time - a groove of any class, pad angle and
    sample count of about the size of the present one; shrunk where the roll body would be too thin for it (the roll stays one
    `_make_roll` could have produced: radius at the groove bottom >= 1.2 x groove size).  -> (description, groove) or None;
    grooves outside the hypotheses of the groove theorems are not mounted (as in `_groove_case`)."""
    import numpy as np
    rng = ctx.rng
    L = _size(np.asarray(g.contour_points, dtype=float))
    if given is not None:
        cands = [("given", given)]
    else:
        cands = []
        if desc["cls"] != "SplineGroove" and rng.random() < 0.5:
            cands.append(("other", _random_groove_desc(rng)))
        cands.append(("similar", _scaled_desc(desc, rng.choice([rng.uniform(0.4, 0.95), rng.uniform(1.05, 1.8)]))))
    for how, d in cands:
        for attempt in range(3):
            try:
                g2 = _build_groove(d)
            except Exception as ex:
                if not _in_pyroll(ex) and not isinstance(ex, ValueError):
                    raise
                ctx.count("groove-rejected:" + type(ex).__name__)
                break
            cp2 = np.asarray(g2.contour_points, dtype=float)
            L2, ymax2 = _size(cp2), float(cp2[:, 1].max())
            if not np.all(np.diff(cp2[:, 0]) > 0):
                break
            if all(hasattr(g2, n) for n in JUNCTIONS) and not _check_hypotheses(ctx, g2, L2):
                break
            need = ymax2 + 1.2 * L2
            if how == "given":
                return d, g2
            if how == "other" and attempt == 0:
                d = _scaled_desc(d, min(L / L2 * rng.uniform(0.6, 1.5), 0.95 * R / need))
                continue
            if R >= need:
                return d, g2
            d = _scaled_desc(d, R / need * rng.uniform(0.5, 0.95))
    return None


class _CountOnly:
    """the check context with `violation` turned into a counter (what the oracle sees on the OLD statement order of
    `Roll.reevaluate_cache` after a groove replacement: the documented observation, see RESET_FIRST_REQUIRED)"""

    def __init__(self, ctx):
        self._ctx = ctx

    def __getattr__(self, name):
        return getattr(self._ctx, name)

    def violation(self, key, what, obj):
        self._ctx.count("groove-replacement:" + key + ":counted-only(Roll.reevaluate_cache empties after the hook values)")


def _roll_life(ctx, desc, rdesc, g, roll, batch, with_model, symmetric_z=True, extra_queries=None, numeric=None):
    """Everything `_oracle_roll` demands of a new roll is demanded again of the SAME object after each change of its data:
    a new contact length (the grid keeps its extent and size, its inner nodes move), no contact length any more, other radii,
    another discretisation count, a surface_x grid given by the user, the same after the value is taken back, after another
    roll on the same groove was looked at, simply when asked a second time, and after ANOTHER GROOVE was mounted on it
    (`roll.groove = ...`, one `reevaluate_cache()`; everything is then demanded against the new groove; on the old statement
    order of `Roll.reevaluate_cache` what is seen from there to the end of the life is only counted, see RESET_FIRST_REQUIRED).
    `rdesc["ops"]` (replay, corpus) fixes the operations; otherwise 1..4 are drawn and written there."""
    import numpy as np
    from pyroll.core import Roll
    rng = ctx.rng
    cp = np.asarray(g.contour_points, dtype=float)
    ymax = float(cp[:, 1].max())
    given = rdesc.get("ops")
    n_ops = len(given) if given is not None else rng.randrange(1, 5)
    ops = []
    rdesc["ops"] = ops
    rp = {"groove": desc, "roll": rdesc}
    cur = {k: v for k, v in rdesc.items() if k != "ops"}
    cur["explicit_x"] = False
    strict, tainted, desc0 = _groove_replacement_strict(ctx), False, desc
    for i in range(n_ops):
        R = _current_radius(cur)
        rmin = R - ymax
        kind = given[i][0] if given is not None else rng.choice(ROLL_OPS)
        if given is None:
            if kind == "contact-length-unset" and cur["mode"] != "set":
                kind = "contact-length"
            if kind == "surface-x-unset" and not cur["explicit_x"]:
                kind = "second-query"
            if kind == "explicit-surface-x" and cur["explicit_x"]:
                kind = "contact-length"
        # ---- the concrete operation
        if kind == "contact-length":
            op = [kind, float(given[i][1]) if given is not None else rmin * 10 ** rng.uniform(-3, math.log10(0.9))]
            roll.contact_length = op[1]
            cur.update(contact_length=op[1], mode="set")
        elif kind == "contact-length-unset":
            op = [kind]
            roll.__dict__.pop("contact_length", None)
            cur.update(contact_length=None, mode="default")
        elif kind == "radius":
            if given is not None:
                f, cl = float(given[i][1]), given[i][2]
            else:
                f = rng.choice([rng.uniform(0.7, 0.98), rng.uniform(1.02, 1.5)])
                cl = None
                if cur["mode"] == "set" and cur["contact_length"] > 0.9 * (f * R - ymax):
                    cl = 0.9 * (f * R - ymax) * rng.uniform(0.2, 1.0)      # stays a roll that can exist
            op = [kind, f, cl]
            for k in RADIUS_KEYS:
                if cur.get(k) is not None:
                    cur[k] = cur[k] * f
                    setattr(roll, k, cur[k])
            if cl is not None:
                roll.contact_length = float(cl)
                cur["contact_length"] = float(cl)
            if cur["explicit_x"]:
                # the user's grid belongs to the old roll body: it is rescaled with the radius at the groove bottom
                roll.surface_x = np.asarray(roll.__dict__["surface_x"], dtype=float) * ((f * R - ymax) / rmin)
        elif kind == "discretization":
            op = [kind, int(given[i][1]) if given is not None else rng.choice([n for n in range(2, 25) if n != cur["nx"]])]
            cur["nx"] = op[1]
        elif kind == "explicit-surface-x":
            # a grid of the user's: symmetric, ascending, through the high point, inside the groove bottom circle
            pos = [float(v) for v in given[i][1]] if given is not None else \
                sorted(rmin * rng.uniform(0.01, 0.98) for _ in range(rng.randrange(1, 9)))
            pos = [v for k, v in enumerate(pos) if 0 < v < rmin and (k == 0 or v > pos[k - 1])]
            op = [kind, pos]
            roll.surface_x = np.array([-v for v in reversed(pos)] + [0.0] + pos)
            cur["explicit_x"] = True
        elif kind == "surface-x-unset":
            op = [kind]
            roll.__dict__.pop("surface_x", None)
            cur["explicit_x"] = False
        elif kind == "other-roll":
            op = [kind, float(given[i][1]) if given is not None else rmin * 10 ** rng.uniform(-3, math.log10(0.9))]
        elif kind == "second-query":
            op = [kind]
        elif kind == "groove":
            new = _another_groove(ctx, desc, g, R, given=given[i][1] if given is not None else None)
            if new is None:
                ctx.count("roll-op:groove:none-found")
                op, kind = ["second-query"], "second-query"
            else:
                desc, g = new
                cp = np.asarray(g.contour_points, dtype=float)
                old_rmin, ymax = rmin, float(cp[:, 1].max())
                rmin = R - ymax
                if given is not None:
                    cl = given[i][2]
                else:
                    cl = None
                    if cur["mode"] == "set" and cur["contact_length"] > 0.9 * rmin:
                        cl = 0.9 * rmin * rng.uniform(0.2, 1.0)          # stays a roll that can exist
                # the roll was in use: in three of four cases its contour line is looked at once more (as every look at the
                # roll does) right before the other groove is mounted - what the roll remembers is then in place
                looked = bool(given[i][3]) if given is not None and len(given[i]) > 3 else rng.random() < 0.75
                if looked:
                    _read("contour_line", lambda: roll.contour_line)
                op = [kind, desc, cl, looked]
                roll.groove = g
                if cl is not None:
                    roll.contact_length = float(cl)
                    cur["contact_length"] = float(cl)
                if cur["explicit_x"]:
                    # the user's grid belongs to the old groove bottom: it is rescaled with the radius there
                    roll.surface_x = np.asarray(roll.__dict__["surface_x"], dtype=float) * (rmin / old_rmin)
                if not strict:
                    ctx, tainted = _CountOnly(ctx), True
                ctx.count("roll-op:groove:" + ("reported" if strict else "counted-only")
                          + (":contour-line-read-before" if looked else ""))
        else:
            raise ValueError(f"unknown roll operation {kind!r}")
        ops.append(op)
        ctx.count("roll-op:" + kind)
        stage = STAGE[kind]
        rp_i = dict(rp, step=i + 1)
        now = dict(cur)
        if kind == "other-roll":
            # another roll object on the same groove with the same radii, another contact length: each of the two describes its
            # own surface, whichever was asked last
            other = Roll(groove=g, **dict({k: cur[k] for k in RADIUS_KEYS if cur.get(k) is not None}, contact_length=op[1]))
            with _ConfigOverride(ROLL_SURFACE_DISCRETIZATION_COUNT=cur["nx"]):
                oxs = np.asarray(_read_or_none(lambda: other.surface_x), dtype=float)
                oq = _grid_queries(rng, oxs, cp[:, 0], 6) if oxs.ndim == 1 and len(oxs) else []
                _oracle_roll(ctx, desc, dict(now, contact_length=op[1], mode="set"), g, other, oq, symmetric_z, rp=rp_i,
                             stage=":other-roll")
        try:
            if kind not in ("other-roll", "second-query"):
                _reevaluate(roll, cur["nx"])
        except _SurfaceRaised as ex:
            ctx.violation("roll-surface-raises:" + cur["radius_mode"] + stage,
                          f"reevaluate_cache() of a roll that can exist raised: {ex} [{stage[1:]}]", rp_i)
            return
        with _ConfigOverride(ROLL_SURFACE_DISCRETIZATION_COUNT=cur["nx"]):
            xs = np.asarray(_read_or_none(lambda: roll.surface_x), dtype=float)
            ok = xs.ndim == 1 and len(xs) > 0
            queries = _grid_queries(rng, xs, cp[:, 0], 10) if ok else []
            queries += _inside(extra_queries, xs, cp)
            grid = _oracle_roll(ctx, desc, now, g, roll, queries, symmetric_z, rp=rp_i, stage=stage, numeric=numeric)
        if with_model and grid is not None and cur["nx"] is not None and not tainted:
            _batch_roll(batch, desc, now, g, roll, grid, queries, rng, rp=rp_i, explicit_x=cur["explicit_x"])
    ctx.case(["roll-life", desc0.get("cls"), [rdesc.get(k) for k in RADIUS_KEYS], rdesc.get("contact_length"), rdesc.get("nx"),
              [[o[0]] + [round(v, 9) if isinstance(v, float) else v.get("cls") if isinstance(v, dict) else v
                         for v in o[1:] if not isinstance(v, list)] for o in ops]], nontrivial=True)


# ------------------------------------------------------------------------------------------------------------------
# spline grooves
# ------------------------------------------------------------------------------------------------------------------
def _random_polyline(rng):
    s = 10 ** rng.uniform(-3, 0)
    n = rng.randrange(3, 13)
    w, d = s * rng.uniform(10, 80), s * rng.uniform(2, 40)
    sym = rng.random() < 0.5
    off = rng.choice([0.0, 0.0, s * rng.uniform(-100, 100)])
    if sym:
        m = max(1, n // 2)
        xs = sorted(rng.uniform(0.02, 0.98) * w / 2 for _ in range(m))
        ys = [d * rng.uniform(0.05, 1) for _ in range(m)]
        half = list(zip(xs, ys))
        inner = [(-x, y) for x, y in reversed(half)] + [(0.0, d * rng.uniform(0.3, 1))] + half
    else:
        xs = sorted(rng.uniform(-0.49, 0.49) * w for _ in range(n))
        inner = [(x, d * rng.uniform(0.05, 1)) for x in xs]
    inner = [p for i, p in enumerate(inner) if i == 0 or p[0] - inner[i - 1][0] > 1e-6 * w]
    touch = rng.random() < 0.15
    if touch and not sym:
        # the contour touches the face line in between (grooves side by side): some vertices have both neighbours at 0
        inner = [(x, 0.0 if i % 2 == 1 else y) for i, (x, y) in enumerate(inner)]
    pts = [(-w / 2, 0.0)] + inner + [(w / 2, 0.0)]
    faces = rng.random() < 0.5
    if faces:
        pl, pr = w * rng.uniform(0.05, 0.4), w * rng.uniform(0.05, 0.4)
        if sym:
            pr = pl
        pts = [(-w / 2 - pl, 0.0)] + pts + [(w / 2 + pr, 0.0)]
    pts = [[x + off, y] for x, y in pts]
    lattice = False
    if rng.random() < 0.15:
        # a polyline drawn on a lattice of whole numbers whose extent has a whole-numbered middle: after the centring every
        # vertex abscissa is a whole number again (a caller may well hold such abscissae in integers)
        u = s * rng.choice([0.5, 1.0, 2.0])
        q = [[float(round(x / u)), float(round(y / u))] for x, y in pts]
        q = [p for i, p in enumerate(q) if i == 0 or p[0] > q[i - 1][0]]
        if (q[0][0] + q[-1][0]) % 2:
            q[-1][0] += 1.0
        inner_max = max((p[1] for p in q), default=0.0)
        if len(q) >= 3 and inner_max > 0 and q[0][1] == 0 and q[-1][1] == 0 and all(b[0] > a[0] for a, b in zip(q, q[1:])):
            pts, lattice, s = q, True, 1.0
    return {"points": pts, "symmetric": sym and off == 0.0 and not lattice, "faces": faces and not lattice, "scale": s,
            "touching": bool(touch and not sym), "lattice": lattice}


def _refine(rng, pts):
    """insert 1..30 collinear vertices: all segments / left flank only / one segment / face runs; uneven"""
    k = rng.randrange(1, 31)
    mode = rng.choice(["all", "left", "one", "faces", "clustered"])
    n = len(pts)
    segs = list(range(n - 1))
    if mode == "left":
        segs = segs[: max(1, (n - 1) // 3)]
    elif mode == "one":
        segs = [rng.choice(segs)]
    elif mode == "faces":
        flat = [i for i in segs if pts[i][1] == 0 and pts[i + 1][1] == 0]
        segs = flat or segs[:1]
    ins = {}
    for _ in range(k):
        i = rng.choice(segs)
        t = rng.uniform(0.02, 0.98) if mode != "clustered" else rng.uniform(0.9, 0.999)
        ins.setdefault(i, []).append(t)
    out = []
    for i in range(n - 1):
        out.append(list(pts[i]))
        (x0, y0), (x1, y1) = pts[i], pts[i + 1]
        last = x0
        for t in sorted(set(ins.get(i, []))):
            x = x0 + t * (x1 - x0)
            if x <= last or x >= x1:
                continue
            out.append([x, y0 + t * (y1 - y0)])
            last = x
    out.append(list(pts[-1]))
    return out, mode


def _strip_expected(pts):
    """the polyline without its horizontal boundary runs (what 'the polyline it was given' means for the groove shape:
    the face runs only mark the roll face) - written from the docstring '# strip boundary'"""
    i, j = 0, len(pts) - 1
    while i + 1 < j and pts[i + 1][1] == 0:
        i += 1
    while j - 1 > i and pts[j - 1][1] == 0:
        j -= 1
    return pts[i: j + 1]


def _shoelace(p):
    import numpy as np
    p = np.asarray(p, dtype=float)
    x, y = p[:, 0], p[:, 1]
    return 0.5 * abs(float(np.dot(x, np.roll(y, -1)) - np.dot(y, np.roll(x, -1))))


def _oracle_spline(ctx, sdesc, g, g2, queries):
    """`sdesc["stage"]` (optional) names the point in the life of the groove at which it is looked at (e.g. after the
    caller went on using the array the groove was built from); it is appended to every key"""
    import numpy as np
    pts = sdesc["points"]
    rp = {"spline": sdesc}
    stage = (":" + sdesc["stage"]) if sdesc.get("stage") else ""
    exp = np.array(_strip_expected(pts), dtype=float)
    W = float(exp[-1, 0] - exp[0, 0])
    S = max(W, float(exp[:, 1].max()))
    tol = RTOL * S
    cp = np.asarray(g.contour_points, dtype=float)
    # reproduces the polyline: same ordinates, abscissae shifted by one common constant
    if cp.shape != exp.shape:
        ctx.violation("spline-vertex-count" + stage,
                      f"the groove has {len(cp)} vertices, the (boundary-stripped) polyline {len(exp)}", rp)
        return
    shift = exp[:, 0] - cp[:, 0]
    if not (np.all(np.abs(cp[:, 1] - exp[:, 1]) <= tol) and np.all(np.abs(shift - shift[0]) <= tol)):
        ctx.violation("spline-not-the-polyline" + stage, "the groove's contour is not a translate of the polyline it was given" +
                      (f" ({sdesc['stage']}): contour_points {cp.tolist()!r}" if stage else ""), rp)
        return
    # centred on the middle of its extent
    mid = (float(cp[:, 0].min()) + float(cp[:, 0].max())) / 2
    if not abs(mid) <= tol:
        ctx.violation("spline-not-centred-on-extent" + (":refined-input" if sdesc.get("is_refined") else "") + stage,
                      f"the groove extends from {cp[:, 0].min()!r} to {cp[:, 0].max()!r}: its middle is at {mid!r}, not 0 "
                      f"(width {W!r})", rp)
    if not abs(float(g.width) - W) <= tol:
        ctx.violation("spline-width" + stage, f"width {g.width!r}, the polyline extends over {W!r}", rp)
    uw = sdesc.get("usable_width")
    if not abs(float(g.usable_width) - (uw if uw else W)) <= tol:
        ctx.violation("spline-usable-width" + stage, f"usable_width {g.usable_width!r}, expected {(uw if uw else W)!r}", rp)
    if not abs(float(g.depth) - float(exp[:, 1].max())) <= tol:
        ctx.violation("spline-depth" + stage, f"depth {g.depth!r}, deepest vertex {exp[:, 1].max()!r}", rp)
    zq = cp[:, 0].copy()
    d = np.asarray(g.local_depth(zq), dtype=float)
    if not np.all(np.abs(d - cp[:, 1]) <= tol):
        k = int(np.argmax(np.abs(d - cp[:, 1])))
        ctx.violation("spline-vertex-off-depth-function" + stage,
                      f"vertex {k} ({float(cp[k, 0])!r}, {float(cp[k, 1])!r}) of the spline groove is not on its local_depth "
                      f"({float(d[k])!r})", rp)
    # the other representations of the same shape: the contour line runs through the vertices, the cross-section is the
    # area between the polyline and the face line
    lc = np.asarray(g.contour_line.coords, dtype=float)
    if lc.shape != cp.shape or not np.all(np.abs(lc - cp) <= tol):
        ctx.violation("spline-contour-line-differs" + stage, "contour_line does not run through contour_points: "
                      f"{lc.tolist()!r} vs {cp.tolist()!r}", rp)
    area, ref_area = float(g.cross_section.area), _shoelace(exp)
    if not abs(area - ref_area) <= RTOL * S * S:
        ctx.violation("spline-cross-section-differs" + stage,
                      f"cross_section has the area {area!r}, the polyline it was given encloses {ref_area!r}", rp)
    # depth function = the polyline (in the coordinates of the middle of the extent), also between the vertices
    c = (float(exp[0, 0]) + float(exp[-1, 0])) / 2
    for q in queries:
        ref = float(np.interp(q + c, exp[:, 0], exp[:, 1]))
        v = float(g.local_depth(q))
        if not abs(v - ref) <= tol:
            ctx.violation("spline-depth-differs" + (":refined-input" if sdesc.get("is_refined") else "") + stage,
                          f"local_depth({q!r}) = {v!r}; the polyline, measured from the middle of its extent, is at {ref!r}",
                          dict(rp, z=q))
            break
    # the depth at an abscissa is the depth at that abscissa, in whatever numeric type the caller holds it
    _integer_vertices(ctx, rp, g, cp, tol, "spline-vertex-off-depth-function:integer-abscissa" + stage, "the spline groove's")
    lo, hi = 1.1 * float(cp[0, 0]), 1.1 * float(cp[-1, 0])
    _oracle_numeric_kinds(ctx, rp, g.local_depth, lambda p: float(np.asarray(g.local_depth(float(p)), dtype=float)), lo, hi,
                          _integer_fixed(lo, hi, [float(v) for v in cp[:, 0]]), S, "spline-depth", stage=stage,
                          given=sdesc.get("numeric"))
    # independent of the sampling: the refined polyline gives the same groove
    if g2 is not None:
        rp2 = dict(rp, refined=sdesc["refined"], mode=sdesc.get("mode"))
        for name in ("width", "usable_width", "depth"):
            a, b = float(getattr(g, name)), float(getattr(g2, name))
            if not abs(a - b) <= tol:
                ctx.violation(f"spline-refinement-changes-{name}", f"{name} {a!r} becomes {b!r} after inserting collinear vertices "
                              f"({sdesc.get('mode')})", rp2)
        for q in queries:
            a, b = float(g.local_depth(q)), float(g2.local_depth(q))
            if not abs(a - b) <= tol:
                ctx.violation("spline-refinement-changes-depth-function",
                              f"local_depth({q!r}) = {a!r} becomes {b!r} after inserting collinear vertices ({sdesc.get('mode')})",
                              dict(rp2, z=q))
                break


# the caller's side of a spline groove: in which container the polyline is handed over, and what the caller does with that
# container afterwards (a family of grooves is produced from one working array, one after the other)
INPUT_KINDS = ["list", "list", "ndarray", "ndarray", "ndarray", "ndarray-view", "tuple"]


def _container(kind, points):
    import numpy as np
    if kind == "tuple":
        return tuple((float(a), float(b)) for a, b in points)
    if kind == "ndarray":
        return np.array(points, dtype="float64")
    if kind == "ndarray-view":       # float64, not contiguous: every second row / the first two columns of a larger array
        big = np.full((2 * len(points), 3), 7.0)
        big[::2, :2] = points
        return big[::2, :2]
    return [[float(a), float(b)] for a, b in points]


def _content(container):
    return [[float(a), float(b)] for a, b in container]


def _random_reuse(rng, scale):
    ops = []
    for _ in range(rng.randrange(1, 4)):
        k = rng.choice(["scale-y", "scale-y", "scale", "shift-x", "reverse-y", "rebuild", "rebuild"])
        if k == "scale-y":
            ops.append([k, rng.choice([0.75, 0.5, rng.uniform(0.3, 1.5)])])
        elif k == "scale":
            ops.append([k, rng.uniform(0.3, 3)])
        elif k == "shift-x":
            ops.append([k, scale * rng.uniform(-50, 50)])
        else:
            ops.append([k])
    if ops[-1][0] != "rebuild" and rng.random() < 0.6:
        ops.append(["rebuild"])
    if rng.random() < 0.15:
        ops.append(["zero"])
    return ops


def _apply_reuse(container, op):
    """what the CALLER does with its own container (never touches the groove)"""
    import numpy as np
    if isinstance(container, tuple):
        return                      # immutable: nothing the caller can do to it
    rows = range(len(container))
    if isinstance(container, np.ndarray):
        if op[0] == "scale-y":
            container[:, 1] *= op[1]
        elif op[0] == "scale":
            container *= op[1]
        elif op[0] == "shift-x":
            container[:, 0] += op[1]
        elif op[0] == "reverse-y":
            container[:, 1] = container[::-1, 1].copy()
        elif op[0] == "zero":
            container[:] = 0
        return
    if op[0] == "reverse-y":
        ys = [container[i][1] for i in rows][::-1]
    for i in rows:
        if op[0] == "scale-y":
            container[i][1] *= op[1]
        elif op[0] == "scale":
            container[i][0] *= op[1]
            container[i][1] *= op[1]
        elif op[0] == "shift-x":
            container[i][0] += op[1]
        elif op[0] == "reverse-y":
            container[i][1] = ys[i]
        elif op[0] == "zero":
            container[i][0] = container[i][1] = 0.0


def _fixed_queries(points):
    exp = _strip_expected(points)
    half = (exp[-1][0] - exp[0][0]) / 2
    return [half * (2 * i / 22 - 1) for i in range(23)]


# ------------------------------------------------------------------------------------------------------------------
# correspondence (K): model Float run vs the real objects
# ------------------------------------------------------------------------------------------------------------------
class _Batch:
    def __init__(self):
        self.lines = []
        self.checks = []      # (line index, kind, payload)

    def add(self, line, kind=None, payload=None):
        self.lines.append(line)
        if kind:
            self.checks.append((len(self.lines) - 1, kind, payload))


def _env_line(env):
    return "env " + " ".join(f"{k}={bits(v)}" for k, v in env.items())


def _groove_env(g):
    env = {a: float(getattr(g, a)) for a in INPUT_ATTRS}
    env["pad"] = math.hypot(float(g.z0) - float(g.z1), float(g.y0) - float(g.y1))
    return env


def _batch_groove(batch, desc, g, qs, info, rng):
    import numpy as np
    env = _groove_env(g)
    L = _size(np.asarray(g.contour_points))
    batch.add(_env_line(env))
    el = " ".join(f"{k}={bits(v)}" for k, v in env.items())
    for name, _ in info["chain"]:
        real = getattr(g, name, None)      # `l12` is a local of __init__, everything else an attribute
        if real is None:
            continue
        batch.add(f"{name} {el}", "scalar", dict(what=f"junction chain entry {name}", real=float(real), tol=1e-9 * L + 1e-12,
                                                 replay={"groove": desc}))
    for fname in sorted(info["fns"]):
        z = qs[len(fname) % len(qs)]
        with np.errstate(all="ignore"):
            real = float(np.asarray(getattr(g, fname)(np.array([abs(z)])), dtype=float)[0])
        batch.add(f"{fname} {el} z={bits(abs(z))}", "scalar",
                  dict(what=f"contour-line method {fname} at z={abs(z)!r}", real=real, tol=1e-8 * L, replay={"groove": desc}))
    from pyroll.core import Config
    N = desc.get("N") or int(Config.GROOVE_RADIUS_POINT_COUNT)
    batch.add(f"contour {N}", "polyline", dict(what="contour polyline", real=np.asarray(g.contour_points, dtype=float),
                                               tol=1e-8 * L, replay={"groove": desc}))
    with np.errstate(all="ignore"):
        d = np.asarray(g.local_depth(np.array(qs)), dtype=float)
    batch.add("depth " + " ".join(str(bits(q)) for q in qs), "list",
              dict(what="local_depth", real=[float(v) for v in d], args=qs, tol=1e-8 * L, replay={"groove": desc}))
    # ... and with what the source does to its ARGUMENT (`depth_arg_ops`): integer abscissae (a python list of ints, an int64
    # array) and float ones; the model says in which dtype each value comes back (an integer one = truncated) and which value
    hi = 1.1 * float(g.z0)
    fixed = _integer_fixed(-hi, hi, [float(getattr(g, n)) for n in JUNCTIONS])
    rng.shuffle(fixed)
    ints = _values_of_class(rng, "int", -hi, hi, 6, fixed=fixed)
    for how, arg in (("int-list", [int(v) for v in ints]), ("int64-array", np.array(ints, dtype=np.int64)),
                     ("float64-array", np.array(qs[:6], dtype=float))):
        with np.errstate(all="ignore"):
            r = np.asarray(g.local_depth(arg))
        integral = r.dtype.kind in "iu"
        real = [("i", int(v)) if integral else ("f", float(v)) for v in r.reshape(-1)]
        line = "deptharg " + ("f " + " ".join(str(bits(float(v))) for v in arg) if how == "float64-array"
                              else "i " + " ".join(str(int(v)) for v in arg))
        batch.add(line, "argkinds", dict(what=f"local_depth({how} {[float(v) if how == 'float64-array' else int(v) for v in arg]!r})",
                                         real=real, tol=1e-8 * L,
                                         replay={"groove": desc, "numeric": [{"kind": how, "values": [float(v) if how == "float64-array" else int(v) for v in arg]}]}))


def _batch_roll(batch, desc, rdesc, g, roll, grid, queries, rng, rp=None, explicit_x=False):
    """`rdesc` = the data the roll has now; `explicit_x`: the grid abscissae are the user's (or those of a roll inside a pass,
    whose contact length is the solver's): they are handed to the model as they are instead of being compared"""
    import numpy as np
    xs, zs, Y = grid
    cp = np.asarray(g.contour_points, dtype=float)
    R = float(roll.max_radius)
    env = {"max_radius": R, "min_radius": float(roll.min_radius)}
    if rdesc["mode"] == "set":
        env["contact_length"] = float(roll.contact_length)
    rp = rp if rp is not None else {"groove": desc, "roll": rdesc}
    # the translated hooks the radii of the surface come from, on this very roll: min_radius from max_radius and the deepest
    # contour ordinate; max_radius from the nominal radius when it is not given explicitly
    ymax = float(roll.contour_line.bounds[3])
    batch.add(f"roll_min_radius max_radius={bits(R)} contour_line.bounds[3]={bits(ymax)}", "scalar",
              dict(what="min_radius of the roll", real=float(roll.min_radius), tol=1e-12 * R, replay=rp))
    if rdesc.get("max_radius") is None:
        batch.add(f"roll_max_radius nominal_radius={bits(float(roll.nominal_radius))}", "scalar",
                  dict(what="max_radius of the roll (not given explicitly)", real=R, tol=0.0, replay=rp))
    batch.add(_env_line(env))
    if explicit_x:
        batch.add("xs " + " ".join(str(bits(float(v))) for v in xs))
    else:
        n = (len(xs) + 1) // 4
        batch.add(f"surfx {n} {rdesc['mode']}", "list", dict(what="surface_x", real=[float(v) for v in xs], args=None,
                                                             tol=1e-9 * R, replay=rp))
    batch.add("pts " + " ".join(f"{bits(a)} {bits(b)}" for a, b in cp))
    batch.add("grid")
    for _ in range(6):
        i, j = rng.randrange(len(xs)), rng.randrange(len(zs))
        batch.add(f"gridat {i} {j}", "scalar", dict(what=f"surface_y[{j}, {i}]", real=float(Y[j, i]), tol=1e-9 * R, replay=rp))
    for (x, z) in queries[:8]:
        real = _si(roll, x, z)
        batch.add(f"interp {bits(x)} {bits(z)}", "scalar",
                  dict(what=f"surface_interpolation({x!r}, {z!r})", real=real, tol=1e-9 * R, replay=dict(rp, x=x, z=z)))
    # the array form with what the source does to the two positions (`interp_x_ops`, `interp_z_ops`) and the layout of the
    # result: integer positions (int64 arrays), float positions, and integers for one coordinate only
    xlo, xhi, zlo, zhi = float(xs[0]), float(xs[-1]), float(zs[0]), float(zs[-1])
    fx, fz = _integer_fixed(xlo, xhi), _integer_fixed(zlo, zhi)
    rng.shuffle(fx)
    rng.shuffle(fz)
    ix = _values_of_class(rng, "int", xlo, xhi, 3, fixed=fx)
    iz = _values_of_class(rng, "int", zlo, zhi, 2, fixed=fz)
    qx, qz = [q[0] for q in queries[:3]] or [0.0], [q[1] for q in queries[3:5]] or [0.0]
    for (kx, vx), (kz, vz) in ((("i", ix), ("i", iz)), (("f", qx), ("f", qz)), (("i", ix), ("f", qz))):
        if not vx or not vz:
            continue
        ax = np.array(vx, dtype=np.int64 if kx == "i" else float)
        az = np.array(vz, dtype=np.int64 if kz == "i" else float)
        real = np.asarray(roll.surface_interpolation(ax, az), dtype=float)
        tok = lambda k, v: k + " " + " ".join(str(int(a)) if k == "i" else str(bits(float(a))) for a in v)
        batch.add(f"interparg {tok(kx, vx)} / {tok(kz, vz)}", "rows",
                  dict(what=f"surface_interpolation({ax!r}, {az!r})", real=real, tol=1e-9 * R,
                       replay=dict(rp, numeric=[{"kind": "int64-array" if kx == "i" else "float64-array",
                                                 "kind_z": "int64-array" if kz == "i" else "float64-array",
                                                 "x": [a.item() for a in ax], "z": [a.item() for a in az]}])))


def _batch_spline(batch, sdesc, g, queries):
    import numpy as np
    pts = sdesc["points"]
    uw = sdesc.get("usable_width")
    S = max(abs(p[0]) for p in pts) + max(p[1] for p in pts)
    line = "spline " + (str(bits(uw)) if uw else "_") + " " + " ".join(f"{bits(a)} {bits(b)}" for a, b in pts)
    batch.add(line, "spline", dict(real=g, tol=1e-9 * S, replay={"spline": sdesc}))
    if g is not None:
        d = [float(g.local_depth(q)) for q in queries]
        batch.add("interp1 " + " ".join(str(bits(q)) for q in queries), "list",
                  dict(what="spline local_depth", real=d, args=queries, tol=1e-9 * S, replay={"spline": sdesc}))


def _face_test_cases(ctx, batch, n):
    """(K only) the face test the translator read (`spline_face`: np.isclose(y, 0) or |y| <= tolerance term) against the real
    constructor: polylines whose end ordinates / ordinates next to the face runs lie just below and just above the two
    tolerances a face test may have (1e-8 absolute, 1e-9 x extent), for contours much smaller and much larger than 10
    length units (where the two coincide).  The model must accept / reject the same polylines and strip the same vertices.
    No oracle clause: whether such a vertex belongs to the groove shape is not for C10 to say (C11, finding 2)."""
    import numpy as np
    import pyroll.core as pc
    rng = ctx.rng
    for i in range(n):
        s = 10 ** (rng.uniform(-3, -1) if i % 2 == 0 else rng.uniform(2, 3.5))
        w, d = s * rng.uniform(10, 80), s * rng.uniform(2, 40)
        m = rng.randrange(2, 7)
        xs = sorted(rng.uniform(-0.45, 0.45) * w for _ in range(m))
        inner = [[x, d * rng.uniform(0.2, 1)] for x in xs]
        pl, pr = w * rng.uniform(0.05, 0.3), w * rng.uniform(0.05, 0.3)
        pts = [[-w / 2 - pl, 0.0], [-w / 2 - pl / 2, 0.0], [-w / 2, 0.0]] + inner + [[w / 2, 0.0], [w / 2 + pr / 2, 0.0],
                                                                                       [w / 2 + pr, 0.0]]
        extent = max(w + pl + pr, max(p[1] for p in pts))
        base = rng.choice([1e-8, 1e-9 * extent])
        where = rng.choice(["end", "both-ends", "next-to-run", "run", "first-inner"])
        idx = {"end": [rng.choice([0, len(pts) - 1])], "both-ends": [0, len(pts) - 1],
               "next-to-run": [rng.choice([2, len(pts) - 3])], "run": [1, 2, len(pts) - 2],
               "first-inner": [rng.choice([3, len(pts) - 4])]}[where]
        for k in idx:
            pts[k][1] = base * rng.choice([0.25, 0.9, 0.999, 1.001, 1.1, 4.0, 40.0]) * rng.choice([1.0, 1.0, -1.0])
        sdesc = {"points": pts, "mode": "face-test:" + where}
        ends_rejected, g = False, None
        try:
            with warnings.catch_warnings():
                warnings.simplefilter("ignore")
                g = pc.SplineGroove(np.array(pts, dtype=float), classifiers=("spline",))
        except ValueError as ex:
            ends_rejected = "first and last element" in str(ex)
            if not ends_rejected and not _in_pyroll(ex):
                raise
        except Exception as ex:
            if not _in_pyroll(ex):
                raise
        ctx.count("face-test:" + where + (":rejected" if ends_rejected else ":accepted" if g is not None else ":failed-later"))
        line = "spline _ " + " ".join(f"{bits(a)} {bits(b)}" for a, b in pts)
        batch.add(line, "splineface", dict(real=g, ends_rejected=ends_rejected, tol=1e-9 * (w + d), replay={"spline": sdesc}))


# ------------------------------------------------------------------------------------------------------------------
# (K) what a roll object remembers: the generated `roll_tables` run by PyrollModel/RollObject.lean against a real Roll
# ------------------------------------------------------------------------------------------------------------------
def _private_now(obj):
    """the non-empty private instance attributes (the hook cache `__cache__` is not one of them)"""
    return sorted(k for k, v in vars(obj).items() if k.startswith("_") and not (k.startswith("__") and k.endswith("__"))
                  and v is not None)


def _answers_like_new(roll, fresh, what):
    """does the used roll answer `what` like a new roll with the same data (K only: a flag to compare with the model's)"""
    import numpy as np
    R = float(fresh.max_radius)
    try:
        with warnings.catch_warnings(), np.errstate(all="ignore"):
            warnings.simplefilter("ignore")
            if what == "min_radius":
                return abs(float(roll.min_radius) - float(fresh.min_radius)) <= 1e-12 * R
            if what == "contour_line":
                a, b = np.asarray(roll.contour_line.coords, dtype=float), np.asarray(fresh.contour_points, dtype=float)
                return a.shape == b.shape and bool(np.array_equal(a, b))
            xf, zf, Yf = (np.asarray(v, dtype=float) for v in (fresh.surface_x, fresh.surface_z, fresh.surface_y))
            cols = [len(xf) - 1, 0, len(xf) // 2, len(xf) // 3]
            got = np.asarray(roll.surface_interpolation(xf[cols], zf), dtype=float)
            return got.shape == Yf[:, cols].shape and bool(np.all(np.abs(got - Yf[:, cols]) <= 1e-9 * R))
    except Exception as ex:
        if not _in_pyroll(ex):
            raise
        return False


def _batch_rollobj(ctx, batch, n, info):
    """Lives of ONE real roll (changes of contact length / radius = `rest`, another groove = `shape`, each followed by
    `reevaluate_cache()`; calls of `contour_line`, `surface_interpolation`, `min_radius`) against the model's run of the
    generated tables: after every step the same private attributes are non-empty, and every call is answered like a new roll
    with the same data exactly when the model says so - which, on the OLD statement order of `Roll.reevaluate_cache` (memo
    emptied only after the hook values were re-evaluated), it does not after a change of the groove; on the repaired order
    (emptied before, and again after) it always does.  Also: a new roll has exactly the private attributes the translator found."""
    import numpy as np
    from pyroll.core import Roll, RoundGroove, CircularOvalGroove
    rs = info.get("roll_state")
    if rs is None:
        return
    rng = ctx.rng
    calls = [m for m, _ in rs["methods"]] + [h for h, _ in rs["hook_reads"]]
    known = {"contour_line", "surface_interpolation", "min_radius"}
    if not calls or not set(calls) <= known:
        ctx.tie_breaks.append(f"correspondence: no way to call {sorted(set(calls) - known)} on a real roll")
        calls = [c for c in calls if c in known]
    grooves = [lambda: RoundGroove(r1=2, r2=10, depth=8), lambda: RoundGroove(r1=2, r2=12, depth=11),
               lambda: CircularOvalGroove(depth=5.05, r1=7, r2=33), lambda: RoundGroove(r1=1, r2=9, depth=6.5)]
    for _ in range(n):
        gi = rng.randrange(len(grooves))
        data = dict(nominal_radius=100.0 * rng.uniform(0.8, 2), contact_length=rng.uniform(2, 40))
        roll = Roll(groove=grooves[gi](), **data)
        if _private_now(roll) or sorted(k for k in vars(roll) if k.startswith("_") and not k.endswith("__")) != sorted(rs["private"]):
            ctx.disagreement(f"private attributes of a new Roll: {sorted(k for k in vars(roll) if k.startswith('_'))!r}, the "
                             f"translator read {rs['private']!r} from __init__", {"roll": data})
            continue
        ops, real = [], []
        for _ in range(rng.randrange(3, 9)):
            k = rng.choice(["rest", "rest", "shape", "call", "call", "call"]) if calls else rng.choice(["rest", "shape"])
            if k == "rest":
                if rng.random() < 0.6:
                    data["contact_length"] = rng.uniform(2, 40)
                    roll.contact_length = data["contact_length"]
                else:
                    data["nominal_radius"] = data["nominal_radius"] * rng.choice([0.9, 1.15])
                    roll.nominal_radius = data["nominal_radius"]
            elif k == "shape":
                gi = rng.choice([j for j in range(len(grooves)) if j != gi])
                roll.groove = grooves[gi]()
            if k in ("rest", "shape"):
                with warnings.catch_warnings(), np.errstate(all="ignore"):
                    warnings.simplefilter("ignore")
                    roll.reevaluate_cache()
                ops.append(k)
                real.append("c:" + (",".join(_private_now(roll)) or "-"))
            else:
                what = rng.choice(calls)
                fresh = Roll(groove=grooves[gi](), **data)
                flag = _answers_like_new(roll, fresh, what)
                ops.append("call:" + what)
                real.append(("1:" if flag else "0:") + (",".join(_private_now(roll)) or "-"))
        ctx.count("roll-object-life:" + ("with-groove-change" if "shape" in ops else "data-changes-only"))
        batch.add("rollobj " + " ".join(ops), "rollobj", dict(real=real, replay={"roll_object_life": ops, "roll": dict(data)}))


def _run_batch(ctx, batch):
    import numpy as np
    if not batch.lines:
        return
    out = ctx.lean_model(MODEL, batch.lines)
    if len(out) != len(batch.lines):
        ctx.disagreement(f"model driver answered {len(out)} lines for {len(batch.lines)} operations", {"lines": batch.lines[:5]})
        return

    def floats(s):
        return [unbits(t) for t in s.split()]

    for (i, kind, p) in batch.checks:
        o = out[i]
        try:
            if kind == "scalar":
                v = unbits(o)
                ok = abs(v - p["real"]) <= p["tol"] or (math.isnan(v) and math.isnan(p["real"]))
                if not ok:
                    ctx.disagreement(f"{p['what']}: model {v!r}, implementation {p['real']!r}", dict(p["replay"], op=batch.lines[i][:200]))
                else:
                    ctx.validated()
            elif kind == "list":
                vs = floats(o)
                if len(vs) != len(p["real"]):
                    ctx.disagreement(f"{p['what']}: model has {len(vs)} entries, implementation {len(p['real'])}", p["replay"])
                    continue
                bad = [k for k, (a, b) in enumerate(zip(vs, p["real"]))
                       if not (abs(a - b) <= p["tol"] or (math.isnan(a) and math.isnan(b)))]
                if bad:
                    k = bad[0]
                    arg = p["args"][k] if p.get("args") else k
                    ctx.disagreement(f"{p['what']} at {arg!r}: model {vs[k]!r}, implementation {p['real'][k]!r}",
                                     dict(p["replay"], at=arg))
                else:
                    ctx.validated()
            elif kind == "argkinds":
                m = [(t[0], int(t[2:]) if t[0] == "i" else unbits(t[2:])) for t in o.split()]
                if any(t[1] != ":" for t in o.split()) or len(m) != len(p["real"]):
                    raise ValueError(o)
                bad = [k for k, (a, b) in enumerate(zip(m, p["real"]))
                       if a[0] != b[0] or not (a[1] == b[1] if a[0] == "i" else
                                               (abs(a[1] - b[1]) <= p["tol"] or (math.isnan(a[1]) and math.isnan(b[1]))))]
                if bad:
                    ctx.disagreement(f"{p['what']} (i: = handed back in an integer dtype, truncated; f: = as a float): model "
                                     f"{m!r}, implementation {p['real']!r}", p["replay"])
                else:
                    ctx.validated()
            elif kind == "rows":
                m = np.array([floats(row) for row in o.split("|")], dtype=float)
                if m.shape != p["real"].shape:
                    ctx.disagreement(f"{p['what']}: the model answers with shape {m.shape} (one row per z, one column per x), "
                                     f"the implementation with shape {p['real'].shape}", p["replay"])
                elif not np.all((np.abs(m - p["real"]) <= p["tol"]) | (np.isnan(m) & np.isnan(p["real"]))):
                    ctx.disagreement(f"{p['what']}: model {m.tolist()!r}, implementation {p['real'].tolist()!r}", p["replay"])
                else:
                    ctx.validated()
            elif kind == "polyline":
                vs = floats(o)
                m = np.array(vs, dtype=float).reshape(-1, 2)
                if m.shape != p["real"].shape:
                    ctx.disagreement(f"{p['what']}: model has {len(m)} vertices, implementation {len(p['real'])}", p["replay"])
                elif not np.all(np.abs(m - p["real"]) <= p["tol"]):
                    k = int(np.argmax(np.abs(m - p["real"]).max(axis=1)))
                    ctx.disagreement(f"{p['what']} vertex {k}: model {m[k].tolist()!r}, implementation {p['real'][k].tolist()!r}",
                                     dict(p["replay"], vertex=k))
                else:
                    ctx.validated()
            elif kind == "rollobj":
                m = [",".join(sorted(t[2:].split(","))) for t in o.split()]
                m = [a[:2] + b for a, b in zip(o.split(), m)]
                if m != p["real"]:
                    k = next((i for i, (a, b) in enumerate(zip(m, p["real"])) if a != b), min(len(m), len(p["real"])))
                    ctx.disagreement("life of a roll object (c = change + reevaluate_cache, 1/0 = call answered like a new roll / "
                                     f"from stale data; then the non-empty private attributes): model {m!r}, implementation "
                                     f"{p['real']!r} (first difference at step {k})", p["replay"])
                else:
                    ctx.validated()
            elif kind == "own":
                t = o.split()
                if len(t) != 2 or any(v not in ("0", "1") for v in t):
                    raise ValueError(o)
                m = (t[0] == "1", t[1] == "1")
                if m != p["real"]:
                    ctx.disagreement("spline vertex array ownership (groove's array is the caller's, constructor wrote into the "
                                     f"caller's container): model {m!r}, implementation {p['real']!r}", p["replay"])
                else:
                    ctx.validated()
            elif kind == "splineface":
                g = p["real"]
                if (o == "rejected") != p["ends_rejected"]:
                    ctx.disagreement("spline face test: the model " + ("rejects" if o == "rejected" else "accepts") +
                                     " the end ordinates, the implementation " +
                                     ("rejects them" if p["ends_rejected"] else "accepts them"), p["replay"])
                    continue
                if o == "rejected" or g is None:
                    ctx.validated()
                    continue
                m = np.array(floats(o.split("|")[1]), dtype=float).reshape(-1, 2)
                cp = np.asarray(g.contour_points, dtype=float)
                if m.shape != cp.shape or not np.all(np.abs(m - cp) <= p["tol"]):
                    ctx.disagreement(f"spline face test: the model strips to {len(m)} vertices {m.tolist()!r}, the "
                                     f"implementation to {len(cp)}: {cp.tolist()!r}", p["replay"])
                else:
                    ctx.validated()
            elif kind == "spline":
                g = p["real"]
                if o == "rejected":
                    if g is not None:
                        ctx.disagreement("spline: the model rejects the end ordinates, the implementation accepts", p["replay"])
                    else:
                        ctx.validated()
                    continue
                if g is None:
                    ctx.count("spline-rejected-by-implementation-only")   # rejected later (shapely): not modelled
                    continue
                head, tail = o.split("|")
                w, u, d = floats(head)
                m = np.array(floats(tail), dtype=float).reshape(-1, 2)
                cp = np.asarray(g.contour_points, dtype=float)
                tol = p["tol"]
                if m.shape != cp.shape or not np.all(np.abs(m - cp) <= tol):
                    ctx.disagreement(f"spline vertex array: model {m.tolist()!r}, implementation {cp.tolist()!r}", p["replay"])
                elif not (abs(w - float(g.width)) <= tol and abs(u - float(g.usable_width)) <= tol
                          and abs(d - float(g.depth)) <= tol):
                    ctx.disagreement(f"spline width/usable width/depth: model {(w, u, d)!r}, implementation "
                                     f"{(float(g.width), float(g.usable_width), float(g.depth))!r}", p["replay"])
                else:
                    ctx.validated()
        except (ValueError, IndexError):
            ctx.disagreement(f"model driver answered {o[:80]!r} to {batch.lines[i][:80]!r}", {"op": batch.lines[i][:300]})


def _batch_formulas(ctx, batch, info):
    """closed formulas of the roll / pass against the python functions on stubs"""
    import pyroll.core.roll.hookimpls as rh
    import pyroll.core.roll_pass.hookimpls.symmetric_roll_pass as sy
    rng = ctx.rng
    for _ in range(ctx.budget(10, 60)):
        R = 10 ** rng.uniform(-2, 1)
        ymax = R * rng.uniform(0.01, 0.6)
        env = {"max_radius": R, "contour_line.bounds[3]": ymax}
        real = float(stub.call_impl(rh.min_radius, env))
        batch.add("roll_min_radius " + " ".join(f"{k}={bits(v)}" for k, v in env.items()), "scalar",
                  dict(what="min_radius", real=real, tol=1e-12 * R, replay={"env": env}))
        env = {"nominal_radius": R}
        batch.add(f"roll_max_radius nominal_radius={bits(R)}", "scalar",
                  dict(what="max_radius", real=float(stub.call_impl(rh.max_radius, env)), tol=0.0, replay={"env": env}))
        rmin = R - ymax
        h1 = rmin * rng.uniform(0.05, 1.0)
        dh = h1 * rng.uniform(0.01, 0.9)
        env = {"roll.min_radius": rmin, "in_profile.height": h1, "height": h1 - dh}
        real = float(stub.call_impl(sy.entry_point, env))
        batch.add("entry_point " + " ".join(f"{k}={bits(v)}" for k, v in env.items()), "scalar",
                  dict(what="entry_point", real=real, tol=1e-11 * rmin, replay={"env": env}))
        # the property's reading of the entry point, on the real function: the bottom circle has risen by dh / 2 there
        rise = rmin - math.sqrt(rmin ** 2 - real ** 2)
        if not (abs(rise - dh / 2) <= 1e-7 * rmin and real <= 0):
            ctx.violation("entry-point-off-the-roll-surface",
                          f"entry_point {real!r}: the groove bottom (radius {rmin!r}) has risen by {rise!r} there, half the height "
                          f"reduction is {dh / 2!r}", {"env": env})
        cy, sx = ymax * rng.uniform(0, 1), rmin * rng.uniform(-1, 1)
        import numpy as np
        senv = {"max_radius": R, "contour_points": np.array([[0.0, cy], [1.0, ymax]]), "surface_x": np.array([sx, 0.0])}
        real = float(np.asarray(stub.call_impl(rh.surface_y, senv))[0, 0])
        env = {"max_radius": R, "cy": cy, "sx": sx}
        batch.add("surface_y " + " ".join(f"{k}={bits(v)}" for k, v in env.items()), "scalar",
                  dict(what="surface_y element formula", real=real, tol=1e-12 * R, replay={"env": env}))


# ------------------------------------------------------------------------------------------------------------------
# cases
# ------------------------------------------------------------------------------------------------------------------
def _check_hypotheses(ctx, g, L):
    """Ordered / Params of the theorems, on the real groove (they are hypotheses, not part of the property)"""
    zs = [0.0] + [float(getattr(g, n)) for n in JUNCTIONS]
    if any(b < a - 1e-9 * L for a, b in zip(zs, zs[1:])):
        ctx.count("hypothesis-Ordered-fails")
        return False
    step = float(g.y4) - float(g._flank_contour_line(g.z4))
    if abs(step) > 1e-7 * L:
        ctx.count("hypothesis-closed-at-z4-fails")
        return False
    ctx.count("hypotheses-hold")
    return True


def _groove_case(ctx, desc, batch, with_model, roll_budget, rolls=None, roll_queries=None, numeric=None):
    import numpy as np
    try:
        g = _build_groove(desc)
    except Exception as ex:          # an infeasible parameter set: not a case
        if not _in_pyroll(ex):
            raise
        ctx.count("groove-rejected:" + type(ex).__name__)
        return
    cp = np.asarray(g.contour_points, dtype=float)
    L = _size(cp)
    generic = all(hasattr(g, n) for n in JUNCTIONS)
    hyp = _check_hypotheses(ctx, g, L) if generic else False
    qs = _query_abscissae(ctx.rng, g)
    nontrivial = desc.get("pad_mode", "0") != "0" or desc.get("N") is not None
    ctx.case(["groove", desc["cls"], {k: round(v, 9) if isinstance(v, float) else v for k, v in desc["kwargs"].items()},
              desc.get("N")], nontrivial=nontrivial)
    ctx.count("groove:" + desc["cls"])
    ctx.count("pad:" + desc.get("pad_mode", "0"))
    ctx.sample({"groove": desc["cls"], "pad": desc.get("pad_mode"), "N": desc.get("N"), "vertices": len(cp)}, limit=3)
    if generic and not hyp:
        # outside the theorems' hypotheses (a step at z4 the constructor accepted): C03/C04 territory, not judged here
        return
    _oracle_groove(ctx, desc, g, qs, numeric=numeric)
    info = getattr(ctx, "c10_info", None)
    if with_model and generic and info is not None:
        _batch_groove(batch, desc, g, qs, info, ctx.rng)
    # rolls
    for i_roll in range(roll_budget):
        if rolls and i_roll < len(rolls):
            rdesc = rolls[i_roll]
            roll = _roll_from_desc(g, rdesc)
        else:
            roll, rdesc = _make_roll(ctx.rng, g, cp, desc)
        if not np.all(np.diff(cp[:, 0]) > 0):
            ctx.count("contour-not-z-monotone")
        with _ConfigOverride(ROLL_SURFACE_DISCRETIZATION_COUNT=rdesc["nx"]):
            xs = np.asarray(_read_or_none(lambda: roll.surface_x), dtype=float)
            queries = _grid_queries(ctx.rng, xs, cp[:, 0], 14) if xs.ndim == 1 and len(xs) else []
            queries += _inside(roll_queries, xs, cp)
            grid = _oracle_roll(ctx, desc, rdesc, g, roll, queries, numeric=numeric)
        ctx.case(["roll", desc["cls"], [rdesc.get(k) for k in RADIUS_KEYS], rdesc.get("contact_length"), rdesc["nx"]],
                 nontrivial=rdesc["mode"] == "set" or rdesc["nx"] is not None or rdesc["radius_mode"] != "nominal_radius")
        ctx.count("roll:" + rdesc["mode"])
        ctx.count("roll-radius:" + rdesc["radius_mode"])
        if with_model and grid is not None and info is not None and rdesc["nx"] is not None:
            _batch_roll(batch, desc, rdesc, g, roll, grid, queries, ctx.rng)
        # the same roll object goes on living
        if grid is not None and (rdesc.get("ops") is not None or ctx.rng.random() < 0.7):
            _roll_life(ctx, desc, rdesc, g, roll, batch, with_model and info is not None, extra_queries=roll_queries,
                       numeric=numeric)


def _spline_case(ctx, sdesc, batch, with_model):
    import numpy as np
    import pyroll.core as pc

    def build(points):
        try:
            with warnings.catch_warnings():
                warnings.simplefilter("ignore")
                return pc.SplineGroove(points, classifiers=("spline",), usable_width=sdesc.get("usable_width"))
        except Exception as ex:
            if not _in_pyroll(ex) and not isinstance(ex, ValueError):
                raise
            ctx.count("spline-rejected:" + type(ex).__name__)
            return None

    kind = sdesc.get("input") or "list"
    container = _container(kind, sdesc["points"])
    g = build(container)
    g2 = build(sdesc["refined"]) if sdesc.get("refined") else None
    ctx.case(["spline", [[round(a, 12), round(b, 12)] for a, b in sdesc["points"]], sdesc.get("mode"),
              len(sdesc.get("refined") or []), kind, sdesc.get("reuse")],
             nontrivial=bool(sdesc.get("refined")) or bool(sdesc.get("reuse")))
    ctx.count("spline:" + ("symmetric" if sdesc.get("symmetric") else "asymmetric"))
    ctx.count("spline-input:" + kind)
    if sdesc.get("touching"):
        ctx.count("spline:touching-face-line-inside")
    if sdesc.get("lattice"):
        ctx.count("spline:whole-numbered-vertices")
    if sdesc.get("mode"):
        ctx.count("refine:" + sdesc["mode"])
    if g is None:
        return
    exp = _strip_expected(sdesc["points"])
    half = (exp[-1][0] - exp[0][0]) / 2
    queries = [ctx.rng.uniform(-half, half) for _ in range(46)] + [-half, half, 0.0, half / 2]
    _oracle_spline(ctx, sdesc, g, g2, queries)
    if g2 is not None:
        # the refined polyline is itself an input: it must be reproduced and centred on the middle of ITS extent
        _oracle_spline(ctx, dict(points=sdesc["refined"], usable_width=sdesc.get("usable_width"), is_refined=True,
                                 original=sdesc["points"], mode=sdesc.get("mode")), g2, None, queries)
    # who owns the vertex array (K): the model says whether the groove's array is the caller's and whether the constructor
    # wrote into the caller's container
    written = _content(container) != _content(_container("list", sdesc["points"]))
    shares = isinstance(container, np.ndarray) and bool(np.shares_memory(np.asarray(g.contour_points), container))
    if with_model:
        _batch_spline(batch, sdesc, g, queries[:12])
        batch.add("splineown " + ("ndarray" if isinstance(container, np.ndarray) else "other"), "own",
                  dict(real=(shares, written), replay={"spline": sdesc}))
        if g2 is not None:
            _batch_spline(batch, dict(points=sdesc["refined"], usable_width=sdesc.get("usable_width")), g2, queries[:12])
    # a roll on an asymmetric / symmetric spline groove: grid, nodes, symmetry in rolling direction
    if ctx.rng.random() < 0.3 or sdesc.get("roll"):
        cp = np.asarray(g.contour_points, dtype=float)
        if np.all(np.diff(cp[:, 0]) > 0):
            if sdesc.get("roll"):
                rdesc = sdesc["roll"]
                roll = _roll_from_desc(g, rdesc)
            else:
                roll, rdesc = _make_roll(ctx.rng, g, cp, sdesc)
            with _ConfigOverride(ROLL_SURFACE_DISCRETIZATION_COUNT=rdesc["nx"]):
                xs = np.asarray(_read_or_none(lambda: roll.surface_x), dtype=float)
                q = _grid_queries(ctx.rng, xs, cp[:, 0], 8) if xs.ndim == 1 and len(xs) else []
                q += _inside(sdesc.get("roll_queries"), xs, cp)
                gdesc = {"cls": "SplineGroove", "kwargs": {}, "points": sdesc["points"],
                         "usable_width": sdesc.get("usable_width"), "input": kind}
                grid = _oracle_roll(ctx, gdesc, rdesc, g, roll, q, symmetric_z=False, numeric=sdesc.get("numeric"))
            if grid is not None and (rdesc.get("ops") is not None or ctx.rng.random() < 0.7):
                _roll_life(ctx, gdesc, rdesc, g, roll, batch, False, symmetric_z=False,
                           extra_queries=sdesc.get("roll_queries"), numeric=sdesc.get("numeric"))
            ctx.count("roll-on-spline")
            ctx.count("roll-radius:" + rdesc.get("radius_mode", "nominal_radius"))
    # the caller goes on using ITS container (rescales it, builds the next member of a family from it, ...): every groove
    # built so far still is the polyline it was given at ITS construction, in every representation
    if sdesc.get("reuse"):
        if written:
            ctx.count("spline-constructor-wrote-into-the-callers-container")
        # the caller's data at the time of each construction, as the caller saw it (before the call)
        family = [(g, [list(p) for p in sdesc["points"]], 0)]
        for n_op, op in enumerate(sdesc["reuse"], 1):
            ctx.count("reuse:" + op[0])
            if op[0] == "rebuild":
                given = _content(container)
                member = build(container)
                if member is not None:
                    family.append((member, given, n_op))
            else:
                _apply_reuse(container, op)
        for (member, given, n_op) in family:
            stage = "after-input-reuse" if n_op == 0 else "family-member-after-input-reuse"
            _oracle_spline(ctx, dict(points=given, usable_width=sdesc.get("usable_width"), stage=stage, input=kind,
                                     built_after_op=n_op, first_points=sdesc["points"], reuse=sdesc["reuse"]),
                           member, None, _fixed_queries(given))


def _inside(queries, xs, cp):
    """the query points of a replay that lie inside the grid the roll has at this point of its life"""
    if not queries or getattr(xs, "ndim", 0) != 1 or not len(xs):
        return []
    return [(float(x), float(z)) for (x, z) in queries
            if float(xs[0]) <= x <= float(xs[-1]) and float(cp[0, 0]) <= z <= float(cp[-1, 0])]


# ------------------------------------------------------------------------------------------------------------------
# the roll of a roll pass: looked at before the pass is solved, after it was solved, after it was solved AGAIN
# ------------------------------------------------------------------------------------------------------------------
PASS_GROOVES = {
    "CircularOvalGroove": dict(depth=8e-3, r1=6e-3, r2=40e-3),
    "RoundGroove": dict(r1=1e-3, r2=12.5e-3, depth=11.5e-3),
    "BoxGroove": dict(r1=2e-3, r2=4e-3, depth=10e-3, usable_width=30e-3, ground_width=24e-3),
    "DiamondGroove": dict(r1=3e-3, r2=5e-3, usable_width=38e-3, tip_depth=12e-3),
    "SquareGroove": dict(r1=3e-3, r2=4e-3, usable_width=30e-3, tip_depth=15e-3),
    "SwedishOvalGroove": dict(r1=3e-3, r2=6e-3, depth=7e-3, usable_width=36e-3, ground_width=20e-3),
}
PASS_JITTER = {"CircularOvalGroove": "r2", "RoundGroove": "r2", "BoxGroove": "depth", "DiamondGroove": "usable_width",
               "SquareGroove": "usable_width", "SwedishOvalGroove": "depth"}
# the smaller of height and width of common.make_in_profile's shapes per unit `size` (the pass may turn the profile by 90 deg)
PROFILE_HEIGHT_PER_SIZE = {"round": 1.0, "square": 1.0, "box": 0.8, "diamond": 0.8}
CORPUS_PASSES = [
    {"groove": {"cls": "CircularOvalGroove", "kwargs": dict(depth=8e-3, r1=6e-3, r2=40e-3)}, "nominal_radius": 160e-3,
     "gap": 2e-3, "nx": None, "look_before_solve": False,
     "profiles": [{"kind": "round", "size": 24e-3}, {"kind": "round", "size": 34e-3}]},
    {"groove": {"cls": "RoundGroove", "kwargs": dict(r1=1e-3, r2=12.5e-3, depth=11.5e-3)}, "nominal_radius": 160e-3,
     "gap": 2e-3, "nx": 9, "look_before_solve": True,
     "profiles": [{"kind": "square", "size": 30e-3}, {"kind": "round", "size": 26e-3}, {"kind": "round", "size": 31e-3}]},
]


def _random_pass_desc(rng):
    cls = rng.choice(sorted(PASS_GROOVES))
    kw = dict(PASS_GROOVES[cls])
    kw[PASS_JITTER[cls]] *= rng.uniform(0.98, 1.02) if cls == "SquareGroove" else rng.uniform(0.9, 1.1)   # a square stays one
    gap = 2e-3 * rng.uniform(0.5, 1.5)
    # incoming profiles higher than the pass (2 x groove depth + gap), so that the rolls touch them: 2..3 different ones
    pass_height = 2 * (kw.get("depth") or kw.get("tip_depth")) + gap
    heights = [pass_height * rng.uniform(1.08, 1.6)]
    for _ in range(rng.randrange(1, 3)):
        heights.append(max(heights[-1] * rng.choice([rng.uniform(0.8, 0.96), rng.uniform(1.04, 1.25)]), 1.05 * pass_height))
    profiles = []
    for h in heights:
        kind = rng.choice(["round", "square", "box", "diamond"])
        profiles.append({"kind": kind, "size": h / PROFILE_HEIGHT_PER_SIZE[kind]})
    return {"groove": {"cls": cls, "kwargs": kw}, "nominal_radius": 160e-3 * rng.uniform(0.7, 1.5), "gap": gap,
            "nx": rng.choice([None, rng.randrange(2, 25)]), "look_before_solve": rng.random() < 0.4, "profiles": profiles}


def _pass_roll_case(ctx, pdesc, batch, with_model, extra_queries=None, numeric=None):
    """In ordinary use the data of a roll change without the user touching it: the pass computes the contact length anew in
    every solution iteration and for every incoming profile.  The roll of the pass is looked at (everything `_oracle_roll`
    demands) before the first solution if the description says so, and after every solution.  A solution that fails is not
    C10's business (counted, case dropped)."""
    import numpy as np
    from pyroll.core import Roll, RollPass
    from . import common
    try:
        g = _build_groove(dict(pdesc["groove"], N=None))
    except Exception as ex:
        if not _in_pyroll(ex):
            raise
        ctx.count("groove-rejected:" + type(ex).__name__)
        return
    gdesc = dict(pdesc["groove"], pad_mode="0")
    cp = np.asarray(g.contour_points, dtype=float)
    unit = RollPass(label="C10", roll=Roll(groove=g, nominal_radius=pdesc["nominal_radius"], rotational_frequency=1),
                    gap=pdesc["gap"])
    roll = unit.roll
    nx = pdesc.get("nx")

    def look(stage, step):
        if roll.has_set_or_cached("contact_length"):
            # the pass must have given its roll a contact arc that exists: 0 < 1.1 x contact length <= radius at the groove
            # bottom (an incoming profile lower than the pass gives none - not a roll surface to judge)
            cl, rmin = float(roll.contact_length), pdesc["nominal_radius"] - float(cp[:, 1].max())
            if not (math.isfinite(cl) and 0 < 1.1 * cl <= rmin):
                ctx.count("pass-roll:no-contact-arc")
                return
        now = {"nominal_radius": pdesc["nominal_radius"], "radius_mode": "nominal_radius", "nx": nx,
               "mode": "set" if roll.has_set_or_cached("contact_length") else "default"}
        rp = {"pass": pdesc, "step": step}
        with _ConfigOverride(ROLL_SURFACE_DISCRETIZATION_COUNT=nx):
            xs = np.asarray(_read_or_none(lambda: roll.surface_x), dtype=float)
            queries = (_grid_queries(ctx.rng, xs, cp[:, 0], 10) if xs.ndim == 1 and len(xs) else []) + \
                _inside(extra_queries, xs, cp)
            # no second evaluation here: re-evaluating the roll alone, outside a solution iteration, is not how its values are
            # refreshed, and the grid of a roll looked at before the first solution lags one iteration behind the contact length
            grid = _oracle_roll(ctx, gdesc, now, g, roll, queries, rp=rp, stage=stage, second_evaluation=False, numeric=numeric)
        if with_model and grid is not None and nx is not None:
            _batch_roll(batch, gdesc, now, g, roll, grid, queries, ctx.rng, rp=rp, explicit_x=True)

    ctx.case(["pass-roll", pdesc["groove"]["cls"], round(pdesc["nominal_radius"], 9), round(pdesc["gap"], 9), nx,
              pdesc["look_before_solve"], [[p["kind"], round(p["size"], 9)] for p in pdesc["profiles"]]], nontrivial=True)
    ctx.count("pass-roll:" + pdesc["groove"]["cls"])
    if pdesc.get("look_before_solve"):
        ctx.count("pass-roll:looked-at-before-solve")
        look(":pass:before-solve", 0)
    for n_solve, p in enumerate(pdesc["profiles"], 1):
        try:
            with _ConfigOverride(ROLL_SURFACE_DISCRETIZATION_COUNT=nx), warnings.catch_warnings():
                warnings.simplefilter("ignore")
                unit.solve(common.make_in_profile(ctx.rng, p["kind"], size=p["size"]))
        except Exception as ex:
            if not _in_pyroll(ex):
                raise
            ctx.count("pass-roll:solve-raised:" + type(ex).__name__)
            return
        ctx.count("pass-roll:solutions")
        look(f":pass:solve-{min(n_solve, 3)}", n_solve)


def _read_or_none(fn):
    """a representation the oracle reports on later (`_oracle_roll` reads it again under its own guard)"""
    try:
        return fn()
    except Exception as ex:
        import traceback
        if any("/pyroll/" in f.filename for f in traceback.extract_tb(ex.__traceback__)):
            return []
        raise


def run(ctx):
    import numpy as np  # noqa: F401
    with_model = bool(getattr(ctx, "model_available", False)) and getattr(ctx, "c10_info", None) is not None
    batch = _Batch()
    rng = ctx.rng
    # corpus first
    for d in CORPUS_GROOVES:
        _groove_case(ctx, dict({k: v for k, v in d.items() if k != "numeric"}, pad_mode="30" if d["kwargs"].get("pad_angle") else "0"),
                     batch, with_model, 1, numeric=d.get("numeric"))
    for s in CORPUS_SPLINES:
        _spline_case(ctx, dict(s, mode="corpus"), batch, with_model)
    for s in CORPUS_SEQUENCES:
        _spline_case(ctx, dict(s, mode="corpus"), batch, with_model)
    for d in CORPUS_ROLL_LIVES:
        gd = dict(d["groove"])
        _groove_case(ctx, gd, batch, with_model, 1, rolls=[dict(d["roll"], ops=[list(o) for o in d["roll"]["ops"]])])
    for d in CORPUS_PASSES:
        _pass_roll_case(ctx, d, batch, with_model)
    for i in range(ctx.budget(40, 1200)):
        _pass_roll_case(ctx, _random_pass_desc(rng), batch, with_model and i < ctx.budget(15, 150))
    n_g = ctx.budget(220, 6000)
    for i in range(n_g):
        desc = _random_groove_desc(rng)
        _groove_case(ctx, desc, batch, with_model and i < ctx.budget(70, 600), 1 if i % 2 == 0 else 0)
    n_s = ctx.budget(400, 15000)
    for i in range(n_s):
        sdesc = _random_polyline(rng)
        if rng.random() < 0.25:
            w = sdesc["points"][-1][0] - sdesc["points"][0][0]
            sdesc["usable_width"] = w * rng.uniform(0.5, 0.95)
        if rng.random() < 0.8:
            sdesc["refined"], sdesc["mode"] = _refine(rng, sdesc["points"])
        sdesc["input"] = rng.choice(INPUT_KINDS)
        if rng.random() < 0.5:
            sdesc["reuse"] = _random_reuse(rng, sdesc["scale"])
        _spline_case(ctx, sdesc, batch, with_model and i < ctx.budget(80, 800))
    if with_model:
        _batch_rollobj(ctx, batch, ctx.budget(40, 400), ctx.c10_info)
        _face_test_cases(ctx, batch, ctx.budget(60, 600))
        _batch_formulas(ctx, batch, ctx.c10_info)
        _run_batch(ctx, batch)
    else:
        _batch_formulas(ctx, _Batch(), None)


def replay(ctx, data):
    import random
    r = data.get("replay", data)
    batch = _Batch()
    with_model = bool(getattr(ctx, "model_available", False)) and getattr(ctx, "c10_info", None) is not None
    ctx.rng = random.Random(0)
    rq = [(r["x"], r["z"])] if "x" in r and "z" in r else ([(0.0, r["z"])] if "z" in r and ("roll" in r or "pass" in r)
                                                           else None)
    num = r.get("numeric")
    if "pass" in r:
        _pass_roll_case(ctx, r["pass"], batch, with_model, extra_queries=rq, numeric=num)
    elif "roll_object_life" in r:
        ctx.c10_replayed_roll_object_life = True     # K only: re-run by the ordinary stream (needs the model)
    elif "spline" in r:
        s = r["spline"]
        _spline_case(ctx, dict(points=s.get("first_points") or s.get("original") or s["points"],
                               refined=(s["points"] if s.get("is_refined") else None) or s.get("refined") or r.get("refined"),
                               usable_width=s.get("usable_width"), mode=s.get("mode") or "replay",
                               input=s.get("input"), reuse=s.get("reuse"), numeric=num), batch, with_model)
    elif "groove" in r and r["groove"].get("cls") == "SplineGroove":
        gd = r["groove"]
        _spline_case(ctx, dict(points=gd["points"], refined=None, usable_width=gd.get("usable_width"), mode="replay",
                               input=gd.get("input"), roll=r.get("roll"), roll_queries=rq, numeric=num), batch, with_model)
    elif "groove" in r:
        _groove_case(ctx, r["groove"], batch, with_model, 2, rolls=[r["roll"]] if r.get("roll") else None, roll_queries=rq,
                     numeric=num)
    if with_model:
        _run_batch(ctx, batch)
