"""C06 - state is handed over unchanged and volume conserved along solved sequences.

Tie: T + K.
  T  `translate` regenerates lean/PyrollModel/Gen/C06.lean from the working tree on every run: the hook formulas
     (out length, elongation, strain accumulation / reset, out t, x, sequence totals, disk element split), the root hook
     list of pyroll/core/__init__.py and the hand-over skeleton of unit/unit.py, hooks.py, disk_elements/*.py
     (driver/translate/c06_skeleton.py), the class hierarchy with every `reevaluate_cache` body and the helper objects the
     formulas read (driver/translate/c06_refresh.py).  lean/PyrollProps/C06.lean proves the property about these terms and about
     the hand-written model lean/PyrollModel/Handover.lean, whose assumptions about the source are compared with the
     generated skeleton (`skeleton_certificate`).
  K  `run`: (a) every generated formula, Float evaluation by the Lean driver vs the python function it came from;
     (b) the generated `sum` implementations and the time/x threading vs python; (c) the hand-over model run on the
     unit tree of every really solved sequence (which root hooks have an implementation is observed, the values are
     identifiers) vs the public `__dict__` of every in / out profile of that tree - for a sequence solved twice
     (`H2`: `Handover.solveTwice` with the re-use policy the translator read from `init_solve`) the tree of the second solve;
     (c') `Unit.init_solve` on histories of incoming profiles vs `Handover.initOut` (`I`); (c'') the cache re-evaluation model
     (`Refresh`): generated MROs vs `__mro__`, the effect list of `reevaluate_cache` per class vs what the call is SEEN to
     do on real solved objects (`R`), and the state index of the roll value the disk elements read per solve and iteration
     vs the recorded disk lengths / roll cache values of real (re-)solved passes (`S`); (d) the independent oracle below.

The oracle (`check_tree`) is written from the property text and inspects only public attributes of solved units.
"""
import math
import os

from ..translate import gen, pyexpr, c06_skeleton, c06_refresh
from .. import core, stub
from . import common  # noqa: F401  (silences the pyroll loggers)

ID = "C06"
LEAN_MODULES = ["PyrollProps.C06"]
MODEL = "c06"
MODEL_MODULES = ["PyrollModel.Gen.C06", "PyrollModel.HandoverGen", "PyrollModel.Refresh", "PyrollModel.HandoverDriver"]
RULE = ("real pass sequences, built from a replayable spec and solved: 1-5 top-level units, flat or nested (depth <= 3), "
        "two-roll passes (6 groove families) and three-roll passes, transports (duration or length given, 18 % with two of "
        "length / duration / velocity given explicitly), cooling pipes, "
        "explicit rotators, 0-4 disk elements per pass/transport, 4 incoming profile shapes, incoming length/time/strain "
        "varied (incl. defaults), derived hook values READ on the caller's profile object before it is handed to solve "
        "(none / a few / all readable hooks of the profile class: fills its hook cache), optionally a flow-stress or "
        "width (spreading) model registered as hook implementation "
        "(removed in `finally`); what the disk partition and the time chain READ is given explicitly or by a plug-in instead "
        "of taking the core's default: 16 % of the passes get an `exit_point` != 0 (exit plane before / behind the high "
        "point), 7 % an `entry_point`, 7 % a `velocity` as keyword (60 % of those that had none get 1-4 disk elements), and 22 % "
        "of the cases register 1-4 plug-in hook implementations for the run (exit_point = f x -entry_point, entry_point from "
        "the height change x f, forward slip velocity, `disk_element_count` 1-3 for EVERY unit without an explicit count, "
        "transport velocity x f, transport dwell added to length / velocity, a duration for every explicit rotator); units "
        "that usually take no time / have no length are GIVEN one: 45 % of the explicit rotators (14 % per position, also as "
        "last unit of a flat or nested line) get a `duration` (non-zero or the explicit 0), some a `length` / `velocity`, 8 % of "
        "the passes without disk elements a `duration` or `length`, transports also `length` 0; three corpus layouts of that kind; every unit and disk element of the solved tree is checked by the oracle and the whole "
        "tree is compared with the Lean hand-over model; 15 % of the sequences (and every corpus layout) are solved a SECOND "
        "time, the same objects, on a changed billet (1-4 of temperature / density / heat capacity / material / length / "
        "strain / t changed, flow stress changed / dropped / added, 0-2 entries removed, 0-2 new entries, size +-1.5 %; in "
        "12 % of them the first profile lacks the flow stress, so the first solve is aborted and the second is the retry; "
        "40 % of the second billets have ANOTHER size - 0.93 .. 1.05 of the nominal one -, 15 % another shape, and in 30 % "
        "the caller re-configured units of the used line between the solves: roll gap x 0.7-1.4, roll speed, transport "
        "duration / length; every corpus layout additionally on a 6 % smaller, pre-strained, later billet): "
        "oracle on the second solve and model `solveTwice` against it; for every roll pass with disk elements the history "
        "of what the disk elements read of the roll's hook cache, per solve and iteration, against the cache model "
        "`Refresh.solves`; `Unit.init_solve` itself on generated histories of "
        "incoming profiles and out-profile edits against `Handover.initOut`; plus every generated formula x random environments; "
        "five roll passes with disk elements whose `duration` / `length` / roll `contact_length` is GIVEN (keyword, plug-in) "
        "are solved and examined on every run and RECORDED (the roll-pass disk elements bypass these three values: they do "
        "not add up on the unchanged tree; reported only with ROLL_PASS_DISKS_FOLLOW_GIVEN_REQUIRED). "
        "non-trivial = the sequence solved, has >= 2 units and a positive incoming length; distinct by the spec.")
ASSUMPTIONS = [
    "IEEE rounding and unconverged iterations: the theorems are exact over the reals at a consistent assignment; on "
    "real solves the identities are checked within 10 x iteration precision (relative), hand-over by exact equality",
    "the hand-over model describes the state after the last iteration; which root hooks have an implementation that "
    "returns a value is observed on the solved objects (data of the model), the C3 MRO (issubclass) is an input",
    "shapely: area is invariant under `rotate` (entry rotation of a roll pass) - checked numerically only",
    "the model is the state after the last iteration: values that depend on the iteration history - root hooks of IN "
    "profiles (velocity; evaluated after the sub-units were solved) and root hooks owned only by a sub-class (velocity, "
    "filling ratios, width of the spreading model; copied downstream at the first solve call and not refreshed there) - "
    "are left out of the model/implementation comparison (counted in the evidence); they are not part of the statement",
    "the cache model (Refresh) counts states, not values: `the value of state i` is what `reevaluate_cache` of iteration i "
    "left in the cache; that two iterations are needed whenever the incoming state changed is a hypothesis (n + 2) of "
    "`helper_value_of_this_solve`; the C3 linearisation is computed by the translator and compared with `__mro__` at run time",
    "roll-pass disk elements add up to the pass for every exit plane, entry plane, velocity and count (given or plugged "
    "in: free variables of the translated formulas, theorem `disks_partition_roll_pass_of`), NOT when the pass' `duration` or "
    "`length` or the roll's `contact_length` itself is given (theorem `given_value_breaks_roll_pass_partition`; the code "
    "behaves like the formulas: recorded in `notes.roll_pass_disks_given_value`, not reported)",
]

P = "roll_pass/hookimpls/profile.py"
D = "roll_pass/hookimpls/deformation_unit.py"
U = "unit/hookimpls.py"
T = "transport/hookimpls/transport.py"
S = "sequence/hookimpls.py"
K = "disk_elements/hookimpls.py"
RD = "roll_pass/hookimpls/disk_element.py"
B = "roll_pass/hookimpls/base_roll_pass.py"
RO = "roll_pass/hookimpls/roll.py"
R = "rotator/hookimpls.py"
SELECTION = [
    ("out_length", P, "length"), ("out_strain", P, "strain"), ("rp_in_x", P, "entry_point"), ("rp_out_x", P, "exit_point"),
    ("elongation", D, "elongation"), ("draught", D, "draught"), ("spread", D, "spread"), ("pass_strain", D, "strain"),
    ("out_t", U, "out_t"), ("out_x", U, "out_x"), ("default_in_length", U, "default_in_length"),
    ("default_in_strain", U, "default_in_strain"), ("unit_length", U, "length"), ("unit_duration", U, "duration"),
    ("transport_out_strain", T, "out_strain"), ("transport_duration", T, "duration"),
    ("seq_elongation", S, "total_elongation"), ("seq_duration", S, "duration"), ("seq_length", S, "length"),
    ("seq_power", S, "total_power"),
    ("no_disks", K, "no_disks"), ("disk_duration", K, "disk_duration"), ("disk_length", K, "disk_length"),
    ("rp_disk_length", RD, "length"), ("rp_disk_velocity", RD, "disk_velocity"), ("rp_disk_duration", RD, "disk_duration"),
    ("rp_duration", B, "duration"), ("rp_length", B, "length"), ("rp_exit_point", B, "exit_point"),
    ("contact_length", RO, "contact_length"), ("rotator_duration", R, "duration"),
]
SUMS = ["seq_duration", "seq_length", "seq_power"]
ROTATION_CLASSIFIERS = {"rotated", "edged", "vertical", "mirrored"}


# `Unit.init_solve` exists in two source forms: without and with an `else:` branch that hands the current incoming state
# over to a RE-USED out profile (repair of property C05's finding "a re-used out profile kept the values of the first
# incoming profile").  Translator, model and theorems cope with both.  While this is False the older form is accepted:
# the theorems about the re-use branch are conditional on its presence, and what the second-solve oracle clause sees on
# a source without the branch (stale values in re-used out profiles = C05's finding) is only counted.  Set it to True
# once the repair is in /repo: from then on a source without the branch is a broken tie (translator gap; theorem
# `C06.reuse_branch_as_required` stops building) and the clause reports violations with replays on any source form.
REUSE_BRANCH_REQUIRED = True


# The numeric theorems are about ONE formula per chained quantity (`out t = in t + duration` of `Unit.OutProfile`, ...) and
# claim it for every unit kind.  That rests on no other class carrying an implementation of its own for that hook: a new
# implementation on a sub-class (`Rotator.OutProfile.t`, a `CoolingPipe.OutProfile.strain` ...) comes first in the hook's
# function chain and silently replaces the formula for that unit kind.  So EVERY implementation of these hooks anywhere in
# pyroll/core is listed (`Gen.C06.chainImpls`), and `C06.chain_hooks_all_translated` / `C06.time_formula_of_every_unit`
# require each to be a translated formula (or one of the named exceptions that are handled elsewhere).
CHAIN_HOOKS = ("t", "x", "length", "strain", "duration")


def chain_implementations(repo, tie_breaks=None):
    """[(hook, host class path, function name)] of every hook implementation of a CHAIN_HOOKS hook in any file of
    <repo>/pyroll/core, sorted"""
    root = os.path.join(repo, "pyroll", "core")
    rows = []
    for dp, dn, fns in os.walk(root):
        dn.sort()
        for f in sorted(fns):
            if not f.endswith(".py"):
                continue
            path = os.path.join(dp, f)
            try:
                impls = pyexpr.extract_hookimpls(path, module_name=os.path.relpath(path, root))
            except SyntaxError as ex:
                if tie_breaks is not None:
                    tie_breaks.append(f"translator: {os.path.relpath(path, root)} cannot be parsed ({ex})")
                continue
            rows += [(i.hook, i.host, i.fn) for i in impls if i.hook in CHAIN_HOOKS]
    return sorted(rows)


def runtime_chain_implementations():
    """the same list as the package has it at run time: the functions stored in the `Hook` objects of every class of
    pyroll.core (functions defined in pyroll.*; the harness' own plug-ins are registered only while a case runs)"""
    from pyroll.core.hooks import Hook
    rows = []
    for qn, cls in _runtime_classes().items():
        for name, h in vars(cls).items():
            if not isinstance(h, Hook) or name not in CHAIN_HOOKS:
                continue
            for store in ("_first_wrappers", "_wrappers", "_last_wrappers", "_first_functions", "_functions", "_last_functions"):
                for hf in getattr(h, store, []):
                    fn = hf.function
                    if getattr(fn, "__module__", "").startswith("pyroll."):
                        rows.append((name, qn, fn.__name__))
    return sorted(rows)


def translate(ctx):
    extra, info = c06_skeleton.emit(core.REPO, ctx.tie_breaks)
    chain = chain_implementations(core.REPO, ctx.tie_breaks)
    ctx.chain_impls = chain
    extra += ("\n/-- EVERY implementation, in any file of pyroll/core, of a hook the chain theorems are about "
              + "(" + ", ".join(CHAIN_HOOKS) + "): (hook, host class, function) -/\n")
    extra += "def chainImpls : List (String × String × String) := [\n  " + ",\n  ".join(
        f"({pyexpr.lean_str(h)}, {pyexpr.lean_str(c)}, {pyexpr.lean_str(f)})" for (h, c, f) in chain) + "]\n"
    extra += "\n/-- all hook implementations translated into this module -/\n"
    extra += "def translated : List Impl := [" + ", ".join(n for (n, _, _) in SELECTION) + "]\n"
    extra += "\n/-- the implementations that are sums over the units of a sequence -/\n"
    extra += "def sumImpls : List (String × Impl) := [" + ", ".join(f'("{n}", {n})' for n in SUMS) + "]\n"
    extra += ("\n/-- driver/props/c06.py `REUSE_BRANCH_REQUIRED`: must `Unit.init_solve` have the hand-over branch for a "
              "re-used out profile? -/\n")
    extra += f"def reuseRequired : Bool := {'true' if REUSE_BRANCH_REQUIRED else 'false'}\n"
    if REUSE_BRANCH_REQUIRED and info["skeleton"].get("reuse") is None:
        ctx.tie_breaks.append("translator: Unit.init_solve has no `else:` branch handing the incoming state over to a "
                              "re-used out profile (required: REUSE_BRANCH_REQUIRED)")
    # who re-evaluates which hook cache (class hierarchy, `reevaluate_cache` bodies, helper objects the formulas read)
    idx = gen.hookimpl_index(sorted({rel for (_, rel, _) in SELECTION}))
    formulas = {name: idx[(rel, fn)] for (name, rel, fn) in SELECTION if (rel, fn) in idx}
    rtext, rinfo = c06_refresh.emit(core.REPO, ctx.tie_breaks, formulas)
    extra += "\n" + rtext
    ctx.found = gen.emit_impl_module(ctx, ID, SELECTION, extra)
    ctx.skeleton = info
    ctx.refresh = rinfo


# ---------------------------------------------------------------------------------------------------------------
# specs -> real objects
# ---------------------------------------------------------------------------------------------------------------
def _groove(spec):
    from pyroll.core import CircularOvalGroove, RoundGroove, BoxGroove, DiamondGroove, SquareGroove, SwedishOvalGroove
    k, s, j = spec["groove"], spec["scale"], spec.get("j", [1.0, 1.0])
    pad = dict(pad_angle=30) if spec.get("three") else {}
    if spec.get("three"):
        if k == "oval":
            return CircularOvalGroove(depth=8e-3 * s, r1=6e-3 * s, r2=40e-3 * s * j[0], **pad)
        return RoundGroove(r1=3e-3 * s, r2=12.5e-3 * s * j[0], depth=5e-3 * s, **pad)
    if k == "oval":
        return CircularOvalGroove(depth=8e-3 * s * j[0], r1=6e-3 * s, r2=40e-3 * s * j[1])
    if k == "round":
        return RoundGroove(r1=1e-3 * s, r2=12.5e-3 * s * j[0], depth=11.5e-3 * s)
    if k == "box":
        return BoxGroove(r1=2e-3 * s, r2=4e-3 * s, depth=10e-3 * s * j[0], usable_width=30e-3 * s, ground_width=24e-3 * s)
    if k == "diamond":
        return DiamondGroove(r1=3e-3 * s, r2=5e-3 * s, usable_width=38e-3 * s * j[0], tip_depth=12e-3 * s)
    if k == "square":
        return SquareGroove(r1=3e-3 * s, r2=4e-3 * s, usable_width=30e-3 * s * (0.97 + 0.06 * (j[0] - 0.9) / 0.3),
                            tip_depth=15e-3 * s)
    return SwedishOvalGroove(r1=3e-3 * s, r2=6e-3 * s, depth=7e-3 * s, usable_width=36e-3 * s, ground_width=20e-3 * s)


def build_unit(spec, label):
    from pyroll.core import Roll, RollPass, ThreeRollPass, Transport, CoolingPipe, Rotator, PassSequence
    t = spec["type"]
    kw = {}
    if spec.get("disks"):
        kw["disk_element_count"] = spec["disks"]
    if t == "pass":
        s = spec["scale"]
        # `given` / `roll_given`: values the caller states explicitly for hooks of the pass / of its working roll that
        # usually take their default or derived value (exit_point, entry_point, velocity; duration, length; contact_length)
        roll = Roll(groove=_groove(spec), nominal_radius=160e-3 * s, rotational_frequency=spec.get("freq", 1),
                    **({"neutral_point": spec["neutral_point"]} if "neutral_point" in spec else {}),
                    **spec.get("roll_given", {}))
        if "rotation" in spec:
            kw["rotation"] = spec["rotation"]
        kw.update(spec.get("given", {}))
        if not spec.get("disks") and ({"duration", "length"} & set(spec.get("given", {}))):
            # a pass whose duration / length is GIVEN is generated WITHOUT disk elements (explicitly none, also when a
            # plug-in supplies a count): the roll-pass disk elements bypass a given duration / length, see
            # ROLL_PASS_DISKS_FOLLOW_GIVEN_REQUIRED
            kw["disk_element_count"] = 0
        if spec.get("three"):
            if spec["groove"] == "oval":
                return ThreeRollPass(label=label, roll=roll, gap=2e-3 * s * spec.get("gap", 1.0), **kw)
            return ThreeRollPass(label=label, roll=roll, inscribed_circle_diameter=22e-3 * s, **kw)
        return RollPass(label=label, roll=roll, gap=2e-3 * s * spec.get("gap", 1.0), **kw)
    if t in ("transport", "pipe"):
        for k in ("duration", "length", "velocity"):
            if k in spec:
                kw[k] = spec[k]
        if t == "pipe":
            return CoolingPipe(label=label, inner_radius=spec.get("inner_radius", 0.05), coolant_volume_flux=1e-3, **kw)
        return Transport(label=label, **kw)
    if t == "rotator":
        if spec.get("rotation") is not None:
            kw["rotation"] = spec["rotation"]
        # a turning device / twist guide that TAKES time or has a length: the values every unit kind accepts, given
        # explicitly where they usually take the default (Rotator.duration = 0)
        for k in ("duration", "length", "velocity"):
            if k in spec:
                kw[k] = spec[k]
        kw.pop("disk_element_count", None)
        return Rotator(label=label, **kw)
    if t == "seq":
        return PassSequence([build_unit(u, f"{label}.{i}") for i, u in enumerate(spec["units"])], label=label)
    raise ValueError(t)


def build_in_profile(spec):
    from pyroll.core import Profile
    kw = dict(temperature=1200 + 273.15, material=["C45", "steel"], density=7.5e3, specific_heat_capacity=690)
    if spec.get("flow_stress", True):
        kw["flow_stress"] = 100e6
    for k in ("length", "strain", "t"):
        if spec.get(k) is not None:
            kw[k] = spec[k]
    s, kind = spec["size"], spec["kind"]
    if kind == "round":
        return Profile.round(diameter=s, **kw)
    if kind == "square":
        return Profile.square(side=s * 0.8, corner_radius=s * 0.05, **kw)
    if kind == "box":
        return Profile.box(height=s * 0.9, width=s * 0.8, corner_radius=s * 0.05, **kw)
    return Profile.diamond(height=s * 0.8, width=s * 1.1, corner_radius=s * 0.05, **kw)


def profile_hook_names():
    """the (sorted) hook names of the caller's profile class - the pool the generator draws prior reads from"""
    from pyroll.core import Profile
    return sorted(Profile.__hooks__)


def apply_reads(ip, names, count=None):
    """what a user does before solving: LOOK at derived values of the incoming profile (`ip.equivalent_height`, ...).
    A read only fills the hook cache of that object; a hook without value raises the documented AttributeError.
    Returns the names that gave a value."""
    got = []
    for n in names:
        try:
            getattr(ip, n)
        except AttributeError:      # documented: the hook cannot provide a value on this object
            if count:
                count("prior-read:no-value")
            continue
        got.append(n)
        if count:
            count("prior-read:value" + (":explicit" if n in ip.__dict__ else ":cached"))
    return got


def _flow_stress(self):
    return 50e6 * (1 + self.strain) ** 0.2 * self.roll_pass.strain_rate ** 0.1


def _width(self, cycle):
    if cycle:
        return None
    return self.roll_pass.in_profile.width * self.roll_pass.draught ** -0.5


# ---- plug-ins: hook implementations for the quantities the disk partition and the time chain READ ---------------------
# (what a roll flattening / forward slip / contact model, a roller table with its own speed or a plug-in that subdivides
# every unit does: a value that usually is the core's default comes from a registered function instead)
def _plug_exit_point(f):
    def exit_point(self):
        return f * -self.entry_point          # material leaves the gap behind (f > 0) / before (f < 0) the high point
    return exit_point


def _plug_entry_point(f):
    def entry_point(self):
        import numpy as np
        dh = self.in_profile.height - self.height
        if dh > 0:
            return -f * float(np.sqrt(self.roll.nominal_radius * dh))
    return entry_point


def _plug_velocity(f):
    def velocity(self):
        return f * self.roll.working_velocity     # forward slip
    return velocity


def _plug_disk_count(n):
    def disk_element_count(self):
        return n
    return disk_element_count


def _plug_transport_velocity(f):
    def velocity(self):
        if self.in_profile.has_value("velocity"):
            return f * self.in_profile.velocity   # roller table driven faster / slower than the stock arrives
    return velocity


def _plug_transport_dwell(d):
    def duration(self, cycle):
        if not cycle and self.has_set("length") and self.has_value("velocity"):
            return self.length / self.velocity + d     # a looper / dwell: longer under way than length / velocity
    return duration


def _plug_contact_length(f):
    def contact_length(self):
        return f * (self.roll_pass.exit_point - self.roll_pass.entry_point)    # flattened roll: longer contact
    return contact_length


def _plug_rotator_duration(d):
    def duration(self):
        return d      # turning takes time: every explicit rotator without a duration of its own (the entry rotation of a
    return duration   # roll pass is created with the explicit duration 0 and keeps it)


def _plugin_targets(name):
    """the hooks a plug-in registers on (the most derived classes that carry a core implementation, so that the
    plug-in comes first in the hook's function chain) and its function factory"""
    from pyroll.core import BaseRollPass, SymmetricRollPass, TwoRollPass, ThreeRollPass, Transport, Rotator
    from pyroll.core.disk_elements import DiskElementUnit
    return {
        "rotator_duration": ([Rotator.duration], _plug_rotator_duration),
        "exit_point": ([BaseRollPass.exit_point], _plug_exit_point),
        "entry_point": ([TwoRollPass.entry_point, ThreeRollPass.entry_point], _plug_entry_point),
        "velocity": ([SymmetricRollPass.velocity], _plug_velocity),
        "disk_count": ([DiskElementUnit.disk_element_count], _plug_disk_count),
        "transport_velocity": ([Transport.velocity], _plug_transport_velocity),
        "transport_dwell": ([Transport.duration], _plug_transport_dwell),
        "contact_length": ([BaseRollPass.Roll.contact_length], _plug_contact_length),
    }[name]


class Registered:
    """extra models as hook implementations: registered on entry, removed again on exit (also the extra root hooks).
    `plugins` = [[name, parameter], ...] (see `_plugin_targets`)"""

    def __init__(self, model, plugins=None):
        self.model = model
        self.plugins = plugins or []
        self.hfs = []
        self.roots = []

    def __enter__(self):
        from pyroll.core import RollPass, Rotator, root_hooks
        try:
            if self.model == "flow_stress":
                self.hfs.append((RollPass.Profile.flow_stress, RollPass.Profile.flow_stress(_flow_stress)))
            elif self.model == "width":
                self.hfs.append((RollPass.OutProfile.width, RollPass.OutProfile.width(_width)))
                for h in (RollPass.OutProfile.width, Rotator.OutProfile.width):
                    root_hooks.add(h)
                    self.roots.append(h)
            for name, par in self.plugins:
                hooks, factory = _plugin_targets(name)
                for hook in hooks:
                    self.hfs.append((hook, hook.add_function(factory(par))))
        except BaseException:
            self.__exit__()
            raise
        return self

    def __exit__(self, *a):
        from pyroll.core import root_hooks
        for h in reversed(self.roots):
            root_hooks.remove_last(h)
        for hook, hf in reversed(self.hfs):
            hook.remove_function(hf)
        self.roots, self.hfs = [], []
        return False


class RotatorCapture:
    """records the rotator each roll pass created for its entry rotation (they are local to `init_solve`)"""

    def __init__(self):
        self.by_pass = {}
        self.slot = None

    def __enter__(self):
        from pyroll.core import BaseRollPass
        lst = BaseRollPass.pre_processors
        for i, f in enumerate(lst):
            if getattr(f, "__name__", "") == "rotator_factory":
                def wrapped(rp, _f=f):
                    r = _f(rp)
                    self.by_pass[id(rp)] = r
                    return r
                self.slot = (lst, i, f)
                lst[i] = wrapped
                break
        return self

    def __exit__(self, *a):
        if self.slot:
            lst, i, f = self.slot
            lst[i] = f
        return False


class RefreshTrace:
    """records, for every roll pass with disk elements, every solve of that object and in every iteration of it (at the
    time the root hooks are evaluated, i.e. after `_solve_subunits` and `reevaluate_cache`): the length the first disk
    element has cached (= what it read of `roll.contact_length`, divided by the count) and what the roll's cache holds
    under `contact_length` then.  `store`: id(pass) -> {"unit": pass, "solves": [[(disk length, roll value), ...], ...]};
    the store is shared between the solves of one case (the caches persist between them).
    Transparent wrappers around `Unit.solve` / `Unit.get_root_hook_results`, removed on exit."""

    def __init__(self, store):
        self.store = store

    def __enter__(self):
        from pyroll.core import Unit, BaseRollPass
        store = self.store
        self.saved = None
        if "solve" not in Unit.__dict__ or "get_root_hook_results" not in Unit.__dict__:
            return self         # a tree under test that is organised differently: nothing is recorded
        self.saved = (Unit.__dict__["solve"], Unit.__dict__["get_root_hook_results"])
        o_solve, o_results = self.saved

        def solve(u, in_profile):
            if isinstance(u, BaseRollPass):
                store.setdefault(id(u), {"unit": u, "solves": []})["solves"].append([])
            return o_solve(u, in_profile)

        def get_root_hook_results(u):
            rec = store.get(id(u))
            if rec is not None and rec["solves"]:
                subs = u.subunits
                roll = getattr(u, "roll", None)
                rec["solves"][-1].append((subs[0].__cache__.get("length") if subs else None,
                                          None if roll is None else roll.__cache__.get("contact_length")))
            return o_results(u)
        Unit.solve = solve
        Unit.get_root_hook_results = get_root_hook_results
        return self

    def __exit__(self, *a):
        from pyroll.core import Unit
        if self.saved is not None:
            Unit.solve, Unit.get_root_hook_results = self.saved
        return False


# ---------------------------------------------------------------------------------------------------------------
# generators
# ---------------------------------------------------------------------------------------------------------------
def gen_pass(rng, scale, kinds=None, three=False):
    k = rng.choice(kinds or ["oval", "round", "box", "diamond", "square", "swedish"])
    sp = {"type": "pass", "groove": k, "scale": round(scale, 4), "j": [round(rng.uniform(0.9, 1.1), 3), round(rng.uniform(0.95, 1.15), 3)],
          "gap": round(rng.uniform(0.6, 1.4), 3), "disks": rng.choice([0, 0, 0, 1, 2, 3, 4])}
    if three:
        sp["three"] = True
        sp["groove"] = rng.choice(["oval", "round"])
    r = rng.random()
    if r < 0.1:
        sp["rotation"] = False
    elif r < 0.2:
        sp["rotation"] = rng.choice([90, 45, 0, 180])
    if rng.random() < 0.15 and not three:
        sp["neutral_point"] = -20e-3 * scale
    gv = gen_given(rng, scale)
    if gv:
        sp["given"] = gv
        if sp["disks"] == 0 and rng.random() < 0.6:
            sp["disks"] = rng.choice([1, 1, 2, 3, 4])     # what the disk elements read is given: mostly WITH disk elements
    gt = gen_given_time(rng, scale)
    if gt and sp["disks"] == 0:
        sp["given"] = dict(sp.get("given", {}), **gt)
    return sp


def gen_given(rng, scale):
    """values the caller gives EXPLICITLY (keyword of the pass) for hooks the disk partition and the time chain read and
    that usually take the core's default / derived value: the exit plane out of the high point (`exit_point` != 0, the
    default is 0), the entry plane (`entry_point`, usually from the height change), the speed of the stock
    (`velocity`, usually from the roll).  The statement quantifies over configurations: the disk elements must add up to
    the pass, chain x and t and end when the pass hands on, whatever of these is given."""
    gv = {}
    if rng.random() < 0.16:
        gv["exit_point"] = round(scale * rng.choice([1e-3, 1.5e-3, 2.5e-3, -1e-3, rng.uniform(0.2e-3, 4e-3),
                                                     -rng.uniform(0.2e-3, 2e-3)]), 6)
    if rng.random() < 0.07:
        gv["entry_point"] = -round(scale * rng.uniform(20e-3, 42e-3), 5)
    if rng.random() < 0.07:
        gv["velocity"] = rng.choice([1, 0.5, 2.5, round(rng.uniform(0.2, 6), 3)])
    return gv


def gen_given_time(rng, scale):
    """... and the pass' own `duration` / `length` given (a stand with a dwell, a measured contact time): time must advance
    by THAT duration and the enclosing sequence must add THAT value.  Only for passes without disk elements (the
    roll-pass disk elements do not follow a given duration / length, see ROLL_PASS_DISKS_FOLLOW_GIVEN_REQUIRED)."""
    r = rng.random()
    if r < 0.05:
        return {"duration": rng.choice([0.1, 0.5, round(rng.uniform(0.01, 2), 4)])}
    if r < 0.08:
        return {"length": round(scale * rng.uniform(0.03, 0.08), 5)}
    return {}


PLUGIN_POOL = {
    "exit_point": lambda rng: rng.choice([0.03, 0.05, -0.02, round(rng.uniform(0.01, 0.1), 3)]),
    "entry_point": lambda rng: round(rng.uniform(0.85, 1.2), 3),
    "velocity": lambda rng: round(rng.uniform(1.0, 1.1), 3),
    "disk_count": lambda rng: rng.choice([1, 1, 2, 3]),
    "transport_velocity": lambda rng: round(rng.uniform(0.8, 1.5), 3),
    "transport_dwell": lambda rng: rng.choice([0.5, 2, round(rng.uniform(0.1, 3), 3)]),
    "rotator_duration": lambda rng: rng.choice([0.5, 0.2, round(rng.uniform(0.05, 2), 3)]),
}


def gen_plugins(rng):
    """... or by a PLUG-IN: hook implementations registered for the run of the case (removed in `finally`) that supply
    these quantities instead of the core's defaults -> [[name, parameter], ...] (see `_plugin_targets`)"""
    if rng.random() >= 0.22:
        return []
    names = rng.sample(sorted(PLUGIN_POOL), rng.choice([1, 1, 2, 3]))
    if "exit_point" not in names and rng.random() < 0.4:
        names.append("exit_point")
    return [[n, PLUGIN_POOL[n](rng)] for n in sorted(names)]


def gen_transport(rng, after_pass=True):
    """a transport / cooling pipe; its length can be given only directly after a roll pass (the velocity then comes with
    the incoming profile - a nested sequence does not deliver one), else its duration"""
    t = {"type": rng.choice(["transport", "transport", "pipe"]), "disks": rng.choice([0, 0, 1, 2, 3, 4])}
    r = rng.random()
    if r < 0.18:
        # explicit values for quantities that usually follow from one another: a roller table with its own speed
        # (velocity given besides length or duration - then no velocity of the incoming profile is needed), or a looper /
        # dwell with both length and duration given (duration != length / velocity of the incoming profile)
        dur = rng.choice([1, 0.5, 2.5, round(rng.uniform(0.1, 5), 3)])
        length = rng.choice([1, 2.0, round(rng.uniform(0.2, 6), 3)])
        vel = rng.choice([1, 0.25, round(rng.uniform(0.05, 8), 3)])
        k = rng.choice(["length+duration", "length+velocity", "duration+velocity"])
        if "length" in k:
            t["length"] = length
        if "duration" in k:
            t["duration"] = dur
        if "velocity" in k:
            t["velocity"] = vel
    elif r < 0.65 or not after_pass:
        t["duration"] = rng.choice([1, 0.5, 2.5, 0, round(rng.uniform(0.1, 5), 3)])
    else:
        t["length"] = rng.choice([1, 2.0, 0, round(rng.uniform(0.2, 6), 3)])
    return t


def gen_rotator(rng, last=False, after_pass=False):
    """an explicit rotator.  Usually only the angle is written (duration 0 by the core's default); 45 % of them are a
    turning device / twist guide that TAKES time: `duration` given (non-zero, or the explicit 0 the entry rotation of a roll
    pass is created with), some with a `length` (with the duration, or alone directly after a roll pass - the velocity then
    comes with the incoming profile) - every unit kind x explicit duration / length / velocity.  A rotator that ends its
    sequence has no next roll pass to take the angle from: its angle is given."""
    rot = {"type": "rotator", "rotation": rng.choice([90, 45, 0, 180] if last else [None, 90, 45, 0])}
    r = rng.random()
    if r < 0.45:
        rot["duration"] = rng.choice([0.5, 0.25, 2, 0, round(rng.uniform(0.05, 4), 3)])
        if rng.random() < 0.3:
            rot["length"] = rng.choice([0.5, 0, round(rng.uniform(0.1, 3), 3)])
        if rng.random() < 0.15:
            rot["velocity"] = rng.choice([1, round(rng.uniform(0.2, 5), 3)])
    elif r < 0.55 and after_pass:
        rot["length"] = rng.choice([0.5, 0, round(rng.uniform(0.1, 3), 3)])
    return rot


def next_pass(rng, st):
    """the next pass of the line: a groove family and scale that fits what the previous pass delivers"""
    last = st["last"]
    if st["three"]:
        if last is None:
            g, sc = rng.choice([("oval", 1.0), ("round", 2.0)])
        elif last == ("oval", 1.0):
            g, sc = "round", 2.0
        elif last == ("round", 2.0):
            g, sc = "oval", 0.8
        else:
            return None
        st["last"] = (g, sc)
        sp = gen_pass(rng, sc, [g], three=True)
        sp["groove"] = g
        return sp
    if last is None:
        sp = gen_pass(rng, 1.0)
        st["scale"] = 1.0
    elif last == "oval":
        sp = gen_pass(rng, st["scale"], ["round"])
    else:
        st["scale"] = round(st["scale"] * 0.8, 4)
        sp = gen_pass(rng, st["scale"], ["oval", "oval", "round"] if last != "round" else ["oval"])
    st["last"] = sp["groove"]
    return sp


def gen_units(rng, depth, st, want):
    """a list of unit specs (st: state of the pass line, shared with nested sequences)"""
    units = []
    last_type = None
    for i in range(want):
        r = rng.random()
        if rng.random() < 0.14 and (i < want - 1 or i > 0) and not st["three"] and last_type != "rotator":
            units.append(gen_rotator(rng, last=i == want - 1, after_pass=last_type == "pass"))
            last_type = "rotator"
            continue
        if depth < 2 and r < 0.22 and want > 1:
            sub = gen_units(rng, depth + 1, st, rng.randrange(1, 4))
            if sub:
                units.append({"type": "seq", "units": sub})
                last_type = "seq"
            continue
        if i > 0 and last_type == "pass" and r < 0.75:
            units.append(gen_transport(rng, after_pass=True))
            last_type = "transport"
            continue
        if r > 0.93 and last_type in ("seq", "transport"):
            units.append(gen_transport(rng, after_pass=False))
            last_type = "transport"
            continue
        sp = next_pass(rng, st)
        if sp is None:
            units.append(gen_transport(rng, after_pass=last_type == "pass"))
            last_type = "transport"
            continue
        units.append(sp)
        last_type = "pass"
    return units


def gen_reads(rng, names):
    """which hooks of the incoming profile the caller reads before solve(): nothing (as every test and plain script),
    a few, or everything that can be read"""
    r = rng.random()
    if not names or r < 0.45:
        return []
    if r < 0.7:
        return list(names)
    return sorted(rng.sample(names, min(len(names), rng.choice([1, 2, 4, 8, 16]))))


ADDED_NAMES = ["batch", "heat_number", "surface_temperature", "thermal_conductivity"]


def gen_again(rng, spec_in, model, three, units=None):
    """the SAME sequence object is solved a second time on another billet: how the caller's second profile differs from
    the first - some values changed, some entries removed, some added (-> `build_second_profile`)"""
    ag = {"set": {}, "drop": []}
    changed = {
        "temperature": lambda: round(rng.uniform(900, 1300) + 273.15, 2),
        "density": lambda: rng.choice([7.2e3, 7.85e3]),
        "specific_heat_capacity": lambda: rng.choice([600, 720]),
        "material": lambda: rng.choice([["C20", "steel"], "C45", ["X5CrNi18-10"]]),
        "length": lambda: rng.choice([2, 0.5, round(rng.uniform(0.1, 10), 3)]),
        "strain": lambda: rng.choice([0, 0.1, 0.45]),
        "t": lambda: rng.choice([0, 7.25, 100]),
    }
    for k in rng.sample(sorted(changed), rng.randrange(1, 5)):
        ag["set"][k] = changed[k]()
    if spec_in.get("flow_stress", True):
        r = rng.random()
        if r < 0.5:
            ag["set"]["flow_stress"] = rng.choice([80e6, 120e6])
        elif r < 0.6 and model == "flow_stress":
            ag["drop"].append("flow_stress")        # the registered model takes over
    elif rng.random() < 0.5:
        ag["set"]["flow_stress"] = rng.choice([80e6, 120e6])   # an explicit value now overrides the registered model
    for k in rng.sample(["density", "specific_heat_capacity", "material"], rng.choice([0, 1, 1, 2])):
        if k not in ag["set"]:
            ag["drop"].append(k)
    for k in rng.sample(ADDED_NAMES, rng.choice([0, 1, 1, 2])):
        ag["set"][k] = rng.choice(["B-17", 3, 1200.5])
    r = rng.random()
    if r < 0.2:
        ag["size"] = round(spec_in["size"] * rng.uniform(0.985, 1.015), 5)      # the next billet of the same order
    elif r < 0.6:
        # ANOTHER billet: a height / width the line was not solved for before (everything a unit or one of its helper
        # objects - the working roll - remembered of the first billet's geometry is out of date by several percent)
        ag["size"] = round((60e-3 if three else 30e-3) * rng.uniform(0.93, 1.05), 5)
    if rng.random() < 0.15:
        kinds = [k for k in (["round", "square", "box"] if three else ["round", "square", "box", "diamond"])
                 if k != spec_in["kind"]]
        ag["kind"] = rng.choice(kinds)                                          # ... of another shape
    if units and rng.random() < 0.3:
        # the caller re-configures the used line between the two solves (roll gap, roll speed, transport duration /
        # length): `[index in the flat unit list, attribute, value or factor]`
        flat = _flat(units)
        cand = []
        for i, u in enumerate(flat):
            if u["type"] == "pass":
                cand.append([i, "rotational_frequency", rng.choice([0.5, 2, round(rng.uniform(0.3, 3), 3)])])
                if not (u.get("three") and u["groove"] != "oval"):
                    cand.append([i, "gap*", round(rng.choice([rng.uniform(0.7, 0.9), rng.uniform(1.1, 1.4)]), 3)])
            elif u["type"] in ("transport", "pipe", "rotator"):
                for k in ("duration", "length"):
                    if k in u:
                        cand.append([i, k, rng.choice([0.25, 3, round(rng.uniform(0.1, 6), 3)])])
        if cand:
            ag["reconf"] = sorted(rng.sample(cand, min(len(cand), rng.choice([1, 1, 2, 3]))))
    return ag


def build_second_profile(spec):
    """the caller's profile of the second solve: the first one's construction with `again` applied"""
    ag = spec["again"]
    sin = dict(spec["in"])
    if "size" in ag:
        sin["size"] = ag["size"]
    elif "size_factor" in ag:
        sin["size"] = sin["size"] * ag["size_factor"]
    if "kind" in ag:
        sin["kind"] = ag["kind"]
    ip = build_in_profile(sin)
    for k, v in ag.get("set", {}).items():
        setattr(ip, k, v)
    for k in ag.get("drop", []):
        ip.__dict__.pop(k, None)
    return ip


def gen_case(rng, hook_names=()):
    three = rng.random() < 0.2
    n = rng.choice([1, 2, 3, 3, 4, 5])
    st = {"three": three, "last": None, "scale": 1.0}
    units = gen_units(rng, 0, st, n)
    if not any(u["type"] in ("pass", "seq") for u in units):
        units.append(next_pass(rng, st) or gen_transport(rng, False))
    spec_in = {"kind": rng.choice(["round", "square", "box"] if three else ["round", "square", "box", "diamond"]),
               "size": round((60e-3 if three else 30e-3) * rng.uniform(0.97, 1.04), 5),
               "length": rng.choice([1, 1, 2.5, 0.3, None, round(rng.uniform(0.1, 10), 3)]),
               "strain": rng.choice([0, 0, None, 0.3]), "t": rng.choice([None, None, 0, 12.5])}
    model = rng.choice(["none", "none", "flow_stress", "width"])
    if model == "flow_stress" and not three:     # the flow stress model is registered on the two-roll pass profiles
        spec_in["flow_stress"] = False
    reads = gen_reads(rng, list(hook_names))
    if reads:
        spec_in["reads"] = reads
    spec = {"in": spec_in, "units": units, "model": model}
    plugins = gen_plugins(rng)
    if plugins:
        spec["plugins"] = plugins
    if rng.random() < AGAIN_SHARE:
        spec["again"] = gen_again(rng, spec_in, model, three, units)
        if rng.random() < 0.12 and model != "flow_stress":
            # the first billet's description is incomplete (no flow stress): the first solve is aborted inside the first
            # roll pass, the caller completes the profile and solves the same sequence again
            spec_in["flow_stress"] = False
            spec["again"]["set"]["flow_stress"] = 100e6
            if "flow_stress" in spec["again"]["drop"]:
                spec["again"]["drop"].remove("flow_stress")
    return spec


AGAIN_SHARE = 0.15
N_QUICK = 330
AGAIN_CORPUS = {"set": {"temperature": 1350.0, "length": 2, "t": 7.25, "batch": "B-17", "flow_stress": 80e6},
                "drop": ["density"], "size_factor": 1.01}
# ... and on ANOTHER billet: 6 % smaller, arriving later and pre-strained (what the units and their helper objects - the
# working rolls - remembered of the first billet's geometry is out of date by far more than the iteration precision)
AGAIN_CORPUS_OTHER = {"set": {"length": 2.0, "t": 3.0, "strain": 0.2}, "drop": [], "size_factor": 0.94}


CORPUS = [
    # the layout of tests/test_solve.py with disk elements and a nested line
    {"in": {"kind": "round", "size": 30e-3, "length": 1, "strain": 0, "t": None}, "model": "flow_stress",
     "units": [{"type": "pass", "groove": "oval", "scale": 1.0, "disks": 3, "neutral_point": -20e-3},
               {"type": "transport", "duration": 1, "disks": 2},
               {"type": "seq", "units": [{"type": "pass", "groove": "round", "scale": 1.0, "disks": 0},
                                         {"type": "transport", "duration": 1, "disks": 0},
                                         {"type": "pass", "groove": "oval", "scale": 0.8, "disks": 1}]},
               {"type": "transport", "length": 2.0, "disks": 4},
               {"type": "pass", "groove": "round", "scale": 0.8, "disks": 0}]},
    # three-roll line, cooling pipe, default incoming length and strain
    {"in": {"kind": "round", "size": 55e-3, "length": None, "strain": None, "t": 3.5}, "model": "none",
     "units": [{"type": "pass", "groove": "oval", "scale": 1.0, "three": True, "disks": 2},
               {"type": "pipe", "duration": 1, "disks": 3},
               {"type": "pass", "groove": "round", "scale": 2.0, "three": True, "disks": 0}]},
    # explicit rotator before a pass, pass without rotation, width model as extra root hook
    {"in": {"kind": "square", "size": 30e-3, "length": 2.5, "strain": 0.3, "t": 0}, "model": "width",
     "units": [{"type": "pass", "groove": "oval", "scale": 1.0, "disks": 0, "rotation": False},
               {"type": "transport", "duration": 0.5, "disks": 1},
               {"type": "rotator", "rotation": 90},
               {"type": "pass", "groove": "round", "scale": 1.0, "disks": 2}]},
    # nested twice, transports only inside
    {"in": {"kind": "box", "size": 30e-3, "length": 1, "strain": 0, "t": None}, "model": "none",
     "units": [{"type": "seq", "units": [{"type": "seq", "units": [{"type": "pass", "groove": "box", "scale": 1.0, "disks": 1}]},
                                         {"type": "transport", "duration": 1.5, "disks": 2}]},
               {"type": "pass", "groove": "oval", "scale": 0.85, "disks": 0}]},
    # what the disk partition and the time chain read is GIVEN by the caller: exit plane out of the high point, entry plane,
    # speed of the stock, a roller table with its own speed; one disk element; a pass inside a nested line
    {"in": {"kind": "round", "size": 30e-3, "length": 2.0, "strain": 0, "t": 1.0}, "model": "none",
     "units": [{"type": "pass", "groove": "oval", "scale": 1.0, "disks": 3, "given": {"exit_point": 2e-3, "velocity": 1.5}},
               {"type": "transport", "length": 1.5, "velocity": 2.0, "disks": 2},
               {"type": "seq", "units": [{"type": "pass", "groove": "round", "scale": 1.0, "disks": 1,
                                          "given": {"entry_point": -45e-3, "exit_point": -1e-3}}]},
               {"type": "pipe", "duration": 0.5, "disks": 1}]},
    # ... or supplied by plug-ins (forward slip, flattened entry, shifted exit, every unit subdivided), three-roll line
    {"in": {"kind": "round", "size": 55e-3, "length": 1, "strain": None, "t": None}, "model": "none",
     "plugins": [["disk_count", 2], ["entry_point", 1.1], ["exit_point", 0.04], ["velocity", 1.05]],
     "units": [{"type": "seq", "units": [{"type": "pass", "groove": "oval", "scale": 1.0, "three": True, "disks": 0}]},
               {"type": "transport", "duration": 1, "disks": 0},
               {"type": "pass", "groove": "round", "scale": 2.0, "three": True, "disks": 1}]},
    # units that usually take no time / have no length are GIVEN one: a turning device between transport and pass, a twist
    # guide with a length inside a nested line behind a cooling pipe, a rotator ending a nested line; a pass with a given
    # duration (no disk elements); a transport of length 0
    {"in": {"kind": "round", "size": 30e-3, "length": 1.5, "strain": 0.1, "t": 3.0}, "model": "none",
     "units": [{"type": "pass", "groove": "oval", "scale": 1.0, "disks": 0, "given": {"duration": 0.2}},
               {"type": "transport", "duration": 1, "disks": 2},
               {"type": "rotator", "rotation": 90, "duration": 0.5},
               {"type": "seq", "units": [{"type": "pass", "groove": "round", "scale": 1.0, "disks": 2, "rotation": False},
                                         {"type": "pipe", "length": 1.0, "disks": 1},
                                         {"type": "rotator", "rotation": 45, "duration": 0.25, "length": 0.4},
                                         {"type": "pass", "groove": "oval", "scale": 0.8, "disks": 0, "rotation": 45},
                                         {"type": "transport", "length": 0, "disks": 0},
                                         {"type": "rotator", "rotation": 90, "duration": 0.125}]},
               {"type": "pass", "groove": "round", "scale": 0.8, "disks": 1, "rotation": False}]},
]


# ---------------------------------------------------------------------------------------------------------------
# the oracle (from the property text)
# ---------------------------------------------------------------------------------------------------------------
def _rel(a, b):
    return abs(a - b) / max(abs(a), abs(b), 1e-300)


def _pub(p):
    return {k: v for k, v in p.__dict__.items() if not k.startswith("_")}


def _same(a, b):
    """exact equality of two handed-over values"""
    import numpy as np
    if a is b:
        return True
    if hasattr(a, "wkb") and hasattr(b, "wkb"):
        return a.wkb == b.wkb
    try:
        r = a == b
        if isinstance(r, np.ndarray):
            return bool(r.all())
        return bool(r)
    except Exception:
        return False


def _rotated_copy(a, b, tol=1e-9):
    """is polygon b = polygon a rotated about the origin by one common angle? returns (ok, angle in degree)"""
    import numpy as np
    ca, cb = np.array(a.exterior.coords), np.array(b.exterior.coords)
    if ca.shape != cb.shape:
        return False, None
    ra = np.hypot(ca[:, 0], ca[:, 1])
    scale = max(ra.max(), 1e-300)
    i = int(ra.argmax())
    ang = math.atan2(cb[i, 1], cb[i, 0]) - math.atan2(ca[i, 1], ca[i, 0])
    c, s = math.cos(ang), math.sin(ang)
    rot = np.column_stack([c * ca[:, 0] - s * ca[:, 1], s * ca[:, 0] + c * ca[:, 1]])
    return bool(np.abs(rot - cb).max() <= tol * scale), math.degrees(ang)


def _length(u, count):
    """u.length, or None when Transport.length raises IndexError because the transport is first / last in its parent
    (finding F13 of property C16 - not a C06 matter)"""
    try:
        return u.length
    except IndexError:
        count("length-unavailable:transport-first-or-last")
        return None
    except AttributeError:      # documented error of a hook without data, e.g. a leading rotator has no velocity
        count("length-unavailable:no-velocity")
        return None


def _units_of(u):
    """sub-units of a solved unit (disk elements are sub-units)"""
    return list(u.subunits)


def _is_pass(u):
    from pyroll.core import BaseRollPass
    return isinstance(u, BaseRollPass)


def check_handover(viol, a, b, where, rotated, in_roots, rot_roots):
    """b (an in profile) received what a (out profile of the predecessor / in profile of the parent) delivered"""
    for name in ("length", "t", "strain"):
        if hasattr(a, name) and name in _pub(a):
            if name not in _pub(b) or not _same(getattr(a, name), getattr(b, name)):
                viol(f"handover-{name}", f"{where}: {name} delivered {getattr(a, name, None)!r}, received {b.__dict__.get(name)!r}")
    acs, bcs = a.cross_section, b.cross_section
    if rotated:
        ok, ang = _rotated_copy(acs, bcs)
        if not ok or _rel(acs.area, bcs.area) > 1e-9:
            viol("handover-cross-section-rotated", f"{where}: received cross-section is not a rotated copy of the delivered "
                 f"one (areas {acs.area} -> {bcs.area})")
        ac, bc = set(a.classifiers), set(b.classifiers)
        if not (ac <= bc and (bc - ac) <= ROTATION_CLASSIFIERS):
            viol("handover-classifiers-rotated", f"{where}: classifiers {sorted(ac)} -> {sorted(bc)}")
    else:
        if not _same(acs, bcs):
            viol("handover-cross-section", f"{where}: received cross-section differs from the delivered one "
                 f"(areas {acs.area} -> {bcs.area})")
        if set(a.classifiers) != set(b.classifiers):
            viol("handover-classifiers", f"{where}: classifiers {sorted(a.classifiers)} -> {sorted(b.classifiers)}")
    # everything else that is explicit state: unchanged, except what the receiving side recomputes itself on entry
    skip = {"length", "t", "strain", "cross_section", "classifiers"} | set(in_roots) | (set(rot_roots) if rotated else set())
    pa, pb = _pub(a), _pub(b)
    for k, v in pa.items():
        if k in skip:
            continue
        if k not in pb or not _same(v, pb[k]):
            viol("handover-other-value", f"{where}: explicit value {k!r} delivered {v!r}, received {pb.get(k)!r}")
    # ... and nothing but that ("exactly what its predecessor delivered"): an explicit value of the received state that
    # nobody delivered and that the receiving side does not compute itself on entry (its own root hooks; the entry
    # rotation) has been made up on the way - e.g. a derived value somebody once READ on the delivering object
    # (equivalent_height, width ...) frozen into explicit state, from where it overrides the hook for ever after
    recomputed = set(in_roots) | (set(rot_roots) if rotated else set())
    for k, v in pb.items():
        if k not in pa and k not in recomputed:
            viol("handover-undelivered-value", f"{where}: the received state holds the explicit value {k!r} = {v!r} "
                 f"which the delivered state does not hold")


def check_tree(seq, prec_of, viol, count, root_names_of, given=None, returned=None):
    """all sentences of the property on one solved unit tree; `viol(key, what)` reports, `count(key)` counts.
    `given` is the profile object the caller handed to `seq.solve`, `returned` what that call returned: the caller is
    the predecessor of the outermost unit and its successor."""
    from pyroll.core import PassSequence, Transport, Rotator
    tol_f = 10.0
    if given is not None:
        rotated = _is_pass(seq) and bool(seq.rotation)
        check_handover(viol, given, seq.in_profile, "seq<-caller", rotated, root_names_of(type(seq.in_profile)),
                       root_names_of(Rotator.OutProfile))
        count("handover-checked:caller")
    if returned is not None:
        pr, po = _pub(returned), _pub(seq.out_profile)
        for k in sorted(set(pr) | set(po)):
            if k not in pr or k not in po or not _same(pr[k], po[k]):
                viol("returned-profile", f"caller<-seq: {k!r} of the returned profile is {pr.get(k)!r}, the outermost "
                     f"unit delivered {po.get(k)!r}")
        count("returned-profile-checked")

    def walk(u, path):
        where = f"{path}:{type(u).__name__}"
        ip, op = u.in_profile, u.out_profile
        prec = prec_of(u)
        tol = tol_f * prec
        count("unit:" + type(u).__qualname__)
        subs = _units_of(u)
        # --- time ---------------------------------------------------------------------------------------------
        dur = u.duration
        t_in, t_out = ip.t, op.t
        if abs(t_out - (t_in + dur)) > tol * max(abs(t_in), abs(dur), abs(t_out), 1e-300):
            viol("time-advance", f"{where}: out t {t_out} != in t {t_in} + duration {dur}")
        if dur >= 0 and t_out < t_in - tol * max(abs(t_in), 1e-300):
            viol("time-decreases", f"{where}: out t {t_out} < in t {t_in} although duration {dur} >= 0")
        # --- volume -------------------------------------------------------------------------------------------
        v_in, v_out = ip.cross_section.area * ip.length, op.cross_section.area * op.length
        if abs(v_out - v_in) > tol * max(abs(v_in), 1e-300):
            viol("volume", f"{where}: volume in {v_in} out {v_out} (A {ip.cross_section.area}->{op.cross_section.area}, "
                 f"l {ip.length}->{op.length})")
        # --- roll pass ----------------------------------------------------------------------------------------
        if _is_pass(u):
            prod = u.draught * u.spread * u.elongation
            if abs(prod - 1) > tol:
                viol("coefficient-product", f"{where}: draught*spread*elongation = {prod}")
            st = ip.strain + u.strain
            if abs(op.strain - st) > tol * max(1.0, abs(st)):
                viol("strain-accumulation", f"{where}: out strain {op.strain} != in strain {ip.strain} + pass strain {u.strain}")
            if u.strain < 0:
                viol("strain-negative", f"{where}: pass strain {u.strain}")
        if isinstance(u, Transport) and op.strain != 0:
            viol("transport-strain-reset", f"{where}: out strain {op.strain} after a transport")
        # --- sequence totals ----------------------------------------------------------------------------------
        if isinstance(u, PassSequence):
            units = list(u.units)
            el = 1.0
            n_el = 0
            for s in units:
                if hasattr(s, "elongation"):
                    el *= s.elongation
                    n_el += 1
            if abs(u.elongation - el) > tol * max(1, n_el) * abs(el):
                viol("sequence-elongation", f"{where}: elongation {u.elongation} != product of the units' {el}")
            if abs(u.elongation - ip.cross_section.area / op.cross_section.area) > tol * abs(u.elongation):
                viol("sequence-elongation-area", f"{where}: elongation {u.elongation} != A_in/A_out")
            for name in ("duration", "length", "power"):
                try:
                    parts = [getattr(s, name) for s in units]
                    total = getattr(u, name)
                except IndexError:
                    count("sum-skipped:transport-first-or-last-has-no-length")   # F13 (property C16), not C06
                    continue
                except AttributeError:   # a member cannot provide the value (leading rotator / transport: no velocity)
                    count(f"sum-skipped:{name}-of-a-member-unavailable")
                    continue
                if abs(total - sum(parts)) > tol * max(abs(total), max([abs(x) for x in parts], default=0), 1e-300):
                    viol(f"sequence-{name}-sum", f"{where}: {name} {total} != sum of the units' {sum(parts)}")
        # --- disk elements ------------------------------------------------------------------------------------
        if hasattr(u, "disk_element_count") and not isinstance(u, PassSequence):
            n = u.disk_element_count
            if len(subs) != n:
                viol("disk-count", f"{where}: {len(subs)} disk elements for disk_element_count={n}")
            if subs and _is_pass(u):
                count("pass-with-disks:exit-plane-" + ("in-the-high-point" if u.exit_point == 0 else "shifted")
                      + (":one-disk" if len(subs) == 1 else ""))
            if subs:
                L, Dd = _length(u, count), u.duration
                sd = sum(d.duration for d in subs)
                if abs(sd - Dd) > tol * max(abs(Dd), 1e-300):
                    viol("disk-duration-sum", f"{where}: disk durations add up to {sd}, parent duration {Dd}")
                # "the same chaining holds for disk elements": the time the last disk element delivers is the time
                # the unit delivers (they differ by duration - sum of the disk durations; + rounding of t itself)
                t_last = subs[-1].out_profile.t
                if abs(t_out - t_last) > tol * max(abs(Dd), 1e-300) + 1e-9 * max(abs(t_out), abs(t_last)):
                    viol("disk-time-end", f"{where}: the last disk element delivers t {t_last}, the unit delivers t {t_out}")
                if L is not None:
                    sl = sum(d.length for d in subs)
                    if abs(sl - L) > tol * max(abs(L), 1e-300):
                        viol("disk-length-sum", f"{where}: disk lengths add up to {sl}, parent length {L}")
                if L is not None and ip.has_value("x"):
                    xs_ok = True
                    x_prev = ip.x
                    for k, d in enumerate(subs):
                        if not _same(d.in_profile.x, x_prev):
                            viol("disk-x-chain", f"{where}: disk {k} starts at x {d.in_profile.x}, predecessor ended at {x_prev}")
                            xs_ok = False
                        if abs(d.out_profile.x - (d.in_profile.x + d.length)) > 1e-9 * max(abs(L), 1e-300):
                            viol("disk-x-advance", f"{where}: disk {k} out x {d.out_profile.x} != in x + length")
                        x_prev = d.out_profile.x
                    if xs_ok and abs(x_prev - op.x) > tol * max(abs(L), 1e-300):
                        viol("disk-x-end", f"{where}: last disk ends at x {x_prev}, parent out x {op.x}")
                    count("disk-x-checked")
                else:
                    count("disk-x-unavailable")
        # --- hand-over along the sub-units ----------------------------------------------------------------------
        last = ip
        for k, s in enumerate(subs):
            rotated = _is_pass(s) and bool(s.rotation)
            # (the parent's own in-profile root hooks - velocity - are evaluated after the sub-units were solved, so
            # the first sub-unit sees the previous iteration's value or none: not part of the statement)
            check_handover(viol, last, s.in_profile, f"{where}[{k}]" + ("<-in" if k == 0 else f"<-[{k - 1}]"), rotated,
                           root_names_of(type(s.in_profile)) + (root_names_of(type(ip)) if k == 0 else []),
                           root_names_of(Rotator.OutProfile))
            if k > 0:
                count("handover-checked" + (":rotated" if rotated else ""))
            walk(s, f"{path}.{k}")
            last = s.out_profile
        # --- what the unit delivers when it has sub-units and nothing of its own ---------------------------------
        if subs and isinstance(u, PassSequence):
            for name in ("length", "strain", "classifiers"):
                if not _same(getattr(op, name), getattr(last, name)):
                    viol("sequence-delivers-last", f"{where}: out {name} {getattr(op, name)!r} != last unit's {getattr(last, name)!r}")
            if not _same(op.cross_section, last.cross_section):
                viol("sequence-delivers-last", f"{where}: out cross-section is not the last unit's")
            if abs(op.t - last.t) > tol * max(abs(op.t), 1e-300):
                viol("sequence-time", f"{where}: out t {op.t} != last unit's out t {last.t}")
        # --- unit.profiles ------------------------------------------------------------------------------------
        profs = u.profiles
        exp = [ip]
        for s in subs:
            exp += s.profiles
        exp.append(op)
        if len(profs) != len(exp) or any(x is not y for x, y in zip(profs, exp)):
            viol("profiles-list", f"{where}: unit.profiles is not [in, sub-unit profiles..., out]")
        ts = [p.t for p in profs]
        if all(getattr(s, "duration", 0) >= 0 for s in subs) and dur >= 0:
            for x, y in zip(ts, ts[1:]):
                if y < x - tol * max(abs(x), 1e-300):
                    viol("time-order", f"{where}: t decreases along unit.profiles: {x} -> {y}")
                    break

    walk(seq, "seq")


def check_through(seq, root_names_of, viol, count, prefix=""):
    """State is handed over UNCHANGED along the sequence: a unit (or disk element) delivers, of what it does not
    compute itself (root hooks of its in / out profile), exactly the explicit values it received - none replaced by an
    older one, none kept that was not received, none lost."""
    def walk(u, path):
        where = f"{path}:{type(u).__name__}"
        ip, op = u.in_profile, u.out_profile
        pi, po = _pub(ip), _pub(op)
        own = set(root_names_of(type(ip))) | set(root_names_of(type(op)))
        for k in sorted(set(pi) | set(po)):
            if k in own:
                continue
            if k not in po:
                viol(prefix + "value-not-handed-through", f"{where}: received explicit value {k!r} = {pi[k]!r} is not delivered")
            elif k not in pi:
                viol(prefix + "value-not-handed-through", f"{where}: delivers the explicit value {k!r} = {po[k]!r} which "
                     f"it did not receive and does not compute")
            elif not _same(pi[k], po[k]):
                viol(prefix + "value-not-handed-through", f"{where}: received {k!r} = {pi[k]!r}, delivers {po[k]!r} "
                     f"(not a root hook of its profiles)")
        count(prefix + "through-unit-checked")
        for i, sub in enumerate(_units_of(u)):
            walk(sub, f"{path}.{i}")
    walk(seq, "seq")


def check_callers_values(seq, given, returned, all_root_names, viol, count, prefix=""):
    """... and so what the caller hands in arrives everywhere: an explicit value of the caller's profile that no unit
    computes (its name is no root hook at all: temperature, flow stress, material, a user's own entry) is, with that
    very value, in every in and out profile of the solved tree and in the returned profile - and no profile holds such
    an entry that the caller did not hand in."""
    pg = _pub(given)
    profs = [(f"profile #{i} of seq.profiles", q) for i, q in enumerate(seq.profiles)]
    if returned is not None:
        profs.append(("the returned profile", returned))
    for where, q in profs:
        pq = _pub(q)
        for k, v in pg.items():
            if k in all_root_names:
                continue
            if k not in pq:
                viol(prefix + "callers-value-not-delivered", f"{where} lacks {k!r}; the caller handed in {v!r}")
            elif not _same(v, pq[k]):
                viol(prefix + "callers-value-not-delivered", f"{where} holds {k!r} = {pq[k]!r}; the caller handed in {v!r}")
        for k, v in pq.items():
            if k not in pg and k not in all_root_names:
                viol(prefix + "callers-value-not-delivered", f"{where} holds {k!r} = {v!r}, which the caller did not hand "
                     f"in and no unit computes")
    count(prefix + "callers-values-checked")


# ---------------------------------------------------------------------------------------------------------------
# the model side: one `H` line per solved tree
# ---------------------------------------------------------------------------------------------------------------
class Ids:
    def __init__(self):
        self.m = {}

    def canon(self, v):
        import numpy as np
        if isinstance(v, bool) or v is None:
            return ("b", v)
        if isinstance(v, (int, float, np.integer, np.floating)):
            return ("n", float(v).hex())
        if hasattr(v, "wkb"):
            return ("g", v.wkb)
        if isinstance(v, (set, frozenset)):
            return ("s", tuple(sorted(map(repr, v))))
        if isinstance(v, np.ndarray):
            return ("a", v.shape, v.tobytes())
        if isinstance(v, (str, tuple)):
            return ("r", repr(v))
        if isinstance(v, (list, dict)):
            return ("r", repr(v))
        return ("o", id(v))

    def __call__(self, v):
        c = self.canon(v)
        if c not in self.m:
            self.m[c] = len(self.m) + 1
        return self.m[c]


def _dict_tok(d):
    return ",".join(f"{k}={v}" for k, v in d.items()) if d else "-"


def model_line(seq, in_profile, root_list, gen_roots, rotators, cache=None):
    """-> (`H` line, expected trace [(in ids, out ids)] in the model's order).
    `cache`: the hook cache the handed-over object had when it was handed over (name -> value)"""
    extra_tok, body, expected = model_parts(seq, in_profile, root_list, gen_roots, rotators, cache, Ids())
    return " ".join(["H", "_", extra_tok] + body), expected


def model_parts(seq, in_profile, root_list, gen_roots, rotators, cache, ids):
    """the unit tree as the hand-over model takes it -> (extra root hooks token, [dict, cache, unit tokens ...], expected);
    `ids` is shared between the two solves of one `H2` line (equal values = equal identifiers across the solves)"""

    def owners(p):
        return [f"{h.owner.__qualname__}" for h in root_list if issubclass(type(p), h.owner)]

    def impl_in(p):
        return {h.name: ids(p.__dict__[h.name]) for h in root_list if issubclass(type(p), h.owner) and h.name in p.__dict__}

    def impl_out(p):
        out = {}
        for h in root_list:
            if issubclass(type(p), h.owner) and h.name in p.__dict__:
                hk = getattr(type(p), h.name)
                try:
                    provided = hk.get_result(p) is not None
                except Exception:
                    provided = True
                if provided:
                    out[h.name] = ids(p.__dict__[h.name])
        return out

    def dflt_in(ip, op):
        """what getattr finds on the in profile for the root hooks of the out profile beyond the explicit values"""
        out = {}
        for h in root_list:
            if issubclass(type(op), h.owner) and h.name not in ip.__dict__ and h.name not in out:
                try:
                    out[h.name] = ids(getattr(ip, h.name))
                except AttributeError:
                    pass
        return out

    expected = []
    all_roots = {h.name for h in root_list}
    common_roots = {h.name for h in root_list if h.owner.__qualname__ == "Unit.OutProfile"}

    def comparable(p, side):
        """names whose value is a fixed-point quantity of the hand-over: not a root hook at all (static explicit state),
        a root hook of every out profile, or a root hook of this very out profile.  Root hooks owned by a sub-class
        (velocity, filling ratios, ...) leak downstream as explicit values copied at the FIRST solve call and are not
        re-evaluated there: what later units hold of them depends on the iteration history (see ASSUMPTIONS)."""
        own = {h.name for h in root_list if issubclass(type(p), h.owner)} if side == "out" else set()
        return {k for k in _pub(p) if k not in all_roots or k in common_roots or k in own}

    def unit(u):
        pre = []
        if _is_pass(u) and bool(u.rotation):
            r = rotators.get(id(u))
            if r is None or r.in_profile is None:
                raise LookupError("entry rotator of a roll pass was not captured")
            pre = [r]
        toks_pre = []
        for r in pre:
            toks_pre += unit(r)
        ip, op = u.in_profile, u.out_profile
        expected.append(({k: ids(v) for k, v in _pub(ip).items()}, {k: ids(v) for k, v in _pub(op).items()},
                         comparable(ip, "in"), comparable(op, "out")))
        subs = _units_of(u)
        head = ["U", ",".join(dict.fromkeys(owners(ip))) or "-", ",".join(dict.fromkeys(owners(op))) or "-",
                _dict_tok(impl_in(ip)), _dict_tok(impl_out(op)), _dict_tok(dflt_in(ip, op)), str(len(pre)), "0", str(len(subs))]
        toks = head + toks_pre
        for s in subs:
            toks += unit(s)
        return toks

    # the model's trace order is pre-processors, self, sub-units; unit() appends in that order
    toks = unit(seq)
    extra = [(h.owner.__qualname__, h.name) for h in root_list][len(gen_roots):]
    extra_tok = ",".join(f"{o}:{n}" for o, n in extra) or "-"
    start = {k: ids(v) for k, v in _pub(in_profile).items()}
    cached = {k: ids(v) for k, v in (cache or {}).items()}
    return extra_tok, [_dict_tok(start), _dict_tok(cached)] + toks, (expected, all_roots - common_roots)


def parse_trace(line):
    if not line.startswith("ok"):
        return None
    out = []
    for tok in line.split()[1:]:
        a, b = tok.split(";")

        def d(s):
            return {} if s == "-" else {kv.split("=")[0]: int(kv.split("=")[1]) for kv in s.split(",")}
        out.append((d(a), d(b)))
    return out


# ---------------------------------------------------------------------------------------------------------------
class SolveTimeout(BaseException):
    """raised by the harness' alarm inside a `solve` call that exceeds SOLVE_LIMIT_S (BaseException: `_solve_subunits`
    wraps `Exception`s only)"""


SOLVE_LIMIT_S = [30.0]      # wall-clock limit of ONE solve call (a regular one takes 0.05 - 2 s); set per tier in `run`


class time_limit:
    """a sequence made pathological by a change of the code under test (nested iteration loops that no longer
    converge: 100 x 100 x 100 bodies) must not stall the check: the solve is abandoned and counted"""

    def __init__(self, limit=None):
        self.limit = limit

    def __enter__(self):
        import signal

        def _raise(signum, frame):
            raise SolveTimeout()
        self.old = signal.signal(signal.SIGALRM, _raise)
        signal.setitimer(signal.ITIMER_REAL, min(SOLVE_LIMIT_S[0], self.limit or SOLVE_LIMIT_S[0]))
        return self

    def __exit__(self, *a):
        import signal
        signal.setitimer(signal.ITIMER_REAL, 0)
        signal.signal(signal.SIGALRM, self.old)
        return False


def solve_case(spec, count=None, reads=True, out=None):
    """build and solve; returns (sequence, in_profile, rotators) - exceptions of pyroll propagate.
    `out` (a dict) receives the profile `solve` returned."""
    ip = build_in_profile(spec["in"])
    if reads and spec["in"].get("reads"):
        apply_reads(ip, spec["in"]["reads"], count)
    seq = build_unit({"type": "seq", "units": spec["units"]}, "S")
    if out is not None:     # the hook cache of the object that is handed over (an input of the hand-over model)
        out["seq"] = seq
        out["cache"] = {n: getattr(ip, n) for n in sorted(type(ip).__hooks__) if ip.has_cached(n) and not ip.has_set(n)}
    import time
    t0 = time.monotonic()
    with RotatorCapture() as cap, RefreshTrace(out.setdefault("refresh", {}) if out is not None else {}), time_limit():
        ret = seq.solve(ip)
    if out is not None:
        out["returned"] = ret
        out["wall"] = time.monotonic() - t0
    return seq, ip, cap.by_pass


def _flat_units(seq):
    """the units of a built sequence in the order of `_flat(spec["units"])`"""
    from pyroll.core import PassSequence
    out = []
    for u in seq.units:
        out += _flat_units(u) if isinstance(u, PassSequence) else [u]
    return out


def reconfigure(seq, reconf):
    """what a user does with a line that was solved already: change a setting (an explicit value given to the
    constructor) of some units - `[index in the flat unit list, attribute, value]`; `attr*` = multiply the current value;
    `rotational_frequency` belongs to the working roll of the pass"""
    if not reconf:
        return
    flat = _flat_units(seq)
    for i, attr, val in reconf:
        u = flat[i]
        if attr == "rotational_frequency":
            u.roll.rotational_frequency = val
        elif attr.endswith("*"):
            setattr(u, attr[:-1], u.__dict__[attr[:-1]] * val)
        else:
            setattr(u, attr, val)


def solve_again(seq, spec, out, first_wall=None):
    """the second solve of the same sequence object on `build_second_profile(spec)`; exceptions of pyroll propagate.
    `first_wall`: what the first solve of this sequence took - the second one is abandoned (and counted) after
    max(4 s, 20 x that): another billet may not touch the rolls of the first pass at all, the contact length is NaN then
    and NaN results never meet the convergence test (all nested loops run to their maximum iteration count)"""
    ip2 = build_second_profile(spec)
    reconfigure(seq, spec["again"].get("reconf", []))
    with RotatorCapture() as cap, RefreshTrace(out.setdefault("refresh", {})), \
            time_limit(None if first_wall is None else max(4.0, 20 * first_wall)):
        ret = seq.solve(ip2)
    out["returned"] = ret
    return ip2, cap.by_pass


def reuse_branch_present(ctx):
    """has `Unit.init_solve` of the tree under test the `else:` branch that hands the incoming state over to a re-used
    out profile?  (what the translator read; read again when `translate` did not run in this context.)  None = unknown"""
    info = getattr(ctx, "skeleton", None)
    if info is not None and info.get("skeleton"):
        sk = info["skeleton"]
    else:
        try:
            sk = c06_skeleton.unit_skeleton(core.REPO)
        except Exception:
            return None
    if sk.get("init_solve") == ["<missing>"]:
        return None
    return sk.get("reuse") is not None


def _in_pyroll(ex):
    import traceback
    return any("/pyroll/" in f.filename for f in traceback.extract_tb(ex.__traceback__))


def _core_state(p):
    """the quantities of the property statement on one profile, as comparable values"""
    d = _pub(p)
    cs = d.get("cross_section")
    cl = d.get("classifiers")
    return (d.get("length"), d.get("t"), d.get("strain"), cs.wkb if cs is not None else None,
            tuple(sorted(cl)) if cl is not None else None)


def check_reads_twin(spec, solved_seq, viol, count):
    """What was READ on the caller's profile before solve() is no part of what the caller delivers: the same sequence
    solved on an equal profile object on which nothing was read must receive, hand over and deliver the same state in
    every unit (the computation is deterministic: exact comparison).  `solved_seq` is None when the solve with the
    prior reads raised inside pyroll."""
    try:
        twin, _, _ = solve_case(spec, reads=False)
    except SolveTimeout:
        count("reads-twin:abandoned:time-limit")
        return
    except Exception as ex:
        rc = _root_cause(ex)
        if not _in_pyroll(rc):
            raise
        if solved_seq is not None:
            viol("prior-reads-change-solution", f"the sequence solves after reading {spec['in']['reads']} on the incoming "
                 f"profile, but raises {type(rc).__name__} on an equal profile nothing was read on")
        count("reads-twin:both-raise" if solved_seq is None else "reads-twin:differ")
        return
    if solved_seq is None:
        viol("prior-reads-change-solution", f"the sequence solves on the incoming profile, but no longer after "
             f"{spec['in']['reads']} were read on that profile object before solve()")
        count("reads-twin:differ")
        return
    a, b = [_core_state(p) for p in solved_seq.profiles], [_core_state(p) for p in twin.profiles]
    if len(a) != len(b):
        viol("prior-reads-change-solution", f"{len(a)} profiles with prior reads, {len(b)} without")
        return
    for i, (x, y) in enumerate(zip(a, b)):
        if x != y:
            names = ("length", "t", "strain", "cross_section", "classifiers")
            which = [n for n, u, v in zip(names, x, y) if u != v]
            viol("prior-reads-change-solution", f"profile #{i} of the solved sequence: {which} differ between the solve on "
                 f"a profile {spec['in']['reads']} were read on before (length, t, strain = {x[:3]}) and the solve on an "
                 f"equal profile nothing was read on ({y[:3]})")
            count("reads-twin:differ")
            return
    count("reads-twin:same")


def _root_cause(ex):
    while ex.__cause__ is not None:
        ex = ex.__cause__
    return ex


# keys of the second-solve clauses that fail on a source WITHOUT the hand-over branch for exactly the reason that is
# property C05's finding (re-used out profiles keep what the first incoming profile handed over); see REUSE_BRANCH_REQUIRED
BRANCH_KEYS = ("again-value-not-handed-through", "again-callers-value-not-delivered")


def _examine(ctx, spec, twin, count, model=False):
    """solve one spec (and, with `spec["again"]`, the same sequence object a second time on the changed profile) and run
    the oracle -> dict(ok, found=[(key, what, replay)], got, line=(H line, expected) | None, line2=(H2 line, expected) | None).
    Must run inside `Registered(spec["model"], spec.get("plugins"))`."""
    from pyroll.core import root_hooks
    twin = twin and bool(spec["in"].get("reads"))
    robj = {"spec": spec, "twin": True} if twin else {"spec": spec}
    found = []
    got = {}
    res = {"ok": False, "found": found, "got": got, "line": None, "line2": None}
    model = model and getattr(ctx, "model_available", True)
    gen_roots = getattr(ctx, "gen_roots", None) or []
    branch = getattr(ctx, "reuse_branch", None)
    strict = REUSE_BRANCH_REQUIRED or branch is not False

    def viol(key, what):
        found.append((key, what, robj))

    root_list = list(root_hooks)
    all_root_names = {h.name for h in root_list}

    def root_names_of(cls):
        return [h.name for h in root_list if issubclass(cls, h.owner)]

    def prec_of(u):
        return float(u.iteration_precision)
    ids = Ids()
    parts1 = None
    try:
        seq, ip, rot = solve_case(spec, count, out=got)
        res["ok"] = True
    except SolveTimeout:
        count("solve-abandoned:time-limit")
        ctx.last_solve_error = f"no result within {SOLVE_LIMIT_S[0]} s"
        return res
    except Exception as ex:
        rc = _root_cause(ex)
        if not _in_pyroll(rc):
            raise
        count("solve-raised:" + type(rc).__name__)
        ctx.last_solve_error = f"{type(rc).__name__}: {str(rc)[:200]}"
        if twin:
            check_reads_twin(spec, None, viol, count)
        seq = got.get("seq")
    if res["ok"]:
        check_tree(seq, prec_of, viol, count, root_names_of, given=ip, returned=got.get("returned"))
        check_callers_values(seq, ip, got.get("returned"), all_root_names, viol, count)
        if branch:
            # with the hand-over branch every init_solve (also those of the outer iterations of a nested sequence)
            # refreshes what the out profile was handed: exact on every solve
            check_through(seq, root_names_of, viol, count)
        if twin:
            check_reads_twin(spec, seq, viol, count)
        if model:
            try:
                parts1 = model_parts(seq, ip, root_list, gen_roots, rot, got.get("cache"), ids)
                res["line"] = (" ".join(["H", "_", parts1[0]] + parts1[1]), parts1[2])
            except LookupError as ex:
                count("model-skipped:" + str(ex)[:40])
    if res["ok"] and model:
        res["slines"] = refresh_lines(got.get("refresh", {}))       # replaced below when a second solve follows
        res["observe"] = seq
    retry = spec["in"].get("flow_stress") is False and "flow_stress" in spec.get("again", {}).get("set", {})
    if spec.get("again") and seq is not None and (res["ok"] or retry):
        # ---- the same sequence object solved again on the changed profile ------------------------------------------
        got2 = {"refresh": got.setdefault("refresh", {})}      # the caches persist: one history per pass object

        def viol2(key, what):
            key = "again-" + key
            if key in BRANCH_KEYS and not strict:
                # a source without the hand-over branch: stale values in re-used out profiles are property C05's finding
                count("second-solve:" + key + ":counted-only(source without hand-over branch)")
                return
            found.append((key, "second solve of the same sequence, " + ("after a first solve that raised, " if not res["ok"] else "")
                          + f"on the profile changed by {spec['again']}: " + what, robj))
        try:
            ip2, rot2 = solve_again(seq, spec, got2, got.get("wall"))
        except SolveTimeout:
            count("second-solve:abandoned:time-limit")
            res["slines"] = []          # the history of the caches is incomplete
            return res
        except Exception as ex:
            rc = _root_cause(ex)
            if not _in_pyroll(rc):
                raise
            count("second-solve:raised:" + type(rc).__name__ + ("" if res["ok"] else ":after-aborted-first"))
            res["slines"] = []
            return res
        if res["ok"] and model:
            res["slines"] = refresh_lines(got.get("refresh", {}))
        count("second-solve:solved" + ("" if res["ok"] else ":after-aborted-first"))
        check_tree(seq, prec_of, viol2, lambda k, n=1: None, root_names_of, given=ip2, returned=got2.get("returned"))
        check_callers_values(seq, ip2, got2.get("returned"), all_root_names, viol2, count, prefix="")
        check_through(seq, root_names_of, viol2, count, prefix="")
        count("second-solve:checked")
        if model and parts1 is not None:
            try:
                parts2 = model_parts(seq, ip2, root_list, gen_roots, rot2, {}, ids)
                res["line2"] = (" ".join(["H2", "_", parts1[0]] + parts1[1] + ["|"] + parts2[1]), parts2[2])
            except LookupError as ex:
                count("model-skipped:" + str(ex)[:40])
        elif model:
            count("model-skipped:second solve after an aborted first one")
    return res


def refresh_lines(store):
    """the cache history of every roll pass with disk elements of one case -> [(`S` line, what was observed)]"""
    out = []
    for rec in store.values():
        u = rec["unit"]
        solves = rec["solves"][:40]
        if not u.subunits or not solves or any(len(sv) == 0 for sv in solves):
            continue
        out.append((f"S {type(u).__qualname__} roll contact_length " + ",".join(str(len(sv)) for sv in solves),
                    {"count": len(u.subunits), "solves": solves, "label": u.label}))
    return out


def compare_refresh(ctx, out_lines, expects):
    """(K) the cache model (`Refresh.solves` on the generated `reevaluate_cache` chain of the pass' class) against what the
    disk elements of real roll passes read: the model answers, per solve and iteration, the index of the state the value
    of `roll.contact_length` the disk elements read was computed from; the harness recorded, per solve and iteration, the
    disk length and what the roll's cache held after `reevaluate_cache` - the value of that state index."""
    for line, (spec, e) in zip(out_lines, expects):
        try:
            got = [[int(x) for x in part.split(",")] for part in line.strip().split(";")]
        except ValueError:
            ctx.disagreement(f"cache model answers {line[:80]!r} for roll pass {e['label']}", {"spec": spec})
            continue
        if [len(g) for g in got] != [len(sv) for sv in e["solves"]]:
            ctx.disagreement(f"cache model: {[len(g) for g in got]} iterations, implementation {[len(sv) for sv in e['solves']]}",
                             {"spec": spec})
            continue
        idx, value_at, bad = 0, {}, None
        for k, sv in enumerate(e["solves"]):
            idx += 1                                    # init_solve: a new state
            for i, (disk_length, roll_value) in enumerate(sv):
                read = got[k][i]
                if read >= idx:
                    ctx.count("cache-model:first-read(computed when read)")
                elif read not in value_at or value_at[read] is None or disk_length is None:
                    ctx.count("cache-model:read-not-observable")
                elif disk_length != value_at[read] / e["count"]:
                    bad = bad or (f"roll pass {e['label']}, solve #{k + 1} of this object, iteration {i + 1}: the disk elements "
                                  f"have length {disk_length!r}; the model says they read the contact length of state {read}, "
                                  f"{value_at[read]!r} / {e['count']} = {value_at[read] / e['count']!r}")
                else:
                    ctx.count("cache-model:read-agrees")
                value_at[idx] = roll_value              # what `reevaluate_cache` of this iteration left in the roll's cache
                idx += 1                                # get_root_hook_results: a new state
        if bad:
            ctx.disagreement("cache model vs implementation: " + bad, {"spec": spec})
        else:
            ctx.validated()


class _Marked(float):
    """a float of the same value but another identity: put into a hook cache to see whether the entry is replaced"""


def observe_reevaluate(obj):
    """what does `obj.reevaluate_cache()` do on this real object?  -> (set of tokens like the model's `own`,
    `refresh:<attr>`, `reset:<attr>`; set of the tokens that could be observed at all)"""
    from pyroll.core.hooks import HookHost
    targets = [("own", obj)] + [("refresh:" + a, v) for a, v in obj.__dict__.items()
                                if isinstance(v, HookHost) and not a.startswith("_")]
    marks = []
    for tag, o in targets:
        for k, v in o.__cache__.items():
            if isinstance(v, float) and v == v:
                m = _Marked(v)
                o.__cache__[k] = m
                marks.append((tag, o, k, m))
                break
    filled = {a for a, v in obj.__dict__.items() if a.startswith("_") and not a.startswith("__") and v is not None
              and not isinstance(v, (int, float, str, dict, list)) and not callable(v) and a not in ("_unit", "_parent", "_subunits")}
    obj.reevaluate_cache()
    seen = {tag for (tag, o, k, m) in marks if o.__cache__.get(k) is not m}
    seen |= {"reset:" + a for a in filled if obj.__dict__.get(a) is None}
    return seen, {tag for (tag, _, _, _) in marks} | {"reset:" + a for a in filled}


def _runtime_classes():
    """{qualified name: class} of every class defined in pyroll.core (module level and nested)"""
    import importlib
    import inspect
    import pkgutil
    import pyroll.core
    seen = {}
    stack = []
    for m in pkgutil.walk_packages(pyroll.core.__path__, "pyroll.core."):
        mod = importlib.import_module(m.name)
        stack += [o for o in vars(mod).values() if inspect.isclass(o)]
    while stack:
        c = stack.pop()
        if not getattr(c, "__module__", "").startswith("pyroll.core") or c.__qualname__ in seen:
            continue
        seen[c.__qualname__] = c
        stack += [o for o in vars(c).values() if inspect.isclass(o)]
    return seen


def refresh_correspondence(ctx, observed):
    """(K) of the generated class hierarchy and `reevaluate_cache` chains: the linearisation the translator computed from
    the bases in the source vs `cls.__mro__`; the helper class vs the class of the real helper object; the model's effect
    list per class (`R` lines) vs what `reevaluate_cache()` was SEEN to do on one real solved object of that class
    (`observed`: class name -> (seen, observable), see `observe_reevaluate`)"""
    info = getattr(ctx, "refresh", None)
    if info is None:
        try:
            info = c06_refresh.emit(core.REPO, [])[1]
        except Exception:
            return
    rt = _runtime_classes()
    for q, m in info.get("emitted_mros", []):
        c = rt.get(q)
        real = None if c is None else [k.__qualname__ for k in c.__mro__ if k.__module__.startswith("pyroll.core")]
        if real == m:
            ctx.validated()
        else:
            ctx.disagreement(f"MRO of {q}: computed from the source {m}, at run time {real}", {"class": q})
    for cls, attr, hcls in info.get("helper_class", []):
        for name, (seen, observable, helper_types) in observed.items():
            if name == cls and attr in helper_types:
                if helper_types[attr] == hcls:
                    ctx.validated()
                else:
                    ctx.disagreement(f"helper {cls}.{attr}: class {hcls} read from the source, {helper_types[attr]} at run time",
                                     {"class": cls})
    names = sorted(observed)
    if not names:
        return
    out = ctx.lean_model(MODEL, ["R " + n for n in names])
    for n, line in zip(names, out):
        seen, observable, _ = observed[n]
        toks = set(line.split()) - {"-"}
        model = {t for t in toks if t in observable}
        ctx.count("reevaluate_cache-observed:" + n)
        if line.strip() == "no-mro" or any(t.startswith("unknown:") for t in toks) or model != seen:
            ctx.disagreement(f"{n}.reevaluate_cache(): the model says {line.strip()!r}; on a real solved object "
                             f"{sorted(seen)} of the observable {sorted(observable)} happened", {"class": n})
        else:
            ctx.validated()


def collect_observations(seq, observed):
    """one real solved object per class (units, disk elements, rolls): what its `reevaluate_cache()` does"""
    from pyroll.core.hooks import HookHost

    def walk(u):
        yield u
        for a, v in u.__dict__.items():
            if isinstance(v, HookHost) and not a.startswith("_") and a not in ("in_profile", "out_profile"):
                yield v
        for sub in u.subunits:
            yield from walk(sub)
    for o in walk(seq):
        n = type(o).__qualname__
        if n not in observed and not type(o).__module__.startswith("pyroll.core"):
            continue
        if n not in observed:
            helper_types = {a: type(v).__qualname__ for a, v in o.__dict__.items()
                            if isinstance(v, HookHost) and not a.startswith("_")}
            seen, observable = observe_reevaluate(o)
            observed[n] = (seen, observable, helper_types)


def run_case(ctx, spec, lines, pending, twin=False):
    """solve one spec, run the oracle, queue the model lines. Returns True if the sequence solved.
    `twin`: additionally solve the same spec without the prior reads and compare (`check_reads_twin`)."""
    with Registered(spec["model"], spec.get("plugins")):
        res = _examine(ctx, spec, twin, ctx.count, model=True)
        found = res["found"]
        if found and spec["in"].get("reads"):
            # shrink the replay: does the same kind of failure show without any prior read, or with only those reads
            # that left a value in the hook cache?
            keys = {k for (k, _, _) in found}
            cached = sorted(res["got"].get("cache", {}))
            for reads in ([], cached):
                if reads == spec["in"]["reads"]:
                    continue
                smaller = dict(spec, **{"in": {k: v for k, v in spec["in"].items() if k != "reads"}})
                if reads:
                    smaller["in"]["reads"] = reads
                found2 = _examine(ctx, smaller, twin, lambda *a: None)["found"]
                if keys & {k for (k, _, _) in found2}:
                    found = [f for f in found2 if f[0] in keys] + [f for f in found if f[0] not in {k for (k, _, _) in found2}]
                    break
        for (key, what, robj) in found:
            ctx.violation(key, what, robj)
        for tag, ln in (("", res["line"]), ("second solve: ", res["line2"])):
            if ln is not None:
                lines.append(ln[0])
                pending.append((spec, ln[1], tag))
        if hasattr(ctx, "refresh_lines"):
            for (ln, e) in res.get("slines") or []:
                ctx.refresh_lines.append(ln)
                ctx.refresh_expect.append((spec, e))
            if res.get("observe") is not None and len(ctx.refresh_observed) < 40:
                collect_observations(res["observe"], ctx.refresh_observed)
    return res["ok"]


def compare_model(ctx, out_lines, pending):
    for line, (spec, (expected, volatile), tag) in zip(out_lines, pending):
        ctx.count("model-lines:" + ("H2(second solve)" if tag else "H"))
        got = parse_trace(line)
        if got is None:
            ctx.disagreement(f"hand-over model answers {line[:80]!r} for a sequence the implementation solved"
                             + (" twice" if spec.get("again") else ""), {"spec": spec})
            continue
        if len(got) != len(expected):
            ctx.disagreement(tag + f"hand-over model has {len(got)} units, implementation {len(expected)}", {"spec": spec})
            continue
        bad = None
        for i, ((gi, go), (ei, eo, ci, co)) in enumerate(zip(got, expected)):
            for side, g, e, comp in (("in", gi, ei, ci), ("out", go, eo, co)):
                for k in comp:
                    if k not in g:
                        bad = f"unit #{i} {side} profile: {k!r} is missing in the model"
                    elif g[k] != e[k]:
                        bad = f"unit #{i} {side} profile: value of {k!r} differs (model id {g[k]}, implementation id {e[k]})"
                    if bad:
                        break
                extra = [k for k in g if k not in e and k not in volatile]
                if extra and not bad:
                    bad = f"unit #{i} {side} profile: the model has {extra} which the implementation has not"
                ctx.count("model-names-compared", len(comp))
                ctx.count("model-names-not-compared(iteration variables of other units)", len(set(e) - comp))
                if bad:
                    break
            if bad:
                break
        if bad:
            ctx.disagreement(tag + "hand-over model vs implementation: " + bad, {"spec": spec})
        else:
            ctx.validated()


def run(ctx):
    rng = ctx.rng
    # ---- (a) generated formulas vs the python functions ------------------------------------------------------------
    found = getattr(ctx, "found", None)
    info = getattr(ctx, "skeleton", None)
    if found is None:
        idx = gen.hookimpl_index(sorted({rel for (_, rel, _) in SELECTION}))
        found = {name: idx[(rel, fn)] for (name, rel, fn) in SELECTION if (rel, fn) in idx}
    if info is not None:
        ctx.gen_roots = info["root_hooks"]
    else:
        try:
            ctx.gen_roots = c06_skeleton.root_hooks(core.REPO)
        except Exception:
            ctx.gen_roots = []
    model = getattr(ctx, "model_available", True)
    if model:
        stub.formula_correspondence(ctx, MODEL, found, lambda r, v: math.exp(r.uniform(-3, 3)) * r.choice([1, 1, 1, -1]),
                                    n_each=ctx.budget(6, 120))
        sums_and_threads(ctx, found)
    # ---- (b) the root hook list the translator read is the one the package uses ------------------------------------
    from pyroll.core import root_hooks
    runtime = [(h.owner.__qualname__, h.name) for h in root_hooks]
    if runtime != [tuple(x) for x in ctx.gen_roots]:
        ctx.tie_breaks.append(f"root hook list at run time {runtime} differs from the one read from pyroll/core/__init__.py")

    # ---- (b') the list of implementations of the chained hooks the translator found in the source files is the one the
    # package holds at run time (an implementation registered in a way the file scan does not see would escape the
    # certificate `chain_hooks_all_translated`)
    gen_chain = getattr(ctx, "chain_impls", None)
    if gen_chain is None:
        gen_chain = chain_implementations(core.REPO)
    rt_chain = runtime_chain_implementations()
    if sorted(set(rt_chain)) != sorted(set(gen_chain)):
        ctx.tie_breaks.append("implementations of the chained hooks " + ", ".join(CHAIN_HOOKS) + ": at run time "
                              f"{sorted(set(rt_chain) - set(gen_chain))} are registered beyond, and "
                              f"{sorted(set(gen_chain) - set(rt_chain))} are missing from, what the translator read from the "
                              "source files")
    else:
        ctx.count("chain-implementations:run-time-list-agrees", len(gen_chain))

    # ---- (c) solved sequences: oracle + hand-over model -------------------------------------------------------------
    SOLVE_LIMIT_S[0] = 30.0 if ctx.tier == "quick" else 120.0
    ctx.reuse_branch = reuse_branch_present(ctx)
    ctx.notes["init_solve_reuse_branch"] = {True: "present (a re-used out profile gets the incoming state handed over)",
                                            False: "absent (older source form: a re-used out profile is left as it is); "
                                                   + ("REQUIRED" if REUSE_BRANCH_REQUIRED else "tolerated: the second-solve "
                                                      "clauses " + ", ".join(BRANCH_KEYS) + " are only counted"),
                                            None: "unknown (init_solve left the translatable subset)"}[ctx.reuse_branch]
    lines, pending = [], []
    ctx.refresh_lines, ctx.refresh_expect, ctx.refresh_observed = [], [], {}
    solved = 0
    hook_names = profile_hook_names()
    # every corpus layout as it is - and the same sequence object solved again on a changed billet -, and once more after
    # the caller has looked at every hook of the incoming profile
    corpus = [dict(spec, again=AGAIN_CORPUS) for spec in CORPUS] \
        + [dict(spec, **{"in": dict(spec["in"], reads=hook_names)}) for spec in CORPUS] \
        + [dict(spec, again=AGAIN_CORPUS_OTHER) for spec in CORPUS]
    for spec in corpus:
        ok = run_case(ctx, spec, lines, pending, twin=True)
        ctx.case(["corpus", spec], nontrivial=ok)
        ctx.count("corpus-solved" if ok else "corpus-unsolved")
        if not ok and ctx.extended:
            # only after the tie to the source broke: a layout of the repository's own tests that no longer solves is
            # the concrete failing input (hand-over so broken that no solved sequence exists to look at)
            ctx.violation("known-good-sequence-does-not-solve", "a sequence that solves on the unchanged tree raises "
                          + getattr(ctx, "last_solve_error", "?"), {"spec": spec})
    # (the extended search after a broken tie multiplies budgets by 5: 600 / 6000 sequences)
    n = ctx.budget(N_QUICK, 4500) if not ctx.extended else ctx.budget(120, 1200)
    for i in range(n):
        spec = gen_case(rng, hook_names)
        ok = run_case(ctx, spec, lines, pending, twin=rng.random() < 0.12)
        flat = _flat(spec["units"])
        ctx.case(spec, nontrivial=ok and len(flat) >= 2 and (spec["in"]["length"] or 0) > 0)
        if ok:
            solved += 1
            ctx.count("layout:nested" if any(u["type"] == "seq" for u in spec["units"]) else "layout:flat")
            ctx.count("model:" + spec["model"])
            ctx.count("in:" + spec["in"]["kind"])
            if spec.get("again"):
                ctx.count("again:generated")
                for k in spec["again"]["set"]:
                    ctx.count("again:changed-or-added:" + k)
                for k in spec["again"]["drop"]:
                    ctx.count("again:removed:" + k)
                if "size" in spec["again"]:
                    rel = abs(spec["again"]["size"] / spec["in"]["size"] - 1)
                    ctx.count("again:size:" + ("within 1.5 %" if rel <= 0.0151 else "another billet (up to 11 %)"))
                if "kind" in spec["again"]:
                    ctx.count("again:another-shape")
                for (_, attr, _) in spec["again"].get("reconf", []):
                    ctx.count("again:reconfigured:" + attr)
            nr = len(spec["in"].get("reads", []))
            ctx.count("prior-reads:" + ("none" if nr == 0 else "all" if nr == len(hook_names) else "some"))
            for (pn, _) in spec.get("plugins", []):
                ctx.count("plug-in:" + pn)
            for u in flat:
                ctx.count("spec:" + u["type"] + (":three" if u.get("three") else ""))
                for g in u.get("given", {}):
                    ctx.count("given:" + g + (":with-disks" if u.get("disks") else ""))
                if u["type"] in ("transport", "pipe"):
                    ctx.count("transport-given:" + "+".join(k for k in ("length", "duration", "velocity") if k in u))
                    if u.get("length") == 0 or u.get("duration") == 0:
                        ctx.count("transport-given:zero-" + ("length" if u.get("length") == 0 else "duration"))
                if u["type"] == "rotator":
                    ctx.count("rotator-given:" + ("+".join(k + ("=0" if u[k] == 0 else "") for k in ("duration", "length", "velocity")
                                                           if k in u) or "angle-only"))
                if u.get("disks"):
                    ctx.count(f"disks:{u['disks']}")
            if len(ctx.samples) < 3:
                ctx.sample(spec)
    ctx.notes["sequences_solved"] = solved
    excluded_point(ctx)
    used_unit_reconfigured(ctx)
    contradicting_given(ctx)
    if model:
        ilines, iexpect = init_solve_histories(ctx)
        out = ctx.lean_model(MODEL, lines + ilines + ctx.refresh_lines)
        compare_model(ctx, out[:len(lines)], pending)
        compare_init_solve(ctx, out[len(lines):len(lines) + len(ilines)], iexpect)
        compare_refresh(ctx, out[len(lines) + len(ilines):], ctx.refresh_expect)
        refresh_correspondence(ctx, ctx.refresh_observed)


def init_solve_histories(ctx):
    """(K) the translated `init_solve` policy for the out profile (`Handover.initOut genReuse`, `I` lines) against the
    real `Unit.init_solve`, directly: a transport / cooling pipe / sequence is initialised several times in a row with
    generated incoming profiles (entries changed, removed, added, private ones); between the calls the out profile is
    treated as a solve (root hook results written) or a user (entries deleted, stray entries) would.  Compared: the public
    entries of the out profile after every call, in order."""
    from pyroll.core import Transport, CoolingPipe, PassSequence, Profile, root_hooks
    rng = ctx.rng
    root_list = list(root_hooks)
    gen_roots = getattr(ctx, "gen_roots", None) or []
    extra = [(h.owner.__qualname__, h.name) for h in root_list][len(gen_roots):]
    extra_tok = ",".join(f"{o}:{n}" for o, n in extra) or "-"
    names = ["temperature", "flow_stress", "material", "density", "batch", "cross_section", "classifiers", "strain",
             "length", "velocity", "width", "x", "filling_ratio"]
    values = [1.0, 2.5, 1473.15, 0, "C45", "B-17", 7.5e3]
    makers = [lambda: Transport(duration=1), lambda: CoolingPipe(duration=1, inner_radius=0.05, coolant_volume_flux=1e-3),
              lambda: PassSequence([Transport(duration=1)])]
    lines, expect = [], []
    for _ in range(ctx.budget(30, 400)):
        u = rng.choice(makers)()
        ids = Ids()
        hist = []
        for step in range(rng.randrange(2, 5)):
            attrs = {k: rng.choice(values) for k in rng.sample(names, rng.randrange(0, len(names)))}
            if rng.random() < 0.5:
                attrs["t"] = rng.choice(values[:4])
            if rng.random() < 0.3:
                attrs["_secret"] = 5
            prof = Profile(**attrs)
            prev = None if u.out_profile is None else dict(u.out_profile.__dict__)
            u.init_solve(prof)
            op = u.out_profile
            owners = list(dict.fromkeys(h.owner.__qualname__ for h in root_list if issubclass(type(op), h.owner)))
            tok = lambda d: _dict_tok({k: ids(v) for k, v in d.items()})    # noqa: E731
            lines.append(" ".join(["I", "_", extra_tok, ",".join(owners) or "-", "none" if prev is None else tok(prev),
                                   tok(prof.__dict__)]))
            hist.append({"incoming": {k: repr(v) for k, v in _pub(prof).items()},
                         "out_before": None if prev is None else {k: repr(v) for k, v in prev.items() if not k.startswith("_")}})
            expect.append(([(k, ids(v)) for k, v in op.__dict__.items() if not k.startswith("_")],
                           {"unit": type(u).__name__, "init_solve_history": list(hist)}))
            ctx.count("init_solve:" + ("first" if prev is None else "re-use"))
            # what happens to the out profile until the next init_solve
            roots = [h.name for h in root_list if issubclass(type(op), h.owner)]
            for k in rng.sample(roots, rng.randrange(0, len(roots) + 1)):
                setattr(op, k, rng.choice(values))
            pub_names = [k for k in op.__dict__ if not k.startswith("_")]
            if pub_names and rng.random() < 0.4:
                op.__dict__.pop(rng.choice(pub_names))
            if rng.random() < 0.3:
                op.stray = rng.choice(values)
    return lines, expect


def compare_init_solve(ctx, out_lines, expect):
    for line, (exp, robj) in zip(out_lines, expect):
        try:
            got = [] if line.strip() == "-" else [(kv.split("=")[0], int(kv.split("=")[1])) for kv in line.strip().split(",")]
        except (ValueError, IndexError):
            got = None
        if got is not None:
            got = [(k, v) for (k, v) in got if not k.startswith("_")]
        if got == exp:
            ctx.validated()
        else:
            ctx.disagreement(f"init_solve: public entries of the out profile {exp} (implementation) vs {got if got is not None else line[:80]!r} "
                             f"(Handover.initOut with the generated re-use policy)", robj)


def _flat(units):
    out = []
    for u in units:
        if u["type"] == "seq":
            out += _flat(u["units"])
        else:
            out.append(u)
    return out


def sums_and_threads(ctx, found):
    """generated `sum([...])` implementations and the threading of t / x, Lean Float vs python"""
    import importlib
    rng = ctx.rng
    lines, expect = [], []
    for name in SUMS:
        impl = found.get(name)
        if impl is None:
            continue
        kinds = [(g, e, k) for (g, e, k) in impl.alts]
        if len(kinds) != 1 or kinds[0][2] != "sumOver":
            ctx.tie_breaks.append(f"{name} is no longer a plain sum over the units")
            continue
        coll, attr = kinds[0][1]
        pyfn = getattr(importlib.import_module("pyroll.core." + impl.module[:-3].replace("/", ".")), impl.fn)
        for _ in range(ctx.budget(5, 60)):
            xs = [math.exp(rng.uniform(-3, 3)) * rng.choice([1, 1, -1]) for _ in range(rng.randrange(0, 7))]

            class Seq:
                pass
            s = Seq()
            setattr(s, coll, [type("U", (), {attr: x})() for x in xs])
            real = float(pyfn.function(s))
            lines.append("sum " + name + " " + " ".join(str(stub.bits(x)) for x in xs))
            expect.append(("sum", name, coll, attr, xs, real))
    for (name, v_in, v_step) in (("out_t", "unit.in_profile.t", "unit.duration"), ("out_x", "unit.in_profile.x", "unit.length")):
        impl = found.get(name)
        if impl is None:
            continue
        pyfn = getattr(importlib.import_module("pyroll.core." + impl.module[:-3].replace("/", ".")), impl.fn)
        for _ in range(ctx.budget(5, 60)):
            x0 = rng.uniform(-5, 5)
            steps = [rng.uniform(0, 3) for _ in range(rng.randrange(0, 7))]
            vals = [x0]
            for s_ in steps:
                vals.append(float(stub.call_impl(pyfn, {v_in: vals[-1], v_step: s_})))
            lines.append(f"thread {name} {v_in} {v_step} {stub.bits(x0)} " + " ".join(str(stub.bits(s_)) for s_ in steps))
            expect.append(("thread", name, vals))
    if not lines:
        return
    out = ctx.lean_model(MODEL, lines)
    for e, o in zip(expect, out):
        if e[0] == "sum":
            _, name, coll, attr, xs, real = e
            t = o.split()
            ok = len(t) == 3 and t[0] == coll and t[1] == attr and stub.close(stub.unbits(t[2]), real)
            if ok:
                ctx.validated()
            else:
                ctx.disagreement(f"generated sum {name}: model answers {o!r}, python {coll}.{attr} sum = {real}", {"sum": name, "xs": xs})
        else:
            _, name, vals = e
            try:
                got = [stub.unbits(t) for t in o.split()]
            except Exception:
                got = None
            if got is not None and len(got) == len(vals) and all(stub.close(a, b) for a, b in zip(got, vals)):
                ctx.validated()
            else:
                ctx.disagreement(f"threading {name}: model {o!r} vs python {vals}", {"thread": name, "values": vals})


def excluded_point(ctx):
    """`time_monotone` needs 0 <= duration. Run the code where that fails (negative duration of a transport, negative
    rotational frequency of a roll) and record what it does - a report, not a violation."""
    for label, spec in (
        ("transport-duration<0", {"in": {"kind": "round", "size": 30e-3, "length": 1, "strain": 0, "t": None}, "model": "none",
                                  "units": [{"type": "pass", "groove": "oval", "scale": 1.0, "disks": 0},
                                            {"type": "transport", "duration": -1, "disks": 0},
                                            {"type": "pass", "groove": "round", "scale": 1.0, "disks": 0}]}),
        ("roll-frequency<0", {"in": {"kind": "round", "size": 30e-3, "length": 1, "strain": 0, "t": None}, "model": "none",
                              "units": [{"type": "pass", "groove": "oval", "scale": 1.0, "disks": 2, "freq": -1}]}),
    ):
        try:
            seq, ip, _ = solve_case(spec)
        except SolveTimeout:
            ctx.count(f"excluded-point:{label}:abandoned:time-limit")
            continue
        except Exception as ex:
            rc = _root_cause(ex)
            ctx.count(f"excluded-point:{label}:raises-{type(rc).__name__}")
            ctx.notes.setdefault("excluded_point", {})[label] = f"solve raises {type(rc).__name__}: {str(rc)[:120]}"
            continue
        ts = [p.t for p in seq.profiles]
        dec = any(b < a for a, b in zip(ts, ts[1:]))
        durs = [u.duration for u in seq.units]
        ctx.count(f"excluded-point:{label}:" + ("t-decreases" if dec else "t-monotone"))
        ctx.notes.setdefault("excluded_point", {})[label] = (
            f"solve succeeds without complaint; durations {[round(float(d), 6) for d in durs]}; t along the profiles "
            f"{[round(float(t), 6) for t in ts]} ({'goes back in time' if dec else 'monotone'}); out t = in t + duration still holds")


def used_unit_reconfigured(ctx):
    """Outside the quantifier of the statement (layouts, incoming profiles, plugged-in models - not edits of a used object),
    recorded like the excluded point: `disk_element_count` changed on a unit that was solved before.  The disk elements are
    created once (`DiskElementUnit.init_solve`: `if not self._subunits`), their length is `… / disk_element_count` of the NEW
    count: the old number of disk elements no longer adds up to the parent.  A report, not a violation."""
    spec = {"in": {"kind": "round", "size": 30e-3, "length": 1, "strain": 0, "t": None}, "model": "none",
            "units": [{"type": "pass", "groove": "oval", "scale": 1.0, "disks": 3},
                      {"type": "transport", "duration": 1, "disks": 2}]}
    try:
        seq, ip, _ = solve_case(spec)
        for u in seq.units:
            u.disk_element_count = 5
        with time_limit():
            seq.solve(build_in_profile(spec["in"]))
        rows = []
        for u in seq.units:
            subs = list(u.subunits)
            rows.append(f"{type(u).__name__}: disk_element_count 5, {len(subs)} disk elements, their lengths add up to "
                        f"{sum(d.length for d in subs) / u.length:.3f} of the unit's length")
        ctx.notes["used_unit_disk_count_changed"] = "; ".join(rows)
        ctx.count("observation:disk-count-changed-on-used-unit:" +
                  ("elements-not-recreated" if any(len(list(u.subunits)) != 5 for u in seq.units) else "elements-recreated"))
    except SolveTimeout:
        ctx.count("observation:disk-count-changed-on-used-unit:abandoned:time-limit")
    except Exception as ex:
        rc = _root_cause(ex)
        if not _in_pyroll(rc):
            raise
        ctx.count("observation:disk-count-changed-on-used-unit:raises-" + type(rc).__name__)


# The disk elements of a ROLL PASS take their length from `roll.contact_length` and their duration from their own length /
# velocity (roll_pass/hookimpls/disk_element.py) - they never read the pass' `length` / `duration` (the generic disk elements
# of a transport do).  So a pass whose `duration` or `length`, or whose roll's `contact_length`, is GIVEN (keyword, or a
# plug-in on `Roll.contact_length`: roll flattening) has disk elements that do not add up to it - on the unchanged tree
# (observed 2026-10-01, /repo 2036eeb; theorem `C06.given_value_breaks_roll_pass_partition` is the same statement about the
# translated formulas).  These three inputs state one physical quantity twice (the given value and the entry / exit planes
# it is otherwise derived from); whether they are inside the property's quantifier is for the integrator to decide: while
# this flag is False they are run on every check, recorded in the evidence (`notes.roll_pass_disks_given_value`, counts
# `observation:roll-pass-disks-given:...`) and NOT reported; with True the oracle's findings on them are violations with
# replays (set it once pyroll-core's roll-pass disk elements follow the pass' length / duration).
ROLL_PASS_DISKS_FOLLOW_GIVEN_REQUIRED = False


def contradicting_given(ctx):
    """roll passes WITH disk elements whose `duration` / `length` / roll `contact_length` is given explicitly or by a
    plug-in (see ROLL_PASS_DISKS_FOLLOW_GIVEN_REQUIRED): full oracle on the solved tree; recorded, reported only when
    required.  The first case is witness (a) of the Lean theorem (`exDiskEnv`) replayed on the implementation: entry plane
    -0.04, exit plane 0.002, velocity 2, three disk elements, duration 0.1 given: the disk durations add up to 0.021."""
    rng = ctx.rng
    base = {"in": {"kind": "round", "size": 30e-3, "length": 1, "strain": 0, "t": None}, "model": "none"}

    def line(given=None, roll_given=None, plugins=None, disks=2):
        p1 = {"type": "pass", "groove": "oval", "scale": 1.0, "disks": disks}
        if given:
            p1["given"] = given
        if roll_given:
            p1["roll_given"] = roll_given
        sp = dict(base, units=[p1, {"type": "transport", "duration": 1, "disks": 2},
                               {"type": "pass", "groove": "round", "scale": 1.0, "disks": rng.choice([0, 1, 3])}])
        if plugins:
            sp["plugins"] = plugins
        return sp
    cases = [
        ("witness:pass-duration-given", line({"entry_point": -0.04, "exit_point": 0.002, "velocity": 2.0, "duration": 0.1},
                                             disks=3)),
        ("pass-duration-given", line({"duration": round(rng.uniform(0.02, 0.3), 4)}, disks=rng.choice([1, 2, 3, 4]))),
        ("pass-length-given", line({"length": round(rng.uniform(0.03, 0.08), 4)}, disks=rng.choice([1, 2, 3, 4]))),
        ("roll-contact-length-given", line(roll_given={"contact_length": round(rng.uniform(0.03, 0.08), 4)},
                                           disks=rng.choice([1, 2, 3, 4]))),
        ("roll-contact-length-plug-in", line(plugins=[["contact_length", round(rng.uniform(1.02, 1.15), 3)]],
                                             disks=rng.choice([1, 2, 3, 4]))),
    ]
    notes = ctx.notes.setdefault("roll_pass_disks_given_value", {})
    for label, spec in cases:
        with Registered(spec["model"], spec.get("plugins")):
            res = _examine(ctx, spec, False, lambda *a: None)
        if not res["ok"]:
            ctx.count(f"observation:roll-pass-disks-given:{label}:not-solved")
            notes[label] = "does not solve: " + str(getattr(ctx, "last_solve_error", "?"))
            continue
        keys = sorted({k for (k, _, _) in res["found"]})
        ctx.count(f"observation:roll-pass-disks-given:{label}:" + ("adds-up" if not keys else "does-not-add-up"))
        notes[label] = ("the oracle finds nothing" if not keys else
                        f"oracle keys {keys}; e.g. {res['found'][0][1][:220]}") + f"; spec {spec['units'][0]}" \
            + (f", plug-ins {spec['plugins']}" if spec.get("plugins") else "")
        if ROLL_PASS_DISKS_FOLLOW_GIVEN_REQUIRED:
            for (key, what, robj) in res["found"]:
                ctx.violation(key, what, robj)


def replay(ctx, data):
    r = data.get("replay", data)
    spec = r["spec"]
    lines, pending = [], []
    ctx.gen_roots = getattr(ctx, "skeleton", {}).get("root_hooks", []) if getattr(ctx, "skeleton", None) else []
    ctx.model_available = False
    ctx.reuse_branch = reuse_branch_present(ctx)
    run_case(ctx, spec, lines, pending, twin=bool(r.get("twin")))
